"""C01 — boolean expressions mean what the Python source means."""
import collections
import os
import random
import signal

from . import common as C
from . import gen, progs, shadow

PID = "C01"
MAX_BITS = 11


def task(job):
    """Worker: translate `src` under one optimizer profile and compare the
    expressions with the reference semantics on every (or sampled) input."""
    from qlasskit import qlassf
    from qlasskit.boolopt import defaultOptimizer, fastOptimizer
    from .ser import exprs_to_ir, ir_eval, SerError
    src, optimizer = job["src"], job["optimizer"]
    rng = random.Random(job["seed"])
    signal.signal(signal.SIGALRM, progs._alarm)
    signal.alarm(job.get("timeout", 40))
    try:
        try:
            qf = qlassf(src, to_compile=False, bool_optimizer=defaultOptimizer if optimizer == "default" else fastOptimizer)
        except progs._Timeout:
            raise
        except BaseException as e:  # rejected
            return dict(status="rejected", exc=f"{type(e).__name__}: {e}"[:160])
        if type(qf).__name__ == "UnboundQlassf":
            return dict(status="unbound")
        try:
            exprs = exprs_to_ir(qf.expressions)
        except SerError:
            return dict(status="hybrid-quantum")
        inputs = [b for a in qf.args for b in a.bitvec]
        n = len(inputs)
        retbits = list(qf.returns.bitvec)
        defined = set(nm for nm, _ in exprs)
        if any(r not in defined for r in retbits):
            return dict(status="ret-unnamed", ret=retbits, names=[nm for nm, _ in exprs][-len(retbits):])
        arg_t = [a.ttype for a in qf.args]
        ret_t = qf.returns.ttype
        if n <= MAX_BITS:
            xs, exhaustive = range(1 << n), True
        else:
            xs = sorted(set([0, (1 << n) - 1] + [rng.getrandbits(n) for _ in range(600)]))
            exhaustive = False
        out = dict(status="ok", n=n, exhaustive=exhaustive, evaluated=0, exact=0, wrapped=0, unsupported=0, py_raises=0,
                   fails=[], unsupported_why=collections.Counter())
        tt = None
        if n + len(retbits) <= 12 and job.get("truth_table"):
            try:
                tt = qf.truth_table()
            except Exception as e:
                out["fails"].append(dict(kind="truth_table raised", detail=repr(e)))
        for x in xs:
            bits = [bool((x >> i) & 1) for i in range(n)]
            env = dict(zip(inputs, bits))
            for nm, ir in exprs:
                try:
                    env[nm] = ir_eval(ir, env)
                except KeyError:  # a (dead) definition mentioning an unbound symbol
                    env.pop(nm, None)
            try:
                ib = [bool(env[r]) for r in retbits]
            except KeyError as e:
                out["fails"].append(dict(kind="a return bit depends on an unbound symbol", detail=str(e)))
                break
            if tt is not None:
                # row i of truth_table(): argument bit 0 is the most significant bit of i
                row = sum((1 << (n - 1 - i)) for i in range(n) if bits[i])
                trow = tt[row]
                if [bool(v) for v in trow[:n]] != bits or [bool(v) for v in trow[n:]] != ib:
                    out["fails"].append(dict(kind="truth_table() row differs from the expressions", input=x, row=[bool(v) for v in trow]))
            try:
                rb, wrapped = shadow.run(src, qf.name, arg_t, ret_t, bits)
            except shadow.Unsupported as e:
                out["unsupported"] += 1
                out["unsupported_why"][str(e)] += 1
                continue
            except progs._Timeout:
                raise
            except Exception:
                out["py_raises"] += 1
                continue
            out["evaluated"] += 1
            out["wrapped" if wrapped else "exact"] += 1
            if ib != rb:
                if len(out["fails"]) < 4:
                    out["fails"].append(dict(kind="exact" if not wrapped else "wrapped", input=x,
                                             input_bits=dict(zip(inputs, [int(b) for b in bits])),
                                             implementation=[int(b) for b in ib], python=[int(b) for b in rb]))
                out["nfails_" + ("wrapped" if wrapped else "exact")] = out.get("nfails_" + ("wrapped" if wrapped else "exact"), 0) + 1
        out["unsupported_why"] = dict(out["unsupported_why"])
        return out
    except progs._Timeout:
        return dict(status="timeout")
    except BaseException as e:  # noqa
        return dict(status="harness-error", exc=f"{type(e).__name__}: {e}"[:300])
    finally:
        signal.alarm(0)


def corpus(tier, seed):
    rng = random.Random(seed)
    out = [("suite", s) for s in progs.suite_programs()]
    out += [("struct", s) for s in gen.struct_templates()]
    out += [("int-template", s) for s in gen.int_templates((2, 3, 4))]
    out += [("fixed-template", s) for s in gen.fixed_templates()]
    out += [("control", s) for s in gen.control_templates()]
    nb, ni = (120, 250) if tier == "quick" else (2000, 5000)
    out += [("rand-bool", gen.bool_program(rng)) for _ in range(nb)]
    out += [("rand-int", gen.int_program(rng)) for _ in range(ni)]
    out += [("malformed", s) for s in gen.malformed_programs()]
    seen, res = set(), []
    for o, s in out:
        if s not in seen:
            seen.add(s)
            res.append((o, s))
    return res


def run(tier, seed):
    chk = C.Check(PID, tier, seed, level="proof")
    ok, log = C.coq_build()
    obl = C.prop_obligations(PID, files=["Prop_C01.v", "Prop_C01_types.v", "Prop_C01_texp.v"] + [f for f in ("Prop_C01_a2a.v", "Prop_C01_e2e.v") if "theories/" + f in open(os.path.join(C.COQ, "_CoqProject")).read()]) if ok else dict(theorems=[], axioms={}, ok=False, log=log)
    if not ok or not obl["ok"]:
        chk.broken("theorems of Prop_C01.v do not check", (log + obl.get("log", ""))[-3000:])
        return chk.finish(obl)
    cor = corpus(tier, seed)
    jobs = []
    for i, (origin, src) in enumerate(cor):
        for opt in ("default", "fast"):
            jobs.append(dict(src=src, optimizer=opt, seed=seed * 7919 + i, truth_table=(opt == "default"), timeout=40 if tier == "quick" else 90))
    res = progs.run_pool(task, jobs)
    known = C.known_findings(PID)
    status = collections.Counter()
    per_origin = collections.Counter()
    tot = collections.Counter()
    why = collections.Counter()
    distinct = set()
    reported = set()
    samples = []
    for job, r in zip(jobs, res):
        origin = next(o for o, s in cor if s == job["src"])
        status[r["status"]] += 1
        if r["status"] == "harness-error":
            chk.broken("the harness failed on a program", dict(source=job["src"], error=r["exc"]))
        if r["status"] != "ok":
            continue
        per_origin[origin] += 1
        for k in ("evaluated", "exact", "wrapped", "unsupported", "py_raises"):
            tot[k] += r[k]
        for k, v in r["unsupported_why"].items():
            why[k] += v
        if r["evaluated"]:
            distinct.add((job["src"], job["optimizer"]))
        if len(samples) < 3 and r["evaluated"] and origin in ("rand-int", "suite"):
            samples.append(dict(source=job["src"], optimizer=job["optimizer"], inputs=r["evaluated"], exact=r["exact"], wrapped=r["wrapped"]))
        for f in r["fails"]:
            key = (job["src"], f["kind"])
            if key in reported:
                continue
            reported.add(key)
            kf = [k for k in known if k.get("source") == job["src"]]
            if kf:
                chk.known(kf[0], f"{job['src']!r}: {f}")
                continue
            chk.violation("the expressions do not encode the value the Python function returns"
                          if f["kind"] in ("exact", "wrapped") else f["kind"],
                          dict(source=job["src"], optimizer=job["optimizer"], regime=f["kind"], **{k: v for k, v in f.items() if k != "kind"}))
    # the operator-level correspondence of the types layer (model <-> implementation)
    types_cov = {}
    try:
        if "theories/Chk_Types.v" not in open(os.path.join(C.COQ, "_CoqProject")).read():
            raise ImportError("types layer not integrated yet")
        from . import c01_types
        tc = c01_types.collect(tier, seed)
        types_cov = dict(cases=tc.get("cases"), distinct=tc.get("distinct"), distribution=tc.get("distribution"))
        for f in tc.get("impl_failures", [])[:10]:
            chk.violation("a bit-vector operation of the types layer does not compute its arithmetic meaning", f)
        if tc.get("mismatches") and not tc.get("impl_failures"):
            chk.broken("types-layer model (M_Types.v) and implementation differ", tc["mismatches"][:8])
    except ImportError:
        types_cov = dict(note="types-layer correspondence module not present")
    # the translator layer (M_Texp.v): model <-> translate_expression / translate_statement on the
    # normalised AST, the reference evaluator <-> the shadow run, instances of the corollaries
    texp_cov = {}
    if "theories/Chk_Texp.v" in open(os.path.join(C.COQ, "_CoqProject")).read():
        from . import c01_texp
        xc = c01_texp.collect(tier, seed)
        texp_cov = dict(cases=xc["cases"], distinct=xc["distinct"], distribution=xc["distribution"], unmodelled=xc["unmodelled"],
                        evaluator_vs_shadow=xc["evaluator_vs_shadow"], corollary_instances=xc["corollary_instances"], timings=xc["timings"])
        for f in xc["impl_failures"][:10]:
            if (f.get("source"), "exact") in reported or (f.get("source"), "wrapped") in reported:
                continue
            chk.violation("the expressions of a translated program do not encode the value the Python function returns", f)
        if xc["mismatches"] and not xc["impl_failures"]:
            chk.broken("translator model (M_Texp.v) and translate_expression / translate_statement differ", xc["mismatches"][:8])
        if xc["coq_errors"] or xc["harness_errors"]:
            chk.broken("the translator-layer case files did not evaluate", (xc["coq_errors"] + xc["harness_errors"])[:4])
        if xc["corollary_instances"]["failing_inside_guards"]:
            chk.broken("an instance of a proved corollary of Prop_C01_texp.v evaluates to false", xc["corollary_instances"]["failing_inside_guards"][:4])
        if xc["evaluator_vs_shadow"]["DISAGREE_UNEXPLAINED"] > 0:
            chk.broken("the reference evaluator of M_Texp.v and the shadow execution disagree", xc["evaluator_vs_shadow"]["unexplained_programs"][:6])
    # the normaliser layer (M_A2A.v): model <-> the real ast2ast on every program (exact, structural),
    # reference evaluator on source and normalised program <-> CPython, instances of the theorems
    a2a_cov = {}
    if "theories/Chk_A2A.v" in open(os.path.join(C.COQ, "_CoqProject")).read():
        from . import c01_a2a
        ac = c01_a2a.collect(tier, seed)
        a2a_cov = {k: ac.get(k) for k in ("cases", "distinct", "unmodelled", "distribution", "evaluation", "evaluator_vs_cpython",
                                           "theorem_guard", "theorem_instances", "guard_coverage", "timings")}
        for f in (ac.get("impl_failures") or [])[:10]:
            chk.violation("the normaliser (ast2ast) changes the value of an accepted program", f)
        for f in (ac.get("open_findings") or [])[:10]:
            chk.violation("the normaliser (ast2ast) changes the value of an accepted program", f)
        if ac.get("mismatches") and not (ac.get("impl_failures") or ac.get("open_findings")):
            chk.broken("normaliser model (M_A2A.v) and qlasskit.ast2ast differ", ac["mismatches"][:8])
        if ac.get("coq_errors") or ac.get("harness_errors"):
            chk.broken("the normaliser-layer case files did not evaluate", ((ac.get("coq_errors") or []) + (ac.get("harness_errors") or []))[:4])
        ti = ac.get("theorem_instances") or {}
        if isinstance(ti, dict) and (ti.get("fail") or ti.get("FAIL")):
            chk.broken("an instance of a proved theorem of Prop_C01_a2a.v evaluates to false", ti)
        ev = ac.get("evaluator_vs_cpython") or []
        if ev:
            chk.broken("the reference evaluator of M_A2A.v and CPython disagree on the source program", ev[:4])
    # the bridge (M_Bridge.v): the normaliser's and the translator's serialisations of the same normal form are
    # tied together by conv inside coqc; instances of bridge_fun / end_to_end on typed samples
    bridge_cov = {}
    if "theories/Chk_Bridge.v" in open(os.path.join(C.COQ, "_CoqProject")).read():
        from . import c01_bridge
        bc = c01_bridge.collect(tier, seed)
        bridge_cov = {k: bc.get(k) for k in ("cases", "distinct", "unmodelled", "distribution", "timings")}
        if bc.get("mismatches"):
            chk.broken("bridge (M_Bridge.v): the two serialisations of a normal form differ under conv, or an instance of "
                       "C01e_bridge_fun / C01e_end_to_end evaluates to false", bc["mismatches"][:6])
        if bc.get("coq_errors") or bc.get("harness_errors"):
            chk.broken("the bridge case files did not evaluate", ((bc.get("coq_errors") or []) + (bc.get("harness_errors") or []))[:4])
    chk.coverage.update(
        end_to_end_bridge=bridge_cov,
        normaliser_layer=a2a_cov,
        translator_layer=texp_cov,
        programs=len(distinct), evaluations=tot["evaluated"], distinct_nontrivial=len(distinct),
        rule="corpus = suite programs + structural templates + every operator x width pair in {2,3,4}^2 + seeded random boolean and "
             "integer programs (mixed widths, constants, comparisons, if/else, loops) + a malformed stream, under both optimizer profiles; "
             f"each accepted program is compared with the reference semantics (the source run by CPython on typed shadow values) on ALL inputs (<= {MAX_BITS} bits, else 600 sampled); "
             "distinct = (source, optimizer) pairs with at least one evaluated input",
        inputs_exact=tot["exact"], inputs_wrapped=tot["wrapped"], inputs_without_reference=tot["unsupported"], inputs_python_raises=tot["py_raises"],
        reference_unsupported_reasons=dict(why.most_common(12)), compile_status=dict(status), per_origin=dict(per_origin),
        types_layer=types_cov, traces_validated_against_impl=tot["evaluated"], exhaustive=False)
    chk.samples = samples
    chk.assumptions = ["reference semantics = the Python source executed by CPython on shadow values carrying the documented widths (harness/shadow.py)",
                       "a rejected program is never a violation (the property allows rejection)"]
    return chk.finish(obl)
