"""C08 — binding parameters is specialisation."""
import ast
import collections
import copy
import itertools
import random
import signal

from . import common as C
from . import progs, shadow
from . import c01_a2a as A2A

PID = "C08"

# (source, {parameter: list of values to sweep})
PROGRAMS = [
    # parameters that have a default in the signature, bound explicitly (also to the falsy value of their domain)
    ("def test(a: Qint[2], c: Parameter[Qint[2]] = 1) -> Qint[2]:\n    return c + a", dict(c=[0, 1, 2])),
    ("def test(a: bool, en: Parameter[bool] = True) -> bool:\n    return a and en", dict(en=[False, True])),
    ("def test(c: Parameter[bool], a: bool) -> bool:\n    return a and c", dict(c=[True, False])),
    ("def test(a: bool, c: Parameter[bool], b: bool) -> bool:\n    return (a and c) or (b and not c)", dict(c=[True, False])),
    ("def test(c: Parameter[Qint[2]], a: bool) -> Qint[2]:\n    return c + 1 if a else c", dict(c=[0, 1, 2, 3])),
    ("def test(c: Parameter[Qint[2]], d: Parameter[Qint[2]], a: bool) -> Qint[2]:\n    return c + d if a else c + 1", dict(c=[0, 1, 3], d=[0, 2, 3])),
    ("def test(c: Parameter[Qint[4]], a: Qint[4]) -> Qint[4]:\n    return a + c", dict(c=[0, 1, 5, 15])),
    ("def test(c: Parameter[Qint[4]], a: Qint[4]) -> bool:\n    return a > c", dict(c=[0, 3, 8, 15])),
    ("def test(a: Qint[2], k: Parameter[int]) -> Qint[4]:\n    s = Qint4(0)\n    for i in range(k):\n        s = s + a\n    return s", dict(k=[0, 1, 2, 3, 4])),
    ("def test(a: Qint[2], k: Parameter[int]) -> Qint[4]:\n    return a * k", dict(k=[0, 1, 2, 3, 6])),
    ("def test(a: Qint[4], k: Parameter[int]) -> Qint[4]:\n    return a << k", dict(k=[0, 1, 2])),
    ("def test(c: Parameter[Qlist[bool, 2]]) -> bool:\n    return c[0] and c[1]", dict(c=[[True, True], [True, False], [False, False]])),
    ("def test(c: Parameter[List[int]], i: Qint[2]) -> Qint[4]:\n    return c[i]", dict(c=[[1, 2, 3, 4], [0, 0, 7, 1], [15, 14, 13, 12]])),
    ("def test(c: Parameter[List[int]], a: Qint[2]) -> Qint[4]:\n    s = Qint4(0)\n    for x in c:\n        s = s + x + a\n    return s", dict(c=[[1], [1, 2], [3, 0, 1]])),
    ("def test(c: Parameter[Tuple[bool, Qint[2]]], a: Qint[2]) -> Qint[2]:\n    return c[1] + a if c[0] else a", dict(c=[(True, 2), (False, 1), (True, 3)])),
    ("def test(p: Parameter[bool], q: Parameter[bool], r: Parameter[bool], a: bool, b: bool) -> bool:\n    return (a if p else b) ^ (q and r)",
     dict(p=[True, False], q=[True, False], r=[True, False])),
    ("def test(t: Parameter[Qint[2]], a: Qint[2], b: Qint[2]) -> bool:\n    return a + b == t", dict(t=[0, 1, 2, 3])),
    ("def test(a: Qint[2], m: Parameter[List[int]], n: Parameter[int]) -> Qint[4]:\n    s = Qint4(0)\n    for i in range(n):\n        s = s + m[i]\n    return s + a",
     dict(m=[[1, 2, 3], [4, 0, 5]], n=[0, 1, 3])),
    ("def test(c: Parameter[Qfixed[1,2]], a: Qfixed[1,2]) -> Qfixed[1,2]:\n    return a + c", dict(c=[0.25, 0.5, 1.25])),
    ("def test(c: Parameter[Qchar], a: Qchar) -> bool:\n    return a == c", dict(c=["a", "z"])),
    # list / tuple parameters consumed by builtins (constant folding of the expansion)
    ("def test(c: Parameter[List[bool]], a: bool, b: bool) -> bool:\n    return (a and any(c)) or b",
     dict(c=[[False], [True], [False, False], [False, True], [True, True], [False, False, False]])),
    ("def test(c: Parameter[List[bool]], a: bool, b: bool) -> bool:\n    return (a or not all(c)) and b",
     dict(c=[[True], [False], [True, True], [True, False], [False, False], [True, True, True]])),
    ("def test(c: Parameter[List[bool]], d: Parameter[List[bool]], a: bool) -> bool:\n    r = False\n    for t in c:\n        for u in d:\n            r = r or (t and u and a)\n    return r",
     dict(c=[[True], [True, True], [False, True]], d=[[True], [True, True], [False]])),
    ("def test(w: Parameter[List[int]], a: Qint[2]) -> Qint[4]:\n    return sum(w) + a", dict(w=[[1, 0, 0], [1, 1, 0], [3, 2, 1], [0]])),
    ("def test(w: Parameter[List[int]], a: Qint[4]) -> bool:\n    return a > len(w)", dict(w=[[1], [1, 2, 3], [0, 0], [5, 5, 5, 5, 5]])),
    ("def test(w: Parameter[List[int]], a: Qint[2]) -> Qint[4]:\n    return max(w) + a", dict(w=[[1, 3], [2, 0], [0, 1, 2]])),
    ("def test(w: Parameter[List[int]], a: Qint[2]) -> Qint[4]:\n    return w[a]", dict(w=[[1, 2, 3, 4], [7, 0, 7, 0], [15, 0, 0, 1]])),
    ("def test(lo: Parameter[Qint[2]], hi: Parameter[Qint[2]], a: Qint[2]) -> bool:\n    return lo <= a and a <= hi", dict(lo=[0, 1, 2], hi=[1, 2, 3])),
    # a parameter re-assigned by the body (also from its own value; the falsy values of the domain included)
    ("def test(c: Parameter[Qint[2]], a: Qint[2]) -> Qint[2]:\n    c = c + a\n    return c", dict(c=[0, 1, 2, 3])),
    ("def test(c: Parameter[Qint[4]], a: Qint[2], b: bool) -> Qint[4]:\n    if b:\n        c = c + a\n    c = c + 1\n    return c", dict(c=[0, 1, 7, 15])),
    ("def test(p: Parameter[bool], a: bool, b: bool) -> bool:\n    p = p ^ a\n    p = p and b\n    return p", dict(p=[False, True])),
    ("def test(k: Parameter[int], a: Qint[2]) -> Qint[4]:\n    k = k + a\n    k = k + k\n    return k", dict(k=[0, 1, 2, 3])),
    ("def test(c: Parameter[Qint[2]], a: Qint[2]) -> Qint[2]:\n    for i in range(2):\n        c = c + a\n    return c", dict(c=[0, 1, 3])),
    # a scalar parameter read and THEN updated inside a loop body (the read of the next iteration sees the update);
    # the update always involves a typed value: arithmetic between a bound integer and literals alone (k = k + 1)
    # is typed at the literal's narrowest width by the library while the shadow run computes it on plain ints
    ("def test(c: Parameter[bool], a: bool, b: bool) -> bool:\n    r = False\n    for x in [a, b]:\n        r = r ^ (x and c)\n        c = not c\n    return r", dict(c=[True, False])),
    ("def test(k: Parameter[int], a: Qint[2]) -> Qint[4]:\n    s = Qint4(0)\n    for i in range(3):\n        s = s + k + a\n        k = k + a\n    return s", dict(k=[0, 1, 2, 5])),
    ("def test(k: Parameter[Qint[2]], a: Qint[2], b: bool) -> Qint[2]:\n    s = a\n    for i in range(2):\n        if b:\n            s = s + k\n        k = k + a\n    return s", dict(k=[0, 1, 3])),
    ("def test(p: Parameter[bool], q: Parameter[bool], a: bool, b: bool, c: bool) -> bool:\n    r = a\n    for x in [a, b, c]:\n        for y in [b, c]:\n            r = r ^ (x and p) ^ (y or q)\n            p = q\n        q = not q\n    return r",
     dict(p=[True, False], q=[True, False])),
    # parameterised functions that call other compiled functions (defs=): every bind re-binds the callee
    ("def test(c: Parameter[bool], a: Qint[2]) -> Qint[2]:\n    return g(a) if c else a", dict(c=[True, False]),
     ["def g(a: Qint[2]) -> Qint[2]:\n    return a + 1"]),
    ("def test(k: Parameter[Qint[2]], a: Qint[2], b: bool) -> Qint[2]:\n    return g(a) + k if h(b, b) else g(g(a))", dict(k=[0, 1, 3]),
     ["def g(a: Qint[2]) -> Qint[2]:\n    return a ^ 1", "def h(x: bool, y: bool) -> bool:\n    return x and not y"]),
]


# comparisons whose two sides are constants once the parameter is bound (folded before translation):
# every operator, with values below, at and above the boundary
for _op in ("<", "<=", ">", ">=", "==", "!="):
    PROGRAMS.append((f"def test(w: Parameter[List[int]], a: Qint[2]) -> Qint[4]:\n    s = Qint4(0)\n    for k in w:\n        if k {_op} 2:\n            s = s + a\n        else:\n            s = s + 1\n    return s",
                     dict(w=[[1, 2, 3], [2], [0, 3], [2, 2, 1]])))
    PROGRAMS.append((f"def test(k: Parameter[int], a: Qint[2], b: Qint[2]) -> Qint[2]:\n    return a if k {_op} 2 else b", dict(k=[1, 2, 3])))
    PROGRAMS.append((f"def test(k: Parameter[int], t: Parameter[int], a: Qint[2], b: Qint[2]) -> Qint[2]:\n    return a + 1 if 2 {_op} k else (b if k {_op} t else a)",
                     dict(k=[1, 2, 3], t=[1, 2, 3])))


def random_param_program(rng):
    np_ = rng.randint(1, 3)
    pnames = ["p", "q", "r"][:np_]
    kinds = [rng.choice(["bool", "qint", "int"]) for _ in pnames]
    sig, sweeps = [], {}
    for n, k in zip(pnames, kinds):
        if k == "bool":
            sig.append(f"{n}: Parameter[bool]")
            sweeps[n] = [True, False]
        elif k == "qint":
            sig.append(f"{n}: Parameter[Qint[2]]")
            sweeps[n] = rng.sample([0, 1, 2, 3], 3)
        else:
            sig.append(f"{n}: Parameter[int]")
            sweeps[n] = rng.sample([0, 1, 2, 3], 2)
    args = ["a: Qint[2]", "b: Qint[2]", "c: bool"]
    allsig = sig + args
    rng.shuffle(allsig)
    terms = []
    for n, k in zip(pnames, kinds):
        if k == "bool":
            terms.append(f"(a if {n} else b)")
        elif k == "qint":
            terms.append(f"({n} + a)")
        else:
            terms.append(f"(b + {n})" if rng.random() < 0.7 else f"(b * {n})")
    body = " ^ ".join(terms)
    return (f"def test({', '.join(allsig)}) -> Qint[2]:\n    return ({body}) if c else a", sweeps)


def ser_pv(v):
    """A Python value given to bind() as a term of M_BindAst.pv (what to_val sees)."""
    if hasattr(v, "__iter__") and not isinstance(v, (str, bytes)):
        return "(PSeq %s)" % A2A.c_list([ser_pv(x) for x in v])
    return f"(PCst {A2A.Ser().cst(v)})"


def ser_kw(kw):
    return A2A.c_list([f"({A2A.c_str(k)}, {ser_pv(v)})" for k, v in kw.items()])


def ser_fundef(fd):
    """A FunctionDef as a term of M_A2A.fundef, annotations as written (no ReplaceTypeAnn)."""
    a = fd.args
    if a.vararg or a.kwarg or a.kwonlyargs or a.posonlyargs or a.defaults or a.kw_defaults:
        raise A2A.Unmodelled("argument kinds / defaults")
    sr = A2A.Ser()
    args = A2A.c_list([f"({A2A.c_str(x.arg)}, {'None' if x.annotation is None else '(Some %s)' % sr.exp(x.annotation)})"
                       for x in a.args])
    ret = "None" if fd.returns is None else f"(Some {sr.exp(fd.returns)})"
    return f"(mkfun {args} {ret} {sr.stmts(fd.body)})"


def task(job):
    from qlasskit import qlassf
    from .ser import exprs_to_ir, ir_eval
    signal.signal(signal.SIGALRM, progs._alarm)
    signal.alarm(60)
    src, bindings = job["src"], job["bindings"]
    out = dict(status="ok", fails=[], evaluated=0, exact=0, wrapped=0, unsupported=0, py_raises=0, binds=0, rejected=0)
    try:
        defs_src = job.get("defs") or []
        try:
            callees = [qlassf(d, to_compile=False) for d in defs_src]
            u = qlassf(src, defs=callees, to_compile=False)
        except BaseException as e:
            return dict(status="rejected", exc=f"{type(e).__name__}: {e}"[:200])
        if type(u).__name__ != "UnboundQlassf":
            return dict(status="not-parameterised")
        dump0 = ast.dump(u.fun_ast)
        params0 = dict((k, ast.dump(v)) for k, v in u.parameters.items())
        # correspondence with M_BindAst.bind_ast: the unbound function, and per bind the AST the real
        # bind() hands to the translator (captured by wrapping _do_translate on this object)
        captured = []
        real_translate = u._do_translate

        def _capture(fun_ast, original_f):
            captured.append(copy.deepcopy(fun_ast))
            return real_translate(fun_ast, original_f)
        u._do_translate = _capture
        out["bind_cases"] = []
        out["bind_unmodelled"] = collections.Counter()
        try:
            fun_coq = ser_fundef(u.fun_ast.body[0])
        except A2A.Unmodelled as e:
            fun_coq = None
            out["bind_unmodelled"][str(e)[:60]] += 1
        out["fun_coq"] = fun_coq
        first_exprs = {}
        held = {}
        for bi, kw in enumerate(bindings):
            kw = dict(kw)  # keyword order = order of the pairs
            key = repr(sorted(kw.items(), key=lambda kv: kv[0]))
            # list values are (two times out of three) passed through ONE list object per parameter that
            # is mutated in place between the binds: bind() must read the contents it is given now
            passed = dict(kw)
            for pk, pv in kw.items():
                if isinstance(pv, list) and bi % 3 != 0:
                    obj = held.setdefault(pk, [])
                    obj[:] = [list(x) if isinstance(x, list) else x for x in pv]
                    passed[pk] = obj
            del captured[:]
            try:
                qf = u.bind(**passed)
            except progs._Timeout:
                raise
            except BaseException as e:
                out["rejected"] += 1
                out.setdefault("reject_why", []).append(f"{type(e).__name__}: {e}"[:120])
                # a bind() that raises although earlier binds of this object succeeded: does a FRESH unbound
                # object built from the same source accept the same values?  Then the object was altered.
                if out["binds"] > 0:
                    try:
                        fresh = qlassf(src, defs=[qlassf(d, to_compile=False) for d in defs_src], to_compile=False)
                        fresh.bind(**dict(kw))
                        out["fails"].append(dict(kind="bind() raises on an object that was bound before, while a fresh unbound object "
                                                      "built from the same source accepts the same values (the unbound object was altered)",
                                                 binding=repr(kw), error=f"{type(e).__name__}: {e}"[:160]))
                    except progs._Timeout:
                        raise
                    except BaseException:
                        pass
                continue
            finally:
                if fun_coq is not None:
                    try:
                        obs = "BRaise" if not captured else f"(BOk {ser_fundef(captured[0].body[0])})"
                        out["bind_cases"].append((repr(kw), ser_kw(kw), obs))
                    except A2A.Unmodelled as e:
                        out["bind_unmodelled"][str(e)[:60]] += 1
                if ast.dump(u.fun_ast) != dump0 or dict((k, ast.dump(v)) for k, v in u.parameters.items()) != params0:
                    out["fails"].append(dict(kind="bind() altered the unbound object", binding=repr(kw)))
                    dump0 = ast.dump(u.fun_ast)
            out["binds"] += 1
            exprs = exprs_to_ir(qf.expressions)
            sig = [(str(s), str(e)) for s, e in qf.expressions]
            if key in first_exprs and first_exprs[key] != sig:
                out["fails"].append(dict(kind="binding the same values again gives different expressions", binding=repr(kw)))
            first_exprs.setdefault(key, sig)
            if any(a.name in kw for a in qf.args):
                out["fails"].append(dict(kind="a parameter is still an argument of the bound function", binding=repr(kw)))
            inputs = [b for a in qf.args for b in a.bitvec]
            retbits = list(qf.returns.bitvec)
            n = len(inputs)
            # the unbound Python function called with the parameters set to the bound values:
            # wrap it so that the shadow run passes only the remaining arguments
            params = list(kw.keys())
            fdef = ast.parse(src).body[0]
            order = [a.arg for a in fdef.args.args]
            call = ", ".join(f"{nm}=_P[{nm!r}]" if nm in kw else f"{nm}={nm}" for nm in order)
            rest = ", ".join(nm for nm in order if nm not in kw)
            wrapper = f"\ndef _bound({rest}):\n    return test({call})\n"
            for x in range(1 << n):
                bits = [bool((x >> i) & 1) for i in range(n)]
                env = dict(zip(inputs, bits))
                for nm, ir in exprs:
                    try:
                        env[nm] = ir_eval(ir, env)
                    except KeyError:
                        env.pop(nm, None)
                try:
                    ib = [bool(env[r]) for r in retbits]
                except KeyError as e:
                    out["fails"].append(dict(kind="a return bit depends on an unbound symbol", binding=repr(kw), symbol=str(e)))
                    break
                try:
                    shadow.PARAMS = dict(kw)
                    rb, wrapped = shadow.run("\n".join(defs_src) + "\n" + src + wrapper, "_bound", [a.ttype for a in qf.args], qf.returns.ttype, bits,
                                             extra={"_P": dict((k, _pv(v)) for k, v in kw.items())})
                except shadow.Unsupported:
                    out["unsupported"] += 1
                    continue
                except progs._Timeout:
                    raise
                except Exception as e:
                    out["py_raises"] += 1
                    out.setdefault("py_raise_why", f"{type(e).__name__}: {e}"[:160])
                    continue
                out["evaluated"] += 1
                out["wrapped" if wrapped else "exact"] += 1
                if ib != rb and len(out["fails"]) < 4:
                    out["fails"].append(dict(kind="the bound function differs from the unbound one called with the parameters set",
                                             binding=repr(kw), regime="wrapped" if wrapped else "exact",
                                             input_bits=dict(zip(inputs, [int(b) for b in bits])),
                                             implementation=[int(b) for b in ib], python=[int(b) for b in rb]))
        # wrong parameter sets must be rejected
        if bindings:
            kw = dict(bindings[0])
            k0 = next(iter(kw))
            for bad in (dict((k, v) for k, v in kw.items() if k != k0), dict(kw, zz_unknown=1)):
                if len(bad) == len(kw):
                    continue
                del captured[:]
                try:
                    u.bind(**bad)
                    out["fails"].append(dict(kind="bind() accepted a wrong parameter set", binding=repr(bad)))
                except progs._Timeout:
                    raise
                except BaseException:
                    pass
                if fun_coq is not None:
                    try:
                        obs = "BRaise" if not captured else f"(BOk {ser_fundef(captured[0].body[0])})"
                        out["bind_cases"].append((repr(bad), ser_kw(bad), obs))
                    except A2A.Unmodelled as e:
                        out["bind_unmodelled"][str(e)[:60]] += 1
        return out
    except progs._Timeout:
        return dict(status="timeout")
    except BaseException as e:  # noqa
        return dict(status="harness-error", exc=f"{type(e).__name__}: {e}"[:300])
    finally:
        signal.alarm(0)


def _pv(v):
    if isinstance(v, list):
        return tuple(_pv(x) for x in v)
    if isinstance(v, tuple):
        return tuple(_pv(x) for x in v)
    if isinstance(v, str):
        return shadow.TChar(v)
    return v


def bindings_for(sweeps, rng, alternating=True):
    names = list(sweeps)
    combos = list(itertools.product(*[sweeps[n] for n in names]))
    rng.shuffle(combos)
    combos = combos[:8]
    out = []
    for ci, vals in enumerate(combos):
        order = list(range(len(names)))
        if ci % 2:
            order.reverse()  # another keyword order
        out.append([(names[i], vals[i]) for i in order])
    if alternating and len(out) >= 2:
        out += [out[0], out[1], out[0]]  # bind again with earlier values
    return out


def run(tier, seed):
    chk = C.Check(PID, tier, seed, level="proof")
    rng = random.Random(seed)
    ok, log = C.coq_build()
    obl = C.prop_obligations(PID) if ok else dict(theorems=[], axioms={}, ok=False, log=log)
    if not ok or not obl["ok"]:
        chk.broken("theorems of Prop_C08.v do not check", (log + obl.get("log", ""))[-3000:])
        return chk.finish(obl)
    programs = list(PROGRAMS) + [random_param_program(rng) for _ in range(40 if tier == "quick" else 800)]
    programs = [(p + (None,))[:3] for p in programs]
    jobs = [dict(src=s, bindings=bindings_for(sw, rng), defs=dfs) for s, sw, dfs in programs]
    res = progs.run_pool(task, jobs)
    # ---- correspondence of M_BindAst.bind_ast with UnboundQlassf.bind (exact, inside coqc) ----
    bcases = []          # (job index, binding repr, coq case)
    bind_unmod = collections.Counter()
    defs_txt = []
    for ji, (job, r) in enumerate(zip(jobs, res)):
        if r.get("status") != "ok":
            continue
        for why, n in (r.get("bind_unmodelled") or {}).items():
            bind_unmod[why] += n
        if not r.get("fun_coq"):
            continue
        defs_txt.append(f"Definition f{ji} : fundef := {r['fun_coq']}.")
        for (kwrepr, kwc, obs) in r["bind_cases"]:
            bcases.append((ji, kwrepr, f"({len(bcases)}%N, (f{ji}, {kwc}, {obs}, false))"))
        bcases.append((ji, "<from_function: has parameters>", f"({len(bcases)}%N, (f{ji}, [], BRaise, true))"))
    files = []
    per = 150
    for ci in range(0, len(bcases), per):
        chunk = bcases[ci:ci + per]
        used = sorted(set(j for j, _, _ in chunk))
        dtxt = "\n".join(d for d in defs_txt if int(d.split()[1][1:]) in used)
        files.append((f"bindast_{ci}", C.COQ_HEADER + "From Coq Require Import String ZArith.\nFrom QV Require Import M_A2A M_BindAst Chk_BindAst.\n"
                      "Local Open Scope string_scope.\n" + dtxt + "\n"
                      "Definition chk1 (c : fundef * list (string * pv) * bobs * bool) : bool :=\n"
                      "  match c with (f, kw, o, u) => if u then chk_unbound f true else chk_bind f kw o end.\n"
                      "Eval vm_compute in (failing chk1 %s).\n" % A2A.c_list([c for _, _, c in chunk])))
    bres = C.run_cases(PID, files) if files else {}
    bind_diff, bind_err = [], []
    for name, (rc, so, se) in bres.items():
        if rc != 0:
            bind_err.append(dict(file=name, error=(so + se)[-600:]))
            continue
        for k in C.parse_N_list(C.parse_results(so)[0]):
            ji, kwrepr, _ = bcases[k]
            bind_diff.append(dict(source=jobs[ji]["src"], binding=kwrepr))
    if bind_err:
        chk.broken("the bind_ast correspondence file did not evaluate", bind_err[:3])
    elif bind_diff:
        chk.broken("M_BindAst.bind_ast and UnboundQlassf.bind produce different function definitions "
                   "(or from_function and the model disagree on which functions have parameters)", bind_diff[:6])
    known = C.known_findings(PID)
    status = collections.Counter()
    tot = collections.Counter()
    distinct = set()
    for job, r in zip(jobs, res):
        status[r["status"]] += 1
        if r["status"] == "harness-error":
            chk.broken("the harness failed on a program", dict(source=job["src"], error=r["exc"]))
            continue
        if r["status"] != "ok":
            continue
        for k in ("evaluated", "exact", "wrapped", "unsupported", "py_raises", "binds", "rejected"):
            tot[k] += r[k]
        if r["evaluated"]:
            distinct.add(job["src"])
        seen = set()
        for f in r["fails"]:
            if f["kind"] in seen:
                continue
            seen.add(f["kind"])
            kf = [k for k in known if k.get("source") == job["src"]]
            if kf:
                chk.known(kf[0], f"{job['src']!r}: {f['kind']}")
                continue
            chk.violation(f["kind"], dict(source=job["src"], **{k: v for k, v in f.items() if k != "kind"}))
    chk.coverage.update(
        programs=len(distinct), evaluations=tot["evaluated"], distinct_nontrivial=len(distinct),
        rule="parameterised programs (1-3 parameters of type bool / Qint / int / list / tuple / Qfixed / Qchar, used as operands, loop bounds, "
             "shift amounts, list constants, indices; parameters at any position) + seeded random ones; each unbound object is bound up to 11 "
             "times (value sweep, both keyword orders, earlier values again); every bound function is compared on ALL remaining inputs with "
             "the unbound source called with the parameters set (CPython on typed shadow values); fun_ast and parameters dumped before/after each bind",
        binds=tot["binds"], binds_rejected=tot["rejected"],
        bind_ast_cases_compared_in_coqc=len(bcases), bind_ast_differences=len(bind_diff), bind_ast_unmodelled=dict(bind_unmod), inputs_exact=tot["exact"], inputs_wrapped=tot["wrapped"],
        inputs_without_reference=tot["unsupported"], status=dict(status), traces_validated_against_impl=tot["evaluated"], exhaustive=False)
    chk.samples = [dict(source=jobs[0]["src"], bindings=[dict(b) for b in jobs[0]["bindings"]]),
                   dict(source=jobs[-1]["src"], bindings=[dict(b) for b in jobs[-1]["bindings"][:3]])]
    chk.assumptions = ["reference = the unbound Python source called with the parameters set, run by CPython on typed shadow values; "
                       "integer parameter values are typed like constants (narrowest fitting width), as bind() injects them as constants"]
    return chk.finish(obl)
