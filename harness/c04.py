"""C04 — boolean optimizer profiles preserve meaning.

For every expression list (front-end produced and arbitrary well-formed ones)
and for each individual step (merge_expressions, apply_cse, the five
transformers) and both shipped profiles: run the IMPLEMENTATION, then
 (a) decide in Coq (Chk_Boolopt.sym_diff, proved sound and complete) that every
     kept symbol has the same function of the inputs before and after, on ALL
     assignments; the same comparison is done in Python to obtain a replayable
     failing input;
 (b) run the Gallina MODEL of the step on the same input inside coqc and compare
     its output with the implementation's output (as functions; for apply_cse the
     list skeleton exactly; for the transformers also "did it rewrite");
 (c) in Python: no free symbol introduced, no _ret symbol lost.
The contracts assumed for the sympy calls (simplify_logic, cse) are checked on
every observed call."""
import collections
import json
import os
import random
import signal
import time

from . import common as C
from . import gen, progs
from .ser import SerError, SymTab, from_ir, ir_coq, ir_eval, ir_str, ir_syms, to_ir

PID = "C04"
MAX_IN = 12
MAX_DEFS = 400
LISTS_PER_FILE = 40
FILE_WEIGHT = 3_000_000

STEPS = [  # (code, name)
    (0, "merge_expressions"), (1, "apply_cse"), (2, "remove_ITE"), (3, "remove_Implies"),
    (4, "transform_or2xor"), (5, "transform_or2and"), (6, "remove_obvious_expr"),
    (7, "defaultOptimizer"), (8, "fastOptimizer"),
]
STEP_NAME = dict(STEPS)
TRANSFORMER_CODES = (2, 3, 4, 5, 6)
ALL_SYMS_CODES = (2, 3, 4, 5, 6, 8)  # every defined symbol keeps its function

# Defects of /repo found by this check on the unchanged tree (see
# /verif/proposed_fixes/C04_notes.md).  Until the lead turns them into a `fix:`
# commit or into entries of known_findings.json, a failure is attributed to one
# of them ONLY when the mechanism is visible in the implementation's output:
PENDING_FINDINGS = {
    "cse-hoisted-before-definition": "apply_cse puts the cse replacements in front of the list; a replacement that "
                                     "mentions a symbol defined by the list reads it before its definition "
                                     "(defaultOptimizer: only for _ret*-named symbols, e.g. a variable called _retx)",
    "cse-symbol-collision": "apply_cse: sympy.cse names a replacement x<k> although the list defines a symbol x<k> "
                            "that no expression reads; the later definition overwrites the replacement",
}


# --------------------------------------------------------------------------
# bit-parallel evaluation in Python (search for a failing input)
# --------------------------------------------------------------------------
def var_table(n, i):
    blk = (1 << (1 << i)) - 1
    period = 1 << (i + 1)
    t, pos = 0, 1 << i
    while pos < (1 << n):
        t |= blk << pos
        pos += period
    return t


def tt_ir(ir, env, mask):
    k = ir[0]
    if k == "c":
        return mask if ir[1] else 0
    if k == "s":
        return env.get(ir[1], 0)
    if k == "n":
        return mask ^ tt_ir(ir[1], env, mask)
    if k == "a":
        r = mask
        for x in ir[1]:
            r &= tt_ir(x, env, mask)
        return r
    if k == "o":
        r = 0
        for x in ir[1]:
            r |= tt_ir(x, env, mask)
        return r
    if k == "x":
        r = 0
        for x in ir[1]:
            r ^= tt_ir(x, env, mask)
        return r
    if k == "i":
        c = tt_ir(ir[1], env, mask)
        return (c & tt_ir(ir[2], env, mask)) | ((mask ^ c) & tt_ir(ir[3], env, mask))
    if k == "m":
        return (mask ^ tt_ir(ir[1], env, mask)) | tt_ir(ir[2], env, mask)
    raise SerError(f"IR node {k}")


def run_tt(irdefs, inputs):
    n = len(inputs)
    mask = (1 << (1 << n)) - 1
    env = {s: var_table(n, i) for i, s in enumerate(inputs)}
    for name, ir in irdefs:
        env[name] = tt_ir(ir, env, mask)
    return env


def ir_size(ir):
    k = ir[0]
    if k in "aox":
        return 1 + sum(ir_size(x) for x in ir[1])
    if k == "n":
        return 1 + ir_size(ir[1])
    if k in "im":
        return 1 + sum(ir_size(x) for x in ir[1:])
    return 1


def case_weight(rec):
    """Rough cost of evaluating the case in Coq: nodes evaluated x table width."""
    tot = sum(ir_size(ir) for _, ir in rec["ir_in"]) * (1 + len(rec["obs"]))
    for o in rec["obs"]:
        if "ir_out" in o:
            tot += 2 * sum(ir_size(ir) for _, ir in o["ir_out"])
    return tot * (1 << len(rec["inputs"]))


def ir_nodes(ir, acc):
    k = ir[0]
    if k in "aox":
        acc[{"a": "And", "o": "Or", "x": "Xor"}[k] + ("2" if len(ir[1]) == 2 else "N" if len(ir[1]) > 2 else "01")] += 1
        for x in ir[1]:
            ir_nodes(x, acc)
    elif k == "n":
        acc["Not"] += 1
        ir_nodes(ir[1], acc)
    elif k == "i":
        acc["ITE"] += 1
        for x in ir[1:]:
            ir_nodes(x, acc)
    elif k == "m":
        acc["Implies"] += 1
        for x in ir[1:]:
            ir_nodes(x, acc)
    elif k == "c":
        acc["const"] += 1
    else:
        acc["sym"] += 1


# --------------------------------------------------------------------------
# arbitrary well-formed lists, built with sympy in the worker from a seed
# --------------------------------------------------------------------------
FAMILIES = [("nary", 18), ("ite_imp", 12), ("shared", 20), ("fwd_ret", 6), ("near_or2xor", 16),
            ("near_obvious", 12), ("near_or2and", 10), ("consts", 6), ("big_reassign", 3), ("xor_twins", 8),
            ("imp_shapes", 6)]
INPUT_NAMES = ["a", "b", "c", "d", "e", "f", "g", "h", "i", "j", "k", "l"]
MID_NAMES = ["t0", "t1", "t2", "v", "w", "tmp", "x0", "x1", "x2", "__q"]


def build_list(family, lseed):
    """-> (inputs [names], exprs [(Symbol, expr)]) — deterministic in (family, lseed)."""
    from sympy import Symbol, false, true
    from sympy.logic.boolalg import ITE, And, BooleanAtom, Implies, Not, Or, Xor

    rng = random.Random(lseed)
    S = Symbol

    def lit(vs):
        v = S(rng.choice(vs))
        return v if rng.random() < 0.65 else Not(v)

    def rexpr(vs, depth, ops):
        if depth <= 0 or rng.random() < 0.12:
            return lit(vs)
        op = rng.choice(ops)
        sub = lambda: rexpr(vs, depth - 1, ops)
        if op in ("and", "or", "xor"):
            ar = rng.choice([2, 2, 2, 3, 3, 4, 5])
            args = [sub() for _ in range(ar)]
            return {"and": And, "or": Or, "xor": Xor}[op](*args)
        if op == "not":
            return Not(sub())
        if op == "ite":
            return ITE(sub(), sub(), sub())
        if op == "imp":
            return Implies(sub(), sub())
        raise AssertionError(op)

    BASIC = ["and", "or", "xor", "not", "and", "or"]
    RICH = BASIC + ["ite", "imp"]
    nin = rng.randint(2, 7)
    ins = INPUT_NAMES[:nin]

    def ret_names(k):
        return ["_ret"] if k == 1 else [f"_ret.{i}" for i in range(k)]

    def wrap(core, vs):
        """put `core` under a random context"""
        w = rng.choice(["none", "none", "and", "or", "xor", "not", "ite_c", "ite_t", "imp", "and3"])
        o = lambda: rexpr(vs, 1, BASIC)
        if w == "and":
            return And(core, o())
        if w == "and3":
            return And(core, o(), o())
        if w == "or":
            return Or(core, o())
        if w == "xor":
            return Xor(core, o())
        if w == "not":
            return Not(core)
        if w == "ite_c":
            return ITE(core, o(), o())
        if w == "ite_t":
            return ITE(o(), core, o())
        if w == "imp":
            return Implies(o(), core) if rng.random() < 0.5 else Implies(core, o())
        return core

    if family == "big_reassign":
        # a name assigned a small value, read, then re-assigned a LARGE expression that is read twice
        ins = INPUT_NAMES[:rng.randint(5, 8)]
        t, u = S(rng.choice(["t0", "v", "w"])), S("u9")
        def term():
            x, y, z, w = (S(v) for v in rng.sample(ins, 4))
            return Or(And(x, Not(y)), And(z, w, Not(x)))
        big = Xor(*[term() for _ in range(rng.choice([8, 12, 16, 24, 32]))])
        first = rng.choice([S(ins[0]), And(S(ins[0]), S(ins[1])), Not(S(ins[2]))])
        return ins, [(t, first), (u, And(t, S(ins[1]))), (t, big),
                     (S("_ret.0"), And(t, Not(S(ins[0])))), (S("_ret.1"), Xor(t, u)), (S("_ret.2"), Or(t, S(ins[3])))]

    if family == "xor_twins":
        # a Xor whose operands are syntactically different but become equal after a rewrite step
        a, b, c, d = (S(x) for x in rng.sample(ins if len(ins) >= 4 else INPUT_NAMES[:4], 4))
        ins = sorted(set(ins) | {x.name for x in (a, b, c, d)}, key=INPUT_NAMES.index)
        twins = rng.choice([
            (ITE(c, a, b), Or(And(c, a), And(Not(c), b))),
            (Implies(a, b), Or(Not(a), b)),
            (Or(a, b, c), Not(And(Not(a), Not(b), Not(c)))),
            (Or(And(a, b), And(Not(a), Not(b))), Not(Xor(a, b))),
            (Not(Not(And(a, b))), And(a, b)),
            (ITE(a, Not(b), b), Xor(a, b)),
        ])
        core = Xor(d, twins[0], twins[1]) if rng.random() < 0.7 else Xor(twins[0], twins[1], And(d, c))
        k = rng.choice([1, 2])
        rets = ret_names(k)
        return ins, [(S(rets[0]), wrap(core, ins))] + [(S(r), rexpr(ins, 2, BASIC)) for r in rets[1:]]

    if family == "imp_shapes":
        # implications with compound antecedents / consequents, also below a Xor
        def ante():
            return rng.choice([Or, And, Xor])(*[lit(ins) for _ in range(rng.choice([2, 3]))])
        core = Implies(ante(), rexpr(ins, 1, BASIC)) if rng.random() < 0.6 else Implies(rexpr(ins, 1, BASIC), ante())
        if rng.random() < 0.6:
            core = Xor(core, lit(ins), rexpr(ins, 1, BASIC))
        return ins, [(S("_ret"), core)]

    if family == "nary":
        k = rng.choice([1, 1, 2, 3])
        d = rng.randint(2, 4)
        return ins, [(S(r), rexpr(ins, d, BASIC)) for r in ret_names(k)]

    if family == "ite_imp":
        k = rng.choice([1, 1, 2])
        d = rng.randint(2, 4)
        return ins, [(S(r), rexpr(ins, d, ["ite", "imp", "ite", "imp", "and", "or", "xor", "not"])) for r in ret_names(k)]

    if family in ("shared", "fwd_ret"):
        exps, avail = [], list(ins)
        nmid = rng.randint(1, 4) if family == "shared" else rng.randint(0, 2)
        mids = rng.sample(MID_NAMES, nmid)
        for m in mids:
            if rng.random() < 0.15 and family == "shared":
                # the front end's re-assignment of an argument: (__a, e), (a, __a)
                v = rng.choice(ins)
                exps.append((S("__" + v), rexpr(avail, 2, RICH)))
                exps.append((S(v), S("__" + v)))
                continue
            exps.append((S(m), rexpr(avail, rng.randint(1, 3), RICH)))
            avail.append(m)
        k = rng.randint(1, 4) if family == "shared" else rng.randint(2, 4)
        common = rexpr(avail, 2, ["xor", "and", "or", "xor"]) if rng.random() < 0.6 else None
        rets = ret_names(k)
        for idx, r in enumerate(rets):
            vs = list(avail)
            if family == "fwd_ret" and idx > 0:
                vs = vs + rets[:idx] * 2
            e = rexpr(vs, rng.randint(1, 3), RICH)
            if common is not None and rng.random() < 0.7:
                e = rng.choice([And, Or, Xor])(e, common)
            if family == "fwd_ret" and idx > 0 and rng.random() < 0.5:
                # a sub-expression that mentions an earlier _ret symbol, used twice
                sh = Xor(S(rets[0]), lit(ins))
                e = rng.choice([And, Or])(e, sh) if idx % 2 else Xor(And(sh, lit(ins)), e)
            exps.append((S(r), e))
        return ins, exps

    if family == "near_or2xor":
        def piece():
            # never a constant: an unevaluated node over a constant (And(False, False,
            # evaluate=False)) is not a tree sympy itself handles (simplify_logic
            # reads ~(~False) as true)
            while True:
                e = lit(ins) if rng.random() < 0.6 else rexpr(ins, 1, ["and", "or", "xor"])
                if not isinstance(e, BooleanAtom):
                    return e
        p, q, r3 = piece(), piece(), piece()
        v = rng.choice(["exact", "exact", "exact_rev", "three", "three", "swapped", "one_neg", "dup", "dup_noeval",
                        "crossed", "extra_or", "four", "mixed_arity", "same"])
        if v == "exact":
            core = Or(And(p, q), And(Not(p), Not(q)))
        elif v == "exact_rev":
            core = Or(And(Not(p), Not(q)), And(p, q), evaluate=False)
        elif v == "three":
            core = Or(And(p, q, r3), And(Not(p), Not(q), Not(r3)))
        elif v == "four":
            r4 = piece()
            core = Or(And(p, q, r3, r4), And(Not(p), Not(q), Not(r3), Not(r4)))
        elif v == "mixed_arity":
            core = Or(And(p, q), And(Not(p), Not(q), Not(r3)))
        elif v == "swapped":
            core = Or(And(p, q), And(Not(p), q))
        elif v == "one_neg":
            core = Or(And(p, Not(q)), And(Not(p), q))
        elif v == "dup":
            core = Or(And(p, p, q), And(Not(p), Not(q)))
        elif v == "dup_noeval":
            core = Or(And(p, p, evaluate=False), And(Not(p), Not(p), evaluate=False), evaluate=False)
        elif v == "crossed":
            core = Or(And(p, q, evaluate=False), And(Not(q), Not(p), evaluate=False), evaluate=False)
        elif v == "extra_or":
            core = Or(And(p, q), And(Not(p), Not(q)), r3)
        else:
            core = Or(And(p, q), And(p, q, evaluate=False), evaluate=False)
        k = rng.choice([1, 1, 2])
        exps = [(S(r), wrap(core, ins) if i == 0 else rexpr(ins, 2, RICH)) for i, r in enumerate(ret_names(k))]
        return ins, exps

    if family == "near_obvious":
        x = S(rng.choice(ins))
        e2 = rexpr(ins, 1, ["and", "or", "xor"])
        if isinstance(e2, BooleanAtom):  # see piece() above
            e2 = x
        v = rng.choice(["and", "and_rev", "or", "or_rev", "nn", "nn_deep", "and_expr", "or_expr", "and3", "or3", "other"])
        if v == "and":
            core = And(x, Not(x))
        elif v == "and_rev":
            core = And(Not(x), x, evaluate=False)
        elif v == "or":
            core = Or(x, Not(x))
        elif v == "or_rev":
            core = Or(Not(x), x, evaluate=False)
        elif v == "nn":
            core = Not(Not(x, evaluate=False), evaluate=False)
        elif v == "nn_deep":
            core = Not(Not(e2, evaluate=False), evaluate=False)
        elif v == "and_expr":
            core = And(e2, Not(e2))
        elif v == "or_expr":
            core = Or(e2, Not(e2))
        elif v == "and3":
            core = And(x, Not(x), S(rng.choice(ins)))
        elif v == "or3":
            core = Or(x, Not(x), S(rng.choice(ins)))
        else:
            y = S(rng.choice(ins))
            core = And(x, Not(y)) if rng.random() < 0.5 else Or(x, Not(y))
        k = rng.choice([1, 1, 2])
        exps = [(S(r), wrap(core, ins) if i == 0 else rexpr(ins, 2, RICH)) for i, r in enumerate(ret_names(k))]
        return ins, exps

    if family == "near_or2and":
        def orN(n_):
            return Or(*[rexpr(ins, 1, ["and", "xor", "not", "or"]) for _ in range(n_)])
        v = rng.choice(["or2", "or3", "or4", "or3_in_and", "or2_in_and", "or3_in_or2", "or3_in_not", "or3_in_xor", "and_of_ors"])
        if v == "or2":
            core = orN(2)
        elif v == "or3":
            core = orN(3)
        elif v == "or4":
            core = orN(4)
        elif v == "or3_in_and":
            core = And(orN(3), lit(ins))
        elif v == "or2_in_and":
            core = And(orN(2), lit(ins))
        elif v == "or3_in_or2":
            core = Or(And(orN(3), lit(ins)), lit(ins))
        elif v == "or3_in_not":
            core = Not(orN(3))
        elif v == "or3_in_xor":
            core = Xor(orN(3), lit(ins))
        else:
            core = And(orN(3), orN(2), orN(4))
        k = rng.choice([1, 1, 2])
        exps = [(S(r), wrap(core, ins) if i == 0 else rexpr(ins, 2, RICH)) for i, r in enumerate(ret_names(k))]
        return ins, exps

    if family == "consts":
        exps = []
        t = S("t0")
        exps.append((t, rng.choice([true, false])))
        u = S("v")
        exps.append((u, rexpr(ins + ["t0"], 2, RICH)))
        rets = ret_names(rng.choice([1, 2, 3]))
        for i, r in enumerate(rets):
            c = rng.random()
            if c < 0.2:
                e = rng.choice([true, false])
            elif c < 0.4:
                e = t
            else:
                e = rexpr(ins + ["t0", "v"], 2, RICH)
            exps.append((S(r), e))
        return ins, exps

    raise AssertionError(family)


# --------------------------------------------------------------------------
# worker: run the implementation on one list
# --------------------------------------------------------------------------
class _Timeout(Exception):
    pass


def _alarm(signum, frame):
    raise _Timeout()


def _impl_steps():
    from qlasskit.boolopt import bool_optimizer as BO
    from qlasskit.boolopt import exp_transformers as ET

    P = BO.BoolOptimizerProfile
    return {
        0: P([BO.merge_expressions]), 1: P([BO.apply_cse]), 2: P([ET.remove_ITE()]), 3: P([ET.remove_Implies()]),
        4: P([ET.transform_or2xor()]), 5: P([ET.transform_or2and()]), 6: P([ET.remove_obvious_expr()]),
        7: BO.defaultOptimizer, 8: BO.fastOptimizer,
    }


def shipped_profiles():
    """Step codes of the shipped profiles and the DISABLE_OR flag, by introspection."""
    from qlasskit.boolopt import bool_optimizer as BO
    from qlasskit.boolopt import exp_transformers as ET

    def code(st):
        if st is BO.merge_expressions:
            return 0
        if st is BO.apply_cse:
            return 1
        for c, cls in ((2, ET.remove_ITE), (3, ET.remove_Implies), (4, ET.transform_or2xor),
                       (5, ET.transform_or2and), (6, ET.remove_obvious_expr)):
            if type(st) is cls:
                return c
        return 99

    return ([code(s) for s in BO.defaultOptimizer.steps], [code(s) for s in BO.fastOptimizer.steps],
            bool(ET.DISABLE_OR))


def cse_guard_probe():
    """Does the implementation's apply_cse already refuse to hoist a replacement in
    front of the definition it reads, and avoid the names the list defines?  (True
    after /verif/proposed_fixes/C04_apply_cse_order.diff; the model follows.)"""
    from sympy import Symbol

    from qlasskit.boolopt import bool_optimizer as BO

    a, b, c, d, t, x0 = (Symbol(n) for n in ("a", "b", "c", "d", "t", "x0"))
    r0, r1 = Symbol("_ret.0"), Symbol("_ret.1")
    l1 = [(t, a & b), (r0, (t ^ c) & d), (r1, (t ^ c) | d)]
    o1 = list(BO.apply_cse(l1))
    hoisted = any(t in e.free_symbols for _, e in o1[:len(o1) - len(l1)])
    l2 = [(x0, a & b), (r0, (c ^ d) & a), (r1, (c ^ d) | b)]
    o2 = list(BO.apply_cse(l2))
    collide = any(s == x0 for s, _ in o2[:len(o2) - len(l2)])
    return (not hoisted) and (not collide)


def _pairs(exps):
    return [(str(s), e) for s, e in exps]


def _irdefs(exps):
    return [(str(s), to_ir(e)) for s, e in exps]


def process_list(task):
    """task = dict(idx, kind='front'|'arb', src=..|family=..,lseed=..) -> plain-data record."""
    from qlasskit.boolopt import bool_optimizer as BO

    signal.signal(signal.SIGALRM, _alarm)
    signal.alarm(int(task.get("timeout", 60)))
    rec = dict(idx=task["idx"], kind=task["kind"], family=task.get("family", "front"), status="ok",
               src=task.get("src"), lseed=task.get("lseed"), origin=task.get("origin"))
    calls_simp, calls_cse, front_calls = [], [], []
    orig_simp, orig_cse = BO.simplify_logic, BO.cse
    try:
        if task["kind"] == "front":
            from qlasskit import qlassf
            from qlasskit.ast2logic import t_ast

            o_front = t_ast.simplify_logic

            def w_front(e, **kw):
                r = o_front(e, **kw)
                front_calls.append((e, r))
                return r

            t_ast.simplify_logic = w_front
            try:
                qf = qlassf(task["src"], to_compile=False, bool_optimizer=BO.BoolOptimizerProfile([]))
            finally:
                t_ast.simplify_logic = o_front
            if type(qf).__name__ == "UnboundQlassf" or not hasattr(qf, "expressions"):
                return dict(rec, status="unbound")
            inputs = [b for a in qf.args for b in a.bitvec]
            exps = list(qf.expressions)
        else:
            inputs, exps = build_list(task["family"], task["lseed"])
        if len(inputs) > MAX_IN:
            return dict(rec, status="too-wide")
        if len(exps) > MAX_DEFS or len(exps) == 0:
            return dict(rec, status="too-long" if exps else "empty")
        ir_in = _irdefs(exps)
        rec["inputs"] = inputs
        rec["ir_in"] = ir_in
        # the list must be well formed: reads only inputs and earlier definitions
        allowed = set(inputs)
        for name, ir in ir_in:
            if not ir_syms(ir) <= allowed:
                return dict(rec, status="ill-formed")
            allowed.add(name)
        rec["canonical"] = all(from_ir(ir) == e for (_, ir), (_, e) in zip(ir_in, exps))
        names_in = [n for n, _ in ir_in]
        rets = [n for n in dict.fromkeys(names_in) if C.is_ret_name(n)]
        rec["rets"] = rets
        if not rets:
            return dict(rec, status="no-ret")
        T_in = run_tt(ir_in, inputs)

        def w_simp(e, *a, **kw):
            r = orig_simp(e, *a, **kw)
            calls_simp.append((e, r))
            return r

        def w_cse(es, *a, **kw):
            r = orig_cse(es, *a, **kw)
            calls_cse.append((list(es), r))
            return r

        BO.simplify_logic, BO.cse = w_simp, w_cse
        impl = _impl_steps()
        obs = []
        for code, sname in STEPS:
            o = dict(code=code)
            try:
                out = impl[code].apply(list(exps))
                out = [(s, e) for s, e in out]
            except _Timeout:
                raise
            except Exception as ex:  # the step must produce a list
                o["exc"] = f"{type(ex).__name__}: {ex}"[:200]
                obs.append(o)
                continue
            ir_out = _irdefs(out)
            o["ir_out"] = ir_out
            o["fired"] = _pairs(out) != _pairs(exps)
            o["nrepl"] = len(out) - len(exps) if code == 1 else 0
            kept = list(dict.fromkeys(names_in)) if code in ALL_SYMS_CODES else rets
            T_out = run_tt(ir_out, inputs)
            diffs = []
            for r in kept:
                dlt = T_in.get(r, 0) ^ T_out.get(r, 0)
                if dlt:
                    diffs.append((r, (dlt & -dlt).bit_length() - 1))
            o["diffs"] = diffs
            free, allowed = [], set(inputs)
            for name, ir in ir_out:
                for s in sorted(ir_syms(ir) - allowed):
                    free.append((name, s))
                allowed.add(name)
            o["free"] = free
            names_out = set(n for n, _ in ir_out)
            o["lost"] = [r for r in rets if r not in names_out]
            obs.append(o)
        rec["obs"] = obs

        # observed oracle calls -> IR with a local numbering
        sc = {}
        for arg, res in calls_simp:
            try:
                a_ir, r_ir = to_ir(arg), to_ir(res)
            except SerError as ex:
                sc[("bad", str(arg))] = dict(bad=str(ex))
                continue
            sc[(repr(a_ir))] = dict(arg=a_ir, res=r_ir)
        rec["simp_calls"] = list(sc.values())
        rec["n_simp_calls"] = len(calls_simp)
        cc = []
        for es, (repl, red) in calls_cse:
            try:
                cc.append(dict(es=[to_ir(e) for e in es], repl=[(str(s), to_ir(e)) for s, e in repl],
                               red=[to_ir(e) for e in red]))
            except SerError as ex:
                cc.append(dict(bad=str(ex)))
        rec["cse_calls"] = cc
        fc = []
        for arg, res in front_calls:
            try:
                ok_shape = len(arg) == 2 and len(res) == 2 and str(arg[0]) == str(res[0])
                fc.append(dict(name=str(arg[0]), arg=to_ir(arg[1]), res=to_ir(res[1]), shape=bool(ok_shape)))
            except Exception as ex:  # noqa
                fc.append(dict(bad=f"{type(ex).__name__}: {ex}"[:200]))
        rec["front_calls"] = fc
        return rec
    except _Timeout:
        return dict(rec, status="timeout")
    except SerError as ex:
        return dict(rec, status="ser-error", exc=str(ex)[:200])
    except BaseException as ex:  # front end rejected the program, etc.
        return dict(rec, status="raise", exc=f"{type(ex).__name__}: {ex}"[:200])
    finally:
        BO.simplify_logic, BO.cse = orig_simp, orig_cse
        signal.alarm(0)


# --------------------------------------------------------------------------
# corpus
# --------------------------------------------------------------------------
def make_tasks(tier, seed):
    rng = random.Random(seed)
    thorough = tier == "thorough"
    srcs = [("suite", s) for s in progs.suite_programs()]
    srcs += [("struct", s) for s in gen.struct_templates()]
    it = gen.int_templates((2, 3, 4) if thorough else (2, 3))
    if not thorough:
        it = rng.sample(it, 40)
    srcs += [("int-template", s) for s in it]
    # a variable whose name starts with _ret is an intermediate like any other (fix in merge_expressions)
    srcs.append(("ret-named-variable",
                 "def test(a: bool, b: bool, c: bool, d: bool) -> Tuple[bool, bool]:\n"
                 "    _retx = a and b\n    return ((_retx ^ c) and d, (_retx ^ c) or d)"))
    srcs.append(("reassigned-argument",
                 "def test(a: bool, b: bool, c: bool) -> bool:\n    a = not a\n    a = a and b\n    return a ^ c"))
    for nv, cnt in ((2, 16), (3, 256 if thorough else 24), (4, 300 if thorough else 10)):
        tabs = range(1 << (1 << nv)) if cnt >= (1 << (1 << nv)) else [rng.getrandbits(1 << nv) for _ in range(cnt)]
        srcs += [(f"tt{nv}", gen.truth_table_program(nv, t)) for t in tabs]
    srcs += [("rand-bool", gen.bool_program(rng)) for _ in range(4000 if thorough else 60)]
    seen, tasks = set(), []
    for o, s in srcs:
        if s not in seen:
            seen.add(s)
            tasks.append(dict(kind="front", src=s, origin=o))
    n_arb = 15000 if thorough else 340
    fams = [f for f, w in FAMILIES for _ in range(w)]
    for _ in range(n_arb):
        tasks.append(dict(kind="arb", family=rng.choice(fams), lseed=rng.getrandbits(48)))
    for i, t in enumerate(tasks):
        t["idx"] = i
        t["timeout"] = 25
    return tasks


# --------------------------------------------------------------------------
# Coq text
# --------------------------------------------------------------------------
def defs_coq_lenient(irdefs, st):
    out = []
    for name, ir in irdefs:
        b = ir_coq(ir, st, allow_new=True)
        k = st.get(name, True)
        out.append(f"({C.cnat(k)}, {b})")
    return C.clist(out)


def case_coq(rec, dis):
    st = SymTab(rec["inputs"])
    d_in = defs_coq_lenient(rec["ir_in"], st)
    obs = []
    for o in rec["obs"]:
        if "ir_out" not in o:
            continue
        fired = "None"
        if rec["canonical"] and o["code"] in TRANSFORMER_CODES + (8,):
            fired = f"(Some {C.cbool(o['fired'])})"
        obs.append("mk_obs %d %s %s %s" % (o["code"], fired, C.cnat(max(0, o["nrepl"])), defs_coq_lenient(o["ir_out"], st)))
    rets = C.clist([C.cnat(i) for s, i in st.idx.items() if C.is_ret_name(s)])
    return "mk_case %d %s %s %s %s %s" % (rec["idx"], C.cnat(st.n), rets, C.cbool(dis), d_in, C.clist(obs))


HDR = ("From Coq Require Import List NArith.\nImport ListNotations.\n"
       "From QV Require Import Bexp BexpTT M_Boolopt Chk_Boolopt.\nLocal Open Scope N_scope.\n")


def local_tab(irs):
    syms = sorted(set().union(*[ir_syms(x) for x in irs])) if irs else []
    return SymTab(syms)


# --------------------------------------------------------------------------
# the check
# --------------------------------------------------------------------------
def mechanism(rec, o):
    """Which pending finding (if any) is visible in this output of apply_cse / defaultOptimizer.
    Replacements = the entries cse put in front (apply_cse) / the entries that are
    not _ret definitions (defaultOptimizer: merge_expressions leaves only those)."""
    if o["code"] not in (1, 7) or "ir_out" not in o:
        return None
    out = o["ir_out"]
    if o["code"] == 1:
        repl = out[:max(0, o["nrepl"])]
        rest_names = set(n for n, _ in out[max(0, o["nrepl"]):])
    else:
        repl = [(n, ir) for n, ir in out if not C.is_ret_name(n)]
        rest_names = set(n for n, _ in out if C.is_ret_name(n))
    # a replacement reads a symbol that the list itself defines
    for n, ir in repl:
        if ir_syms(ir) & rest_names:
            return "cse-hoisted-before-definition"
    if o["code"] == 1 and set(n for n, _ in repl) & rest_names:
        return "cse-symbol-collision"
    return None


def confirm(rec, o, sym, x):
    """Re-evaluate one assignment with the plain recursive evaluator."""
    env = collections.defaultdict(bool)
    for i, s in enumerate(rec["inputs"]):
        env[s] = bool((x >> i) & 1)

    def run(irdefs):
        e = collections.defaultdict(bool, env)
        for name, ir in irdefs:
            for s in ir_syms(ir):
                e.setdefault(s, False)
            e[name] = ir_eval(ir, e)
        return e

    return run(rec["ir_in"])[sym], run(o["ir_out"])[sym]


def run(tier, seed):
    chk = C.Check(PID, tier, seed, level="proof")
    t_start = time.time()
    ok, log = C.coq_build()
    need = ["M_Boolopt", "P_Boolopt", "Chk_Boolopt"]
    missing = [f for f in need if not os.path.exists(os.path.join(C.THEORIES, f + ".vo"))]
    if ok and missing:
        ok, log = False, f"not built (add to _CoqProject): {missing}"
    obl = C.prop_obligations(PID) if ok else dict(theorems=[], axioms={}, ok=False, log=log)
    if not ok or not obl["ok"]:
        chk.broken("theorems of Prop_C04.v do not check", (log + obl.get("log", ""))[-3000:])
    bad_ax = {t: a for t, a in obl.get("axioms", {}).items() if set(a) - C.ALLOWED_AXIOMS}
    if bad_ax:
        chk.broken("a theorem of Prop_C04.v depends on an axiom", bad_ax)

    t_build = time.time() - t_start
    prof_default, prof_fast, dis = shipped_profiles()
    # apply_cse was repaired in /repo (0ecd3ac): the model is the guarded variant, always;
    # the probe is only recorded in the evidence
    probe_guarded = cse_guard_probe()
    guarded = True
    g = C.cbool(guarded)
    tasks = make_tasks(tier, seed)
    t0 = time.time()
    recs = progs.run_pool(process_list, tasks)
    t_impl = time.time() - t0
    status = collections.Counter(r["status"] for r in recs)
    good = [r for r in recs if r["status"] == "ok"]

    # ---------------- Coq files ----------------
    files = []
    chunk, wsum = [], 0

    def flush():
        if chunk:
            body = ";\n ".join(case_coq(r, dis) for r in chunk)
            files.append((f"cases_{len(files)}", HDR + f"Definition cases : list case := [{body}].\n"
                          f"Eval vm_compute in (chk_cases {g} cases).\n"))

    per_file, max_w = (LISTS_PER_FILE, FILE_WEIGHT) if tier == "quick" else (2 * LISTS_PER_FILE, 2 * FILE_WEIGHT)
    for r in good:
        w = case_weight(r)
        if chunk and (len(chunk) >= per_file or wsum + w > max_w):
            flush()
            chunk, wsum = [], 0
        chunk.append(r)
        wsum += w
    flush()
    files.append(("profiles", HDR + "Eval vm_compute in (profiles_match %s %s %s).\n"
                  % (g, C.clist([str(c) for c in prof_default]), C.clist([str(c) for c in prof_fast]))))
    # oracle contracts
    simp_rows, cse_rows, oracle_skipped, oracle_bad = [], [], 0, []
    simp_meta, cse_meta = {}, {}
    seen_simp = set()
    nontrivial_simp = 0
    for r in good:
        for c in r["simp_calls"] + [dict(arg=f["arg"], res=f["res"], front=True, shape=f.get("shape"), name=f.get("name"))
                                     for f in r["front_calls"] if "bad" not in f]:
            if "bad" in c:
                oracle_bad.append(dict(list=r["idx"], call="simplify_logic", error=c["bad"]))
                continue
            if c.get("front") and not c.get("shape"):
                oracle_bad.append(dict(list=r["idx"], call="t_ast.simplify_logic", error="result is not (same name, expr)", name=c.get("name")))
            key = (repr(c["arg"]), repr(c["res"]))
            if key in seen_simp:
                continue
            seen_simp.add(key)
            st = local_tab([c["arg"]])
            if st.n > MAX_IN:
                oracle_skipped += 1
                continue
            if not ir_syms(c["res"]) <= set(st.inputs):
                oracle_bad.append(dict(list=r["idx"], call="simplify_logic", error="result mentions a new symbol",
                                       arg=ir_str(c["arg"]), res=ir_str(c["res"])))
                continue
            if c["arg"][0] not in "sc":
                nontrivial_simp += 1
            cid = len(simp_rows)
            simp_meta[cid] = dict(list=r["idx"], arg=ir_str(c["arg"]), res=ir_str(c["res"]))
            simp_rows.append("(%d, (%s, %s, %s))" % (cid, C.cnat(st.n), ir_coq(c["arg"], st), ir_coq(c["res"], st)))
        for c in r["cse_calls"]:
            if "bad" in c:
                oracle_bad.append(dict(list=r["idx"], call="cse", error=c["bad"]))
                continue
            st = local_tab(c["es"])
            if st.n > MAX_IN + 2:
                oracle_skipped += 1
                continue
            es = C.clist([ir_coq(e, st) for e in c["es"]])
            repl = defs_coq_lenient(c["repl"], st)
            red = C.clist([ir_coq(e, st, allow_new=True) for e in c["red"]])
            retsyms = C.clist([C.cnat(i) for s, i in st.idx.items() if C.is_ret_name(s)])
            cid = len(cse_rows)
            cse_meta[cid] = dict(list=r["idx"], n_repl=len(c["repl"]))
            cse_rows.append("(%d, (%s, %s, %s, %s, %s))" % (cid, C.cnat(st.n), retsyms, es, repl, red))
    for ci in range(0, len(simp_rows), 400):
        files.append((f"simp_{ci}", HDR + "Definition calls : list (N * (nat * bexp * bexp)) := %s.\n"
                      "Eval vm_compute in (chk_simps calls).\n" % C.clist(simp_rows[ci:ci + 400])))
    for ci in range(0, len(cse_rows), 100):
        files.append((f"cse_{ci}", HDR + "Definition calls : list (N * (nat * list nat * list bexp * defs * list bexp)) := %s.\n"
                      "Eval vm_compute in (chk_cses calls).\n" % C.clist(cse_rows[ci:ci + 100])))

    t0 = time.time()
    res = C.run_cases(PID, files) if ok else {}
    t_coq = time.time() - t0

    coq_fail = collections.defaultdict(set)  # (idx, code) -> kinds
    coq_errors, contract_fail = [], []
    profiles_ok = None
    for name, (rc, so, se) in res.items():
        if rc != 0:
            coq_errors.append(dict(file=name, error=(so + se)[-1500:]))
            continue
        vals = C.parse_results(so)
        if name == "profiles":
            profiles_ok = bool(vals) and vals[0].strip() == "true"
            continue
        if len(vals) != 1:
            coq_errors.append(dict(file=name, error="unexpected output: " + so[-300:]))
            continue
        try:
            ids = C.parse_N_list(vals[0])
        except ValueError:
            coq_errors.append(dict(file=name, error="unparsable: " + vals[0][:200]))
            continue
        for v in ids:
            if name.startswith("cases_"):
                coq_fail[(v // 1000, (v // 10) % 100)].add(v % 10)
            elif name.startswith("simp_"):
                contract_fail.append(dict(call="simplify_logic", **simp_meta.get(v, {})))
            else:
                contract_fail.append(dict(call="cse", **cse_meta.get(v, {})))
    if ok and profiles_ok is not True:
        chk.broken("the shipped profiles are not the step lists of the model",
                   dict(defaultOptimizer=prof_default, fastOptimizer=prof_fast, coq=profiles_ok))

    # ---------------- verdicts ----------------
    by_idx = {r["idx"]: r for r in good}
    known = {f.get("id"): f for f in C.known_findings(PID)}
    fired = collections.Counter()
    applied = collections.Counter()
    finding_hits = collections.Counter()
    finding_samples = {}
    violations, model_mismatch, disagreements = [], [], []
    n_obs = 0
    for r in good:
        for o in r["obs"]:
            code = o["code"]
            sname = STEP_NAME[code]
            ident = dict(step=sname, list_kind=r["kind"], family=r["family"], src=r.get("src"), lseed=r.get("lseed"),
                         inputs=r["inputs"], input_list=[(n, ir_str(ir)) for n, ir in r["ir_in"]][:60])
            if "exc" in o:
                violations.append(("step raised instead of returning a list", dict(ident, exception=o["exc"])))
                continue
            n_obs += 1
            applied[sname] += 1
            fired[sname] += bool(o["fired"])
            kinds = coq_fail.get((r["idx"], code), set())
            py_bad = bool(o["diffs"])
            mech = None
            if (py_bad or o["free"] or o["lost"] or kinds - {3}):
                mech = mechanism(r, o)
                if mech not in known:  # only findings listed in known_findings.json are tolerated
                    mech = None
            ident["output_list"] = [(n, ir_str(ir)) for n, ir in o["ir_out"]][:60]
            if py_bad != (1 in kinds) and ok:
                disagreements.append(dict(ident, python_diffs=o["diffs"], coq_kinds=sorted(kinds)))
            if py_bad or o["free"] or o["lost"]:
                what = []
                rep = dict(ident)
                if py_bad:
                    sym, x = o["diffs"][0]
                    vi, vo = confirm(r, o, sym, x)
                    rep.update(symbol=sym, assignment={s: bool((x >> i) & 1) for i, s in enumerate(r["inputs"])},
                               value_before=vi, value_after=vo, confirmed=(vi != vo),
                               decided_by="Chk_Boolopt.sym_diff (Coq) and Python truth tables" if 1 in kinds else "Python truth tables only")
                    what.append(f"{sname} changes the function of {sym}")
                if o["free"]:
                    rep["free_symbols_introduced"] = o["free"][:10]
                    what.append(f"{sname} introduces a free symbol")
                if o["lost"]:
                    rep["ret_symbols_lost"] = o["lost"]
                    what.append(f"{sname} loses a _ret symbol")
                if mech:
                    finding_hits[mech] += 1
                    finding_samples.setdefault(mech, dict(rep, what="; ".join(what)))
                else:
                    violations.append(("; ".join(what), rep))
            elif kinds - {3}:
                if mech:
                    finding_hits[mech] += 1
                else:
                    model_mismatch.append(dict(ident, coq_kinds=sorted(kinds)))
            elif 3 in kinds:
                model_mismatch.append(dict(ident, coq_kinds=[3], impl_fired=o["fired"]))

    for what, rep in violations[:20]:
        chk.violation(what, rep)
    for fid, cnt in finding_hits.items():
        f = known.get(fid) or dict(id=fid, what=PENDING_FINDINGS[fid], pending=True)
        chk.known(f, f"{cnt} observations; e.g. {json.dumps(finding_samples.get(fid, {}), default=str)[:600]}")
    if not violations:
        if coq_errors:
            chk.broken("a case file did not evaluate", coq_errors[:5])
        if model_mismatch:
            chk.broken("model (M_Boolopt) and implementation differ on a step", model_mismatch[:10])
        if disagreements:
            chk.broken("Coq checker and Python truth tables disagree", disagreements[:10])
        if contract_fail or oracle_bad:
            chk.broken("an observed sympy call breaks the contract assumed by the theorems", (contract_fail + oracle_bad)[:10])
    else:
        chk.notes.append(dict(coq_errors=coq_errors[:3], model_mismatch=model_mismatch[:3]))

    # ---------------- evidence ----------------
    sizes = collections.Counter()
    nodes = collections.Counter()
    for r in good:
        k = len(r["ir_in"])
        sizes["1" if k == 1 else "2-3" if k <= 3 else "4-7" if k <= 7 else "8-31" if k <= 31 else "32+"] += 1
        for _, ir in r["ir_in"]:
            ir_nodes(ir, nodes)
    fam = collections.Counter((r["family"] if r["kind"] == "arb" else "front:" + (r.get("origin") or "?")) for r in good)
    distinct = len(set(repr((r["inputs"], r["ir_in"])) for r in good))
    hazard_lists = sum(1 for r in good if any(ir_syms(ir) & set(n for n, _ in r["ir_in"]) for _, ir in r["ir_in"]))
    chk.coverage.update(
        evaluations=n_obs, lists=len(good), distinct_nontrivial=distinct,
        rule="one evaluation = one (list, step) pair: the implementation's step applied to the list, every kept symbol "
             "compared on all 2^n assignments (n <= 12) in Coq and in Python; distinct = distinct input lists "
             "(inputs + serialised expressions); a list is non-trivial when it has at least one operator node",
        nontrivial_lists=sum(1 for r in good if any(ir[0] not in "sc" for _, ir in r["ir_in"])),
        steps_applied=dict(applied), rewrite_fired=dict(fired),
        list_status=dict(status), families=dict(fam), list_sizes=dict(sizes), node_kinds=dict(nodes),
        canonical_lists=sum(1 for r in good if r["canonical"]),
        lists_reading_a_defined_symbol=hazard_lists,
        oracle_calls=dict(simplify_logic_total=sum(r.get("n_simp_calls", 0) for r in good),
                          simplify_logic_distinct_checked=len(simp_rows), simplify_logic_nontrivial=nontrivial_simp,
                          front_end_cnf_calls=sum(len(r["front_calls"]) for r in good),
                          cse_checked=len(cse_rows), cse_with_replacements=sum(1 for m in cse_meta.values() if m["n_repl"]),
                          skipped_too_many_symbols=oracle_skipped, contract_failures=len(contract_fail) + len(oracle_bad)),
        findings_matched=dict(finding_hits), model_files=len(files), model_mismatches=len(model_mismatch),
        impl_failures=len(violations),
        shipped_profiles=dict(default=prof_default, fast=prof_fast, DISABLE_OR=dis, apply_cse_guarded=guarded),
        traces_validated_against_impl=n_obs,
        timings_s=dict(coq_build_and_theorems=round(t_build, 1), implementation=round(t_impl, 1), coq_cases=round(t_coq, 1)),
    )
    smp = [r for r in good if r["kind"] == "arb"][:3] + [r for r in good if r["kind"] == "front"][:2]
    chk.samples = [dict(family=r["family"], inputs=r["inputs"], list=[(n, ir_str(ir)) for n, ir in r["ir_in"]][:6]) for r in smp]
    chk.assumptions = [
        "sympy.simplify_logic and sympy.cse satisfy the contracts simp_sem/simp_syms/cse_contract of P_Boolopt.v "
        "(checked on every distinct observed call with <= 12 symbols, not proved)",
        "sympy constructors (And/Or/Xor/Not/ITE/Implies) re-canonicalise without changing the boolean function",
        "symbols that are neither inputs nor defined read as false in both lists (only relevant when a free symbol was introduced, which is reported separately)",
    ]
    return chk.finish(obl)


def replay(path):
    d = json.load(open(path))
    print(json.dumps({k: d.get(k) for k in ("what", "step", "family", "lseed", "src", "symbol", "assignment",
                                            "value_before", "value_after")}, indent=1, default=str))
    if d.get("list_kind") == "arb" and d.get("lseed") is not None:
        task = dict(idx=0, kind="arb", family=d["family"], lseed=d["lseed"])
    elif d.get("src"):
        task = dict(idx=0, kind="front", src=d["src"])
    else:
        return 2
    rec = process_list(task)
    code = {v: k for k, v in STEPS}[d["step"]]
    for o in rec.get("obs", []):
        if o["code"] == code:
            print("diffs:", o.get("diffs"), "free:", o.get("free"), "lost:", o.get("lost"), "exc:", o.get("exc"))
            return 1 if (o.get("diffs") or o.get("free") or o.get("lost") or o.get("exc")) else 0
    return 2
