"""Shared machinery of C02 / C03 / C06: compile a corpus with the implementation,
decide each compiled program with the Coq-verified checkers, confirm failures in
Python, cache the result per (repo state, tier, seed)."""
import hashlib
import json
import os
import pickle
import random
import time

from . import common as C
from . import gen, progs
from .ser import SerError, SymTab, circuit_coq, defs_coq, defs_eval, py_sim

MAX_IN_BITS = 13
MAX_GATES = 1500


def repo_hash():
    h = hashlib.sha256()
    base = os.path.join(C.REPO, "qlasskit")
    for root, dirs, files in sorted(os.walk(base)):
        dirs.sort()
        for fn in sorted(files):
            if fn.endswith(".py"):
                p = os.path.join(root, fn)
                h.update(p.encode())
                h.update(open(p, "rb").read())
    for fn in ("ser.py", "progs.py", "gen.py", "compiled.py"):
        h.update(open(os.path.join(C.ROOT, "harness", fn), "rb").read())
    return h.hexdigest()[:24]


def corpus(tier, seed):
    """[(origin, src)] — deterministic part first, then the seeded stream."""
    rng = random.Random(seed)
    out = [("suite", s) for s in progs.suite_programs()]
    out += [("struct", s) for s in gen.struct_templates()]
    it = gen.int_templates((2, 3, 4) if tier == "thorough" else (2, 4))
    if tier != "thorough":
        it = [s for i, s in enumerate(it) if i % 3 == seed % 3]
    out += [("int-template", s) for s in it]
    # boolean functions given by truth table (written as minterm DNF)
    for t in range(16):
        out.append(("tt2", gen.truth_table_program(2, t)))
    t3 = list(range(256)) if tier == "thorough" else rng.sample(range(256), 40)
    out += [("tt3", gen.truth_table_program(3, t)) for t in t3]
    n4 = 400 if tier == "thorough" else 30
    out += [("tt4", gen.truth_table_program(4, rng.randrange(1 << 16))) for _ in range(n4)]
    n5 = 200 if tier == "thorough" else 10
    out += [("tt5", gen.truth_table_program(5, rng.getrandbits(32))) for _ in range(n5)]
    nb = 3000 if tier == "thorough" else 150
    out += [("rand-bool", gen.bool_program(rng)) for _ in range(nb)]
    seen, res = set(), []
    for o, s in out:
        if s not in seen:
            seen.add(s)
            res.append((o, s))
    return res


def prog_case(pid, obs, uncompute):
    """Coq `prog` term for one observation, or raises SerError."""
    inputs = [b for a in obs["args"] for b in a[2]]
    st = SymTab(inputs)
    d = defs_coq(obs["exprs"], st)
    qmap = dict(obs["qubit_map"])
    # argument bit k is initialised on qubit k (QlassF.input_qubits); the qubit_map
    # entry of an argument name may move when the program re-binds the name
    if obs.get("input_qubits") != list(range(st.n)):
        raise SerError(f"input_qubits is {obs.get('input_qubits')!r}, expected 0..{st.n - 1}")
    rets, outs = [], []
    for r in obs["ret"][1]:
        if r in qmap and r in st.idx:
            rets.append((st.idx[r], qmap[r]))
            outs.append(qmap[r])
    nq = obs["num_qubits"]
    for k, w, p in obs["gates"]:
        for q in w:
            nq = max(nq, q + 1)
    c06 = "None"
    if uncompute and obs["ret"][0] == "bool" and len(rets) == 1 and rets[0][1] >= st.n:
        c06 = f"(Some ({C.cnat(rets[0][0])}, {C.cnat(rets[0][1])}))"
    # (an output that sits ON an argument qubit cannot be an xor-oracle: reported by the caller)
    return "(mkprog %s %s %s %s %s %s %s %s %s)" % (
        C.cN(pid), C.cnat(st.n), C.cnat(nq), circuit_coq(obs["gates"]), d,
        C.clist(["(%s, %s)" % (C.cnat(s), C.cnat(q)) for s, q in rets]),
        C.clist([C.cnat(q) for q in outs]), C.cbool(uncompute), c06)


def confirm(obs, kind, wit):
    """Re-run the failing assignment in Python; returns a replay dict or None
    when the Python simulation does not reproduce the failure."""
    inputs = [b for a in obs["args"] for b in a[2]]
    n = len(inputs)
    qmap = dict(obs["qubit_map"])
    x = wit & ((1 << n) - 1)
    y = bool((wit >> n) & 1) if kind == "c06" else False
    init = [bool((x >> i) & 1) for i in range(n)] + [False] * (obs["num_qubits"] - n)
    rets = [(r, qmap[r]) for r in obs["ret"][1] if r in qmap]
    if kind == "c06":
        while len(init) <= rets[0][1]:
            init.append(False)
        init[rets[0][1]] = y
    fin = py_sim(obs["gates"], init)
    env = defs_eval(obs["exprs"], {b: bool((x >> i) & 1) for i, b in enumerate(inputs)})
    outs = set(q for _, q in rets)
    problems = []
    if kind == "c02":
        for r, q in rets:
            if fin[q] != env[r]:
                problems.append(f"output qubit {q} ({r}) holds {int(fin[q])}, expression value {int(env[r])}")
    else:
        for i in range(n):
            if fin[i] != init[i]:
                problems.append(f"input qubit {i} changed")
        for q in range(n, len(fin)):
            if q not in outs and fin[q]:
                problems.append(f"scratch qubit {q} left at 1")
        if kind == "c06":
            r, q = rets[0]
            if fin[q] != (y ^ env[r]):
                problems.append(f"output qubit {q} holds {int(fin[q])}, expected y xor f(x) = {int(y ^ env[r])}")
    if not problems:
        return None
    return dict(input_bits={b: int((x >> i) & 1) for i, b in enumerate(inputs)},
                initial_output=int(y) if kind == "c06" else None, problems=problems)


def collect(tier, seed):
    """Returns dict with per-(program, config) records; cached on disk."""
    os.makedirs(os.path.join(C.BUILD, "cache"), exist_ok=True)
    key = f"{repo_hash()}_{tier}_{seed}"
    cp = os.path.join(C.BUILD, "cache", f"compiled_{key}.pkl")
    if os.path.exists(cp):
        try:
            return pickle.load(open(cp, "rb"))
        except Exception:
            pass
    t0 = time.time()
    cor = corpus(tier, seed)
    tasks = []
    for pi, (origin, src) in enumerate(cor):
        for ci, (opt, unc) in enumerate(progs.CONFIGS):
            tasks.append(dict(src=src, optimizer=opt, uncompute=unc, timeout=25 if tier == "quick" else 60))
    res = progs.run_pool(progs.compile_task, tasks)
    recs = []
    cases = []
    for ti, (task, obs) in enumerate(zip(tasks, res)):
        pi, ci = divmod(ti, len(progs.CONFIGS))
        rec = dict(id=ti, origin=cor[pi][0], src=task["src"], optimizer=task["optimizer"],
                   uncompute=task["uncompute"], status=obs["status"], exc=obs.get("exc"))
        if obs["status"] == "ok":
            rec["obs"] = obs
            n = progs.n_input_bits(obs)
            rec["n"] = n
            rec["unmapped"] = [r for r in obs["ret"][1] if r not in dict(obs["qubit_map"])]
            qm = dict(obs["qubit_map"])
            rec["out_on_input"] = [r for r in obs["ret"][1] if r in qm and qm[r] < n]
            if n > MAX_IN_BITS or len(obs["gates"]) > MAX_GATES:
                rec["skipped"] = "too large for the exhaustive tables"
            else:
                try:
                    cases.append((ti, prog_case(ti, obs, task["uncompute"])))
                except SerError as e:
                    rec["ser_error"] = str(e)
        recs.append(rec)
    files = []
    for ci in range(0, len(cases), 60):
        chunk = cases[ci:ci + 60]
        files.append((f"progs_{ci}", C.COQ_HEADER + "From QV Require Import Bexp BexpTT Circ Compiled Chk_Compiled.\nLocal Open Scope N_scope.\n"
                      + "Definition ps : list prog := %s.\nEval vm_compute in (failing_progs ps).\n" % C.clist([c for _, c in chunk])))
    out = C.run_cases("compiled", files)
    coq_errors = []
    verdicts = {}
    for name, (rc, so, se) in out.items():
        if rc != 0:
            coq_errors.append(dict(file=name, error=(so + se)[-1500:]))
            continue
        for v in C.parse_results(so):
            nums = C.parse_N_list(v)
            for i in range(0, len(nums), 7):
                r = nums[i:i + 7]
                verdicts[r[0]] = dict(c02=(r[1], r[2]), c03=(r[3], r[4]), c06=(r[5], r[6]))
    decided = set(ti for ti, _ in cases)
    for rec in recs:
        if rec["id"] in decided:
            v = verdicts.get(rec["id"], dict(c02=(0, 0), c03=(0 if rec["uncompute"] else 3, 0), c06=(0, 0)))
            rec["verdict"] = v
            for kind in ("c02", "c03", "c06"):
                if v[kind][0] == 1:
                    rec.setdefault("confirmed", {})[kind] = confirm(rec["obs"], kind, v[kind][1])
    data = dict(records=recs, coq_errors=coq_errors, wall=time.time() - t0, n_programs=len(cor))
    pickle.dump(data, open(cp, "wb"))
    return data
