"""Serialise qlasskit types and values to the Coq terms of M_Codec.v (ty, val)."""
import random
from typing import Tuple, get_args

from qlasskit.types import Qchar, Qlist, Qmatrix  # noqa: F401
from qlasskit.types.qfixed import QFIXED_TYPES, QfixedImp
from qlasskit.types.qint import QINT_TYPES, QintImp

from .common import cN, cbool, clist, cnat


class SerError(Exception):
    pass


def ty_to_coq(t):
    if t is bool:
        return "TBool"
    if isinstance(t, type) and issubclass(t, QintImp):
        return f"(TQint {cnat(t.BIT_SIZE)})"
    if isinstance(t, type) and issubclass(t, QfixedImp):
        return f"(TQfixed {cnat(t.BIT_SIZE_INTEGER)} {cnat(t.BIT_SIZE_FRACTIONAL)})"
    if t is Qchar:
        return "TQchar"
    args = get_args(t)
    if args:
        return "(TTuple %s)" % clist([ty_to_coq(a) for a in args])
    raise SerError(f"type {t!r}")


def float_to_dy(x):
    x = float(x)
    if x < 0 or x != x or x in (float("inf"),):
        raise SerError(f"float {x!r}")
    num, den = x.as_integer_ratio()
    k = den.bit_length() - 1
    assert den == 1 << k
    return num, k


def val_to_coq(t, v):
    """v is a Python value of type t as the implementation produces/consumes it."""
    if t is bool:
        if not isinstance(v, bool):
            raise SerError(f"bool value {v!r}")
        return f"(VBool {cbool(v)})"
    if isinstance(t, type) and issubclass(t, QintImp):
        val = v.value if isinstance(v, QintImp) else v
        return f"(VInt {cN(val)})"
    if isinstance(t, type) and issubclass(t, QfixedImp):
        val = v.value if isinstance(v, QfixedImp) else v
        n, k = float_to_dy(val)
        return f"(VFix (mkdy {cN(n)} {cnat(k)}))"
    if t is Qchar:
        val = v.value if isinstance(v, Qchar) else v
        return f"(VChar {cN(ord(val))})"
    args = get_args(t)
    if args:
        if not isinstance(v, tuple) or len(v) != len(args):
            raise SerError(f"tuple value {v!r} for {t!r}")
        return "(VTuple %s)" % clist([val_to_coq(a, x) for a, x in zip(args, v)])
    raise SerError(f"value {v!r} of {t!r}")


def ty_size(t):
    if t is bool:
        return 1
    if hasattr(t, "BIT_SIZE"):
        return t.BIT_SIZE
    return sum(ty_size(a) for a in get_args(t))


LEAVES = [bool] + list(QINT_TYPES) + list(QFIXED_TYPES) + [Qchar]


def random_type(rng, depth, max_bits):
    """A random type tree of at most max_bits bits."""
    if depth == 0 or rng.random() < 0.3:
        cands = [t for t in LEAVES if ty_size(t) <= max_bits]
        return rng.choice(cands)
    kind = rng.choice(["tuple", "tuple", "qlist", "qmatrix"])
    if kind == "qlist":
        el = random_type(rng, depth - 1, max(1, max_bits // 2))
        n = rng.randint(1, max(1, min(4, max_bits // ty_size(el))))
        return Tuple[(el,) * n]
    if kind == "qmatrix":
        el = random_type(rng, 0, max(1, max_bits // 4))
        n = rng.randint(1, max(1, min(3, max_bits // (2 * ty_size(el)))))
        m = rng.randint(1, max(1, min(3, max_bits // (n * ty_size(el)))))
        return Tuple[(Tuple[(el,) * n],) * m]
    n = rng.randint(1, 4)
    els, budget = [], max_bits
    for _ in range(n):
        if budget < 1:
            break
        e = random_type(rng, depth - 1, max(1, budget // 2 if len(els) < n - 1 else budget))
        els.append(e)
        budget -= ty_size(e)
    return Tuple[tuple(els)]


def random_value(rng, t):
    """A Python value of type t (objects of the qlasskit classes at the leaves)."""
    if t is bool:
        return rng.random() < 0.5
    if isinstance(t, type) and issubclass(t, QintImp):
        return t(rng.randrange(2 ** t.BIT_SIZE))
    if isinstance(t, type) and issubclass(t, QfixedImp):
        n = rng.randrange(2 ** t.BIT_SIZE)
        return t(n / 2 ** t.BIT_SIZE_FRACTIONAL)
    if t is Qchar:
        return Qchar(chr(rng.randrange(256)))
    return tuple(random_value(rng, a) for a in get_args(t))


def val_equal(t, a, b):
    """Equality of two implementation values of type t."""
    if t is bool:
        return isinstance(a, bool) and isinstance(b, bool) and a == b
    if isinstance(t, type) and issubclass(t, QintImp):
        return getattr(a, "value", a) == getattr(b, "value", b)
    if isinstance(t, type) and issubclass(t, QfixedImp):
        return float(getattr(a, "value", a)) == float(getattr(b, "value", b))
    if t is Qchar:
        return getattr(a, "value", a) == getattr(b, "value", b)
    args = get_args(t)
    return (
        isinstance(a, tuple) and isinstance(b, tuple) and len(a) == len(b) == len(args)
        and all(val_equal(x, p, q) for x, p, q in zip(args, a, b))
    )


def leaf_bits(t, v):
    """Concatenated element encodings (impl's own to_bin at the leaves)."""
    if t is bool:
        return "1" if v else "0"
    if hasattr(t, "BIT_SIZE"):
        return v.to_bin()
    return "".join(leaf_bits(a, x) for a, x in zip(get_args(t), v))


def type_str(t):
    from qlasskit.types import type_repr

    return type_repr(t)
