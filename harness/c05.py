"""C05 — values survive the encode -> circuit -> decode round trip."""
import random
from typing import Tuple, get_args

from . import common as C
from . import gen, progs
from .types_ser import (SerError, leaf_bits, random_value, ty_size, ty_to_coq, val_equal, val_to_coq)

PID = "C05"


def ann(t):
    """Source-level annotation of a type built by types_ser."""
    from qlasskit.types import Qchar
    if t is bool:
        return "bool"
    if hasattr(t, "BIT_SIZE_INTEGER"):
        return f"Qfixed[{t.BIT_SIZE_INTEGER},{t.BIT_SIZE_FRACTIONAL}]"
    if t is Qchar:
        return "Qchar"
    if hasattr(t, "BIT_SIZE"):
        return f"Qint[{t.BIT_SIZE}]"
    return "Tuple[" + ", ".join(ann(a) for a in get_args(t)) + "]"


def leaves(t, path=""):
    if t is bool or hasattr(t, "BIT_SIZE"):
        return [(path, t)]
    out = []
    for i, a in enumerate(get_args(t)):
        out += leaves(a, f"{path}[{i}]")
    return out


def shape_program(rng):
    """A function whose signature has nested Tuple types and whose result
    re-arranges leaves of the arguments into a (possibly nested) tuple."""
    from .types_ser import random_type
    nargs = rng.randint(1, 3)
    args, budget = [], 10
    for k in range(nargs):
        t = random_type(rng, rng.randint(0, 2), max(1, budget // (nargs - k)))
        args.append(t)
        budget -= ty_size(t)
        if budget <= 0:
            break
    names = [chr(ord("a") + i) for i in range(len(args))]
    lv = []
    for n, t in zip(names, args):
        lv += [(n + p, lt) for p, lt in leaves(t)]
    k = rng.randint(1, min(4, len(lv)))
    pick = [rng.choice(lv) for _ in range(k)]
    if k == 1 and rng.random() < 0.6:
        rexp, rann = pick[0][0], ann(pick[0][1])
    elif k >= 3 and rng.random() < 0.6:
        if rng.random() < 0.5:
            rexp = f"({pick[0][0]}, ({', '.join(p for p, _ in pick[1:])}))"
            rann = f"Tuple[{ann(pick[0][1])}, Tuple[{', '.join(ann(t) for _, t in pick[1:])}]]"
        else:  # a nested tuple FOLLOWED by another element
            rexp = f"(({', '.join(p for p, _ in pick[:-1])}), {pick[-1][0]})"
            rann = f"Tuple[Tuple[{', '.join(ann(t) for _, t in pick[:-1])}], {ann(pick[-1][1])}]"
    else:
        rexp = "(" + ", ".join(p for p, _ in pick) + ("," if k == 1 else "") + ")"
        rann = "Tuple[" + ", ".join(ann(t) for _, t in pick) + "]"
    sig = ", ".join(f"{n}: {ann(t)}" for n, t in zip(names, args))
    return f"def test({sig}) -> {rann}:\n    return {rexp}"


def indep_decode(t, bits):
    """Decode little-endian, tuple-flattened bits into plain Python data (independent
    of the implementation): bool / int / float / str / tuple."""
    from qlasskit.types import Qchar
    if t is bool:
        return bits[0], 1
    if hasattr(t, "BIT_SIZE_INTEGER"):
        i, f = t.BIT_SIZE_INTEGER, t.BIT_SIZE_FRACTIONAL
        v = sum(1 << k for k in range(i) if bits[k]) + sum(2.0 ** -(k + 1) for k in range(f) if bits[i + k])
        return float(v), i + f
    if t is Qchar:
        return chr(sum(1 << k for k in range(8) if bits[k])), 8
    if hasattr(t, "BIT_SIZE"):
        return sum(1 << k for k in range(t.BIT_SIZE) if bits[k]), t.BIT_SIZE
    out, pos = [], 0
    for a in get_args(t):
        v, n = indep_decode(a, bits[pos:])
        out.append(v)
        pos += n
    return tuple(out), pos


def task(job):
    """Worker: compile, push values through encode_input -> circuit -> decode_output."""
    import signal
    from qlasskit import qlassf
    from .ser import circuit_ir, exprs_to_ir, defs_eval, py_sim
    src, seed, nvals = job["src"], job["seed"], job["nvals"]
    rng = random.Random(seed)
    signal.signal(signal.SIGALRM, progs._alarm)
    signal.alarm(40)
    try:
        if job.get("fast"):
            from qlasskit.boolopt import fastOptimizer
            qf = qlassf(src, to_compile=True, bool_optimizer=fastOptimizer)
        else:
            qf = qlassf(src, to_compile=True)
        if type(qf).__name__ == "UnboundQlassf":
            return dict(status="unbound")
        arg_t = [a.ttype for a in qf.args]
        ret_t = qf.returns.ttype
        n = sum(len(a.bitvec) for a in qf.args)
        out = dict(status="ok", src=src, n=n, problems=[], cases=[])
        try:
            out["arg_ty"] = [ty_to_coq(t) for t in arg_t]
            out["ret_ty"] = ty_to_coq(ret_t)
        except SerError as e:
            return dict(status="skip", why=str(e))
        qc = qf.circuit()
        gates = circuit_ir(qc.gates)
        exprs = exprs_to_ir(qf.expressions)
        inputs = [b for a in qf.args for b in a.bitvec]
        retbits = list(qf.returns.bitvec)
        defined = set(nm for nm, _ in exprs)
        if any(r not in defined for r in retbits):
            return dict(status="ret-unnamed", src=src, ret=qf.returns.bitvec, names=[nm for nm, _ in exprs][-len(retbits):])
        # qubit lists
        if list(qf.input_qubits) != list(range(n)):
            out["problems"].append(f"input_qubits = {list(qf.input_qubits)}")
        try:
            oq = list(qf.output_qubits)
        except Exception as e:
            return dict(status="output_qubits-raise", src=src, exc=repr(e))
        if len(oq) != len(retbits) or any((not isinstance(q, int)) or q < 0 or q >= qc.num_qubits for q in oq):
            out["problems"].append(f"output_qubits = {oq} for {len(retbits)} return bits on {qc.num_qubits} qubits")
        # values
        total = 1 << n
        vals = []
        for _ in range(nvals):
            vals.append(tuple(random_value(rng, t) for t in arg_t))
        share = {}
        all_readings = {}
        for vi, v in enumerate(vals):
            try:
                s = qf.encode_input(*v)
            except Exception as e:
                out["problems"].append(f"encode_input{v!r} raised {e!r}")
                continue
            flat = "".join(leaf_bits(t, x) for t, x in zip(arg_t, v))  # bit k of the flattened arguments
            if len(s) != n or s[::-1] != flat:
                out["problems"].append(f"encode_input{v!r} = {s!r}, expected the reversal of {flat!r}")
            init = [c == "1" for c in s[::-1]] + [False] * (qc.num_qubits - n)
            fin = py_sim(gates, init)
            reading_bits = [fin[q] for q in oq]  # return bit k
            reading = "".join("1" if b else "0" for b in reversed(reading_bits))  # measured string: bit 0 last
            env = defs_eval(exprs, {b: init[i] for i, b in enumerate(inputs)})
            exp_bits = [env[r] for r in retbits]
            if reading_bits != exp_bits:
                out["problems"].append(f"inputs {v!r}: qubits {oq} read {reading_bits}, return expressions give {exp_bits}")
            for a in range(len(oq)):
                for b in range(a + 1, len(oq)):
                    if oq[a] == oq[b] and exp_bits[a] != exp_bits[b]:
                        out["problems"].append(f"return bits {a} and {b} share qubit {oq[a]} but differ on {v!r}")
            try:
                dec = qf.decode_output(reading)
                dv = val_to_coq(ret_t, dec)
                want, _ = indep_decode(ret_t, exp_bits)
                got = _plain(ret_t, dec)
                if got != want:
                    out["problems"].append(f"inputs {v!r}: decode_output({reading!r}) = {got!r}, expected {want!r}")
            except SerError as e:
                dv = None
                out["problems"].append(f"decode_output({reading!r}) returned a value of the wrong shape: {e}")
            except Exception as e:
                dv = None
                out["problems"].append(f"decode_output({reading!r}) raised {e!r}")
            # the same reading as a list of bools, decoded twice: same value, and the caller's list untouched
            if dv is not None:
                try:
                    lst = [ch == "1" for ch in reading]
                    keep = list(lst)
                    d1 = qf.decode_output(lst)
                    d2 = qf.decode_output(lst)
                    if lst != keep:
                        out["problems"].append(f"decode_output modified the caller's reading {keep} -> {lst}")
                    elif not (val_equal(ret_t, d1, dec) and val_equal(ret_t, d2, dec)):
                        out["problems"].append(f"decode_output of the list reading {keep} gave {d1!r} then {d2!r}, the string reading gave {dec!r}")
                except Exception as e:
                    out["problems"].append(f"decode_output of a list reading raised {e!r}")
            # decode_counts aggregates by decoded value (every reading on its own ...)
            if dv is not None:
                try:
                    cnt = qf.decode_counts({reading: 3})
                    if list(cnt.values()) != [3] or not val_equal(ret_t, list(cnt.keys())[0], dec):
                        out["problems"].append(f"inputs {v!r}: decode_counts({{{reading!r}: 3}}) = {cnt!r}, decode_output gives {dec!r}")
                except Exception as e:
                    out["problems"].append(f"decode_counts raised {e!r}")
                all_readings.setdefault(reading, dec)
            out["cases"].append(dict(vals=[val_to_coq(t, x) for t, x in zip(arg_t, v)], enc=s, reading=reading, dec=dv,
                                     repr=repr(v)))
        # ... and all distinct readings in one counts dict: the multiset of decoded values must be the one of decode_output
        if len(all_readings) >= 2:
            try:
                counts = dict((r, 2 + i) for i, r in enumerate(all_readings))
                cnt = qf.decode_counts(counts)
                want = {}
                for i, (r, d) in enumerate(all_readings.items()):
                    k = repr(_plain(ret_t, d))
                    want[k] = want.get(k, 0) + 2 + i
                got = {}
                for k, c in cnt.items():
                    got[repr(_plain(ret_t, k))] = got.get(repr(_plain(ret_t, k)), 0) + c
                if got != want:
                    out["problems"].append(f"decode_counts({counts!r}) = {cnt!r}: decoded value counts {got!r}, expected {want!r}")
            except Exception as e:
                out["problems"].append(f"decode_counts of several readings raised {e!r}")
        return out
    except progs._Timeout:
        return dict(status="timeout")
    except BaseException as e:  # noqa
        return dict(status="raise", exc=f"{type(e).__name__}: {e}"[:200])
    finally:
        signal.alarm(0)


def _plain(t, v):
    from qlasskit.types import Qchar
    if t is bool:
        return bool(v)
    if hasattr(t, "BIT_SIZE_INTEGER"):
        return float(getattr(v, "value", v))
    if t is Qchar:
        return getattr(v, "value", v)
    if hasattr(t, "BIT_SIZE"):
        return int(getattr(v, "value", v))
    return tuple(_plain(a, x) for a, x in zip(get_args(t), v))


def run(tier, seed):
    chk = C.Check(PID, tier, seed, level="proof")
    rng = random.Random(seed)
    ok, log = C.coq_build()
    obl = C.prop_obligations(PID) if ok else dict(theorems=[], axioms={}, ok=False, log=log)
    if not ok or not obl["ok"]:
        chk.broken("theorems of Prop_C05.v do not check", (log + obl.get("log", ""))[-3000:])
        return chk.finish(obl)
    srcs = [("suite", s) for s in progs.suite_programs()] + [("struct", s) for s in gen.struct_templates()]
    nshape = 120 if tier == "quick" else 2000
    srcs += [("shape", shape_program(rng)) for _ in range(nshape)]
    srcs += [("nested", "def test(a: Qint[2], b: bool, c: Qint[2]) -> Tuple[Tuple[bool, Qint[2]], Qint[2]]:\n    return ((b, a), c)"),
             ("nested", "def test(a: Tuple[Tuple[bool, Qint[2]], Qint[2]]) -> Tuple[Tuple[bool, Qint[2]], Qint[2]]:\n    return a"),
             ("nested", "def test(a: Qint[2], b: Qint[4]) -> Tuple[Tuple[Qint[2], Qint[4]], Qint[4]]:\n    return ((a, b), b)"),
             ("nested", "def test(a: Tuple[Tuple[Qint[2], bool], Tuple[bool, Qint[2]]], b: bool) -> Tuple[Tuple[bool, Qint[2]], bool, Qint[2]]:\n    return ((a[0][1], a[1][1]), b, a[0][0])"),
             ("nested", "def test(a: Qlist[Tuple[bool, Qint[2]], 2]) -> Tuple[Qint[2], Tuple[bool, bool]]:\n    return (a[1][1], (a[0][0], a[1][0]))"),
             # a homogeneous container of tuples inside another tuple (the elements are wider than one bit)
             ("nested", "def test(a: Tuple[bool, bool], b: Qint[2]) -> Tuple[Qlist[Tuple[bool, bool], 2], Qint[2]]:\n    return ([a, (a[1], a[0])], b)"),
             ("nested", "def test(a: bool, b: Qint[2]) -> Tuple[Qint[2], Qlist[Tuple[bool, Qint[2]], 2], bool]:\n    return (b, [(a, b), (not a, b + 1)], a)"),
             ("nested", "def test(a: Tuple[Qlist[Tuple[bool, bool], 2], Qint[2]]) -> Tuple[Qint[2], Qlist[Tuple[bool, bool], 2]]:\n    return (a[1], a[0])"),
             ("wide", "def test(a: Qint[12]) -> Qint[12]:\n    return a << 1"),
             ("wide", "def test(a: Qint[8], b: Qint[4]) -> Qint[12]:\n    return a + b"),
             ("mixed-width", "def test(a: Qint[2], b: Qint[4], c: Qint[2]) -> Qint[4]:\n    return a + b + c"),
             ("return-name", "def test(a: Tuple[Qint[2], bool]) -> Tuple[Qint[2], bool]:\n    return a"),
             ("return-name", "def test(a: Tuple[bool, bool]) -> Tuple[bool, bool]:\n    return a"),
             # return bits that share qubits / constants: the return width reaches (or exceeds) the number of qubits
             ("shared-bits", "def test(a: bool) -> Qint[4]:\n    return 5 if a else 10"),
             ("shared-bits", "def test(a: bool) -> Tuple[bool, bool, bool]:\n    return (a, True, True)"),
             ("shared-bits", "def test(a: bool, b: bool) -> Tuple[bool, bool, bool, bool]:\n    return (a, b, a, not b)"),
             ("shared-bits", "def test(a: Qint[2]) -> Tuple[Qint[2], Qint[2], bool]:\n    return (a, a, a[0])"),
             ("shared-bits", "def test(a: bool) -> Qint[8]:\n    return 170 if a else 85"),
             ("shared-bits", "def test(a: bool) -> Tuple[bool, bool]:\n    return (a, a)")]
    nvals = 24 if tier == "quick" else 128
    rebind = [("rebind-fast", "def test(a: bool, b: bool) -> bool:\n    a = a and b\n    return a"),
              ("rebind-fast", "def test(a: Qint[2], b: Qint[2]) -> Qint[2]:\n    a = a + b\n    return a"),
              ("rebind-fast", "def test(a: bool, b: bool) -> Tuple[bool, bool]:\n    b = not b\n    a = a ^ b\n    return (a, b)"),
              ("rebind-fast", "def test(a: Qint[2], b: bool) -> Qint[2]:\n    for i in range(2):\n        a = a + 1\n    b = a > 1\n    return a if b else a + 1")]
    srcs += rebind
    jobs = [dict(src=s, seed=seed * 100003 + i, nvals=nvals, fast=(o == "rebind-fast")) for i, (o, s) in enumerate(srcs)]
    res = progs.run_pool(task, jobs)
    known = C.known_findings(PID)
    kf = [f for f in known if f.get("id") == "return-tuple-name"]
    status = {}
    cases, ncases, distinct = [], 0, set()
    impl_fail = 0
    for (origin, src), r in zip(srcs, res):
        status[r["status"]] = status.get(r["status"], 0) + 1
        if r["status"] in ("ret-unnamed", "output_qubits-raise"):
            flat = [f"_ret.{i}" for i in range(len(r.get("ret", [])))]
            if kf and r["status"] == "ret-unnamed" and r.get("names") == flat and any(b.count(".") >= 2 for b in r["ret"]):
                chk.known(kf[0], f"output_qubits cannot be formed: declared return bits {r['ret']} are never defined ({src!r})")
            else:
                impl_fail += 1
                chk.violation("output qubits cannot be reported for an accepted function", dict(source=src, detail=r))
            continue
        if r["status"] != "ok":
            continue
        for p in r["problems"][:3]:
            impl_fail += 1
            chk.violation("encode -> circuit -> decode does not return the function's value", dict(source=src, problem=p))
        for c in r["cases"]:
            cid = len(cases)
            cases.append((cid, r, c, src))
            distinct.add((src, c["repr"]))
    files = []
    for ci in range(0, len(cases), 400):
        chunk = cases[ci:ci + 400]
        enc = C.clist(["(%s, (%s, %s, %s))" % (C.cN(cid), C.clist(r["arg_ty"]), C.clist(c["vals"]),
                                                 C.copt(C.cbools([ch == "1" for ch in c["enc"]])))
                       for cid, r, c, _ in chunk])
        dec = C.clist(["(%s, (%s, %s, %s))" % (C.cN(cid), r["ret_ty"], C.cbools([ch == "1" for ch in c["reading"]]), C.copt(c["dec"]))
                       for cid, r, c, _ in chunk if c["dec"] is not None])
        files.append((f"rt_{ci}", C.COQ_HEADER + "From QV Require Import Bits M_Codec Chk_Codec.\nLocal Open Scope N_scope.\n"
                      + f"Definition enc : list (N * (list ty * list val * option (list bool))) := {enc}.\n"
                      + f"Definition dec : list (N * (ty * list bool * option val)) := {dec}.\n"
                      + "Eval vm_compute in (chk_encode enc).\nEval vm_compute in (chk_decode dec).\n"))
    out = C.run_cases(PID, files)
    mism = []
    for name, (rc, so, se) in out.items():
        if rc != 0:
            mism.append(dict(file=name, error=(so + se)[-1200:]))
            continue
        for which, v in zip(("encode_input", "decode_output"), C.parse_results(so)):
            ids = C.parse_N_list(v)
            for i in ids[:5]:
                _, r, c, src = cases[i]
                mism.append(dict(what=which, source=src, values=c["repr"], enc=c["enc"], reading=c["reading"], decoded=c["dec"]))
    if mism and not impl_fail:
        chk.broken("codec model (M_Codec.encode_input / decode_output) and implementation differ", mism[:8])
    chk.coverage.update(
        evaluations=len(cases), distinct_nontrivial=len(distinct), programs=status.get("ok", 0),
        rule="suite programs + structural templates + generated signatures with nested Tuple/Qlist/Qmatrix arguments and tuple results; "
             "per program random argument values; each case = encode_input string, circuit run on it, output_qubits read, decode_output; "
             "distinct = distinct (source, argument values)",
        compile_status=status, model_mismatches=len(mism), impl_failures=impl_fail,
        traces_validated_against_impl=len(cases), exhaustive=False)
    if cases:
        chk.samples = [dict(source=cases[0][3], values=cases[0][2]["repr"], encoded=cases[0][2]["enc"], reading=cases[0][2]["reading"]),
                       dict(source=cases[-1][3], values=cases[-1][2]["repr"], encoded=cases[-1][2]["enc"], reading=cases[-1][2]["reading"])]
    chk.assumptions = ["the circuit is run by the harness's classical simulator on the basis state spelled by encode_input (qubit k <- character len-1-k)",
                       "the expected result is the value of the function's own return expressions (their agreement with the Python source is property C01)"]
    return chk.finish(obl)
