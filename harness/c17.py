"""C17 — command-line tools print what the library computes.

py2bexp.main() and py2qasm.main() are run IN-PROCESS (worker processes of this
harness) with patched sys.argv / sys.stdin / sys.stdout; the module-level
helpers of py2bexp (to_cnf, to_anf, to_dnf, to_nnf, convert_to_dimacs,
convert_to_bool_expression) are wrapped by recorders for the duration of a call
so that the oracle results and the enumeration order of the free symbols are
observed.  /repo is never modified.  The printed text is judged (a) directly in
Python on every assignment of the argument bits and (b) by the Coq functions of
Chk_Dimacs.v (truth tables by vm_compute, the model of the fixed extraction)."""
import collections
import io
import itertools
import json
import os
import random
import re
import shutil
import signal
import sys
import tempfile

from . import common as C
from . import gen, progs
from .ser import (SerError, SymTab, defs_coq, defs_eval, exprs_to_ir, ir_coq, ir_eval, ir_str,
                  ir_syms, to_ir)

PID = "C17"
MAX_TT = 12
WARNING = "Warning: DIMACS format is only supported for CNF form. Converting to CNF."
HEADER = "from typing import Tuple\nfrom qlasskit import qlassf, Qint, Qint2, Qint4, Qlist\n\n"
FORMS = [None, "anf", "cnf", "dnf", "nnf"]
FMTS = ["sympy", "dimacs"]
# identifiers whose code-point order (upper < '_' < lower) differs from any natural order
NAMES = ["alpha", "beta", "gamma", "delta", "kappa", "omega", "zeta", "mu", "nu", "Zed", "Beta",
         "_under", "a_fun", "b2", "b10", "theta", "Omega", "xi", "rho", "eta"]

# (signature, body): small functions, every one with at most 8 argument bits
POOL = [
    ("(a: bool) -> bool", "return a"),
    ("(a: bool) -> bool", "return not a"),
    ("(a: bool, b: bool) -> bool", "return a or b"),
    ("(a: bool, b: bool) -> bool", "return a and b"),
    ("(a: bool, b: bool) -> bool", "return not a or b"),
    ("(a: bool, b: bool, c: bool) -> bool", "return a or b or not c"),
    ("(a: bool, b: bool, c: bool) -> bool", "return not a or not b or c"),
    ("(a: bool, b: bool, c: bool) -> bool", "return (a or not b or c) and (not a or b or not c)"),
    ("(a: bool, b: bool, c: bool, d: bool) -> bool", "return (a or b or not c) and (not b or c or d) and (a or not d)"),
    ("(x: bool, y: bool, z: bool) -> bool", "return (x or y or not z) and (not y or z)"),
    ("(a: bool, b: bool) -> bool", "return True"),
    ("(a: bool) -> bool", "return False"),
    ("(a: bool, b: bool) -> bool", "return a ^ b"),
    ("(a: bool, b: bool, c: bool) -> bool", "return (a and b) if c else (a or b)"),
    ("(a: bool, b: bool, c: bool) -> bool", "return a and not b and c"),
    ("(a: Qint[2], b: Qint[2]) -> bool", "return a > b"),
    ("(a: Qint[2], b: Qint[2]) -> bool", "return a == b"),
    ("(a: Qint[2], b: Qint[2]) -> bool", "return a != b"),
    ("(a: Qint[4], b: Qint[4]) -> bool", "return a > b"),
    ("(a: Qint[4], b: Qint[4]) -> bool", "return a == b"),
    ("(a: Qint[2], b: Qint[2]) -> Qint[2]", "return a + b"),
    ("(a: Qint[2]) -> Qint[2]", "return a"),
    ("(a: Qint[2]) -> Qint[2]", "return a + 1"),
    ("(a: Qint[2], b: bool) -> Tuple[bool, bool]", "return (a[0] and b, a[1] or b)"),
    ("(a: bool, b: bool, c: bool) -> Tuple[bool, bool]", "d = a and b\n    return (d, d ^ c)"),
    ("(a: Qint[3]) -> bool", "return a < 5"),
    ("(a: Qint[4]) -> bool", "return a >= 9"),
    ("(a: Qint[2], b: Qint[2], c: Qint[2]) -> bool", "return a < b and b < c"),
    ("(a: Qint[2], b: Qint[2]) -> Qint[4]", "return a * b"),
    ("(a: Qint[3], b: Qint[2]) -> bool", "return a * b == 6"),
    ("(a: Qint[2], b: Qint[2]) -> bool", "return a * b + a == 6"),
    ("(a: Qint[4], b: Qint[2]) -> Qint[4]", "return a - b + 3"),
    ("(a: Qlist[bool, 3]) -> bool", "return a[0] or a[1] or not a[2]"),
    # return types wider than the value: constant return bits next to non-constant ones
    ("(a: bool) -> Qint[2]", "return 1 if a else 0"),
    ("(a: Qint[2]) -> Qint[4]", "return a + 1"),
    ("(a: bool, b: bool) -> Qint[2]", "return 2 if (a and b) else 3"),
    ("(a: Qint[2]) -> Qint[4]", "return a"),
    ("(a: bool, b: bool) -> Tuple[bool, bool, bool]", "return (a or b, True, not a)"),
    ("(a: bool, b: bool) -> Tuple[bool, bool]", "return (a ^ b, False)"),
]


class _Timeout(Exception):
    pass


def _alarm(signum, frame):
    raise _Timeout()


# ------------------------------------------------------------------ printed syntax
_TOK = re.compile(r"\s*(?:(?P<name>[A-Za-z_][A-Za-z0-9_]*(?:\.[A-Za-z0-9_]+)*)|(?P<op>[~&|^(),]))")


def parse_printed(text):
    """Parse sympy's str() of a boolean expression (operators ~ & ^ |, parentheses,
    True/False, names possibly dotted, function forms ITE/Xor/And/Or/Not/Implies)
    into the IR of ser.py.  Python operator precedence (~ > & > ^ > |); sympy
    parenthesises every mixed use, the harness cross-checks the parse per call."""
    toks, pos = [], 0
    text = text.strip()
    while pos < len(text):
        m = _TOK.match(text, pos)
        if not m or m.end() == pos:
            raise SerError(f"cannot tokenise printed expression at {text[pos:pos + 20]!r}")
        toks.append(("name", m.group("name")) if m.group("name") else ("op", m.group("op")))
        pos = m.end()
        while pos < len(text) and text[pos].isspace():
            pos += 1
    i = [0]

    def peek():
        return toks[i[0]] if i[0] < len(toks) else (None, None)

    def eat(kind, val=None):
        k, v = peek()
        if k != kind or (val is not None and v != val):
            raise SerError(f"printed expression: expected {val or kind}, found {v!r}")
        i[0] += 1
        return v

    def p_or():
        xs = [p_xor()]
        while peek() == ("op", "|"):
            eat("op")
            xs.append(p_xor())
        return xs[0] if len(xs) == 1 else ("o", xs)

    def p_xor():
        xs = [p_and()]
        while peek() == ("op", "^"):
            eat("op")
            xs.append(p_and())
        return xs[0] if len(xs) == 1 else ("x", xs)

    def p_and():
        xs = [p_un()]
        while peek() == ("op", "&"):
            eat("op")
            xs.append(p_un())
        return xs[0] if len(xs) == 1 else ("a", xs)

    def p_un():
        if peek() == ("op", "~"):
            eat("op")
            return ("n", p_un())
        return p_atom()

    def p_atom():
        k, v = peek()
        if (k, v) == ("op", "("):
            eat("op")
            e = p_or()
            eat("op", ")")
            return e
        if k != "name":
            raise SerError(f"printed expression: unexpected {v!r}")
        eat("name")
        if peek() == ("op", "("):
            eat("op")
            args = [p_or()]
            while peek() == ("op", ","):
                eat("op")
                args.append(p_or())
            eat("op", ")")
            if v == "ITE" and len(args) == 3:
                return ("i",) + tuple(args)
            if v == "Implies" and len(args) == 2:
                return ("m",) + tuple(args)
            if v == "Not" and len(args) == 1:
                return ("n", args[0])
            if v in ("And", "Or", "Xor"):
                return ({"And": "a", "Or": "o", "Xor": "x"}[v], args)
            raise SerError(f"printed expression: function form {v}/{len(args)}")
        if v == "True":
            return ("c", True)
        if v == "False":
            return ("c", False)
        return ("s", v)

    e = p_or()
    if i[0] != len(toks):
        raise SerError(f"printed expression: trailing {toks[i[0]:][:3]!r}")
    return e


def parse_dimacs(text):
    """-> (nvars, nclauses, clauses, n_warning_lines); raises SerError on any line that
    is neither a comment, the problem line, a clause line, blank, nor the tool's own
    warning line (tolerated before the problem line and counted)."""
    header, clauses, warn = None, [], 0
    for ln in text.split("\n"):
        s = ln.strip()
        if not s:
            continue
        if s == WARNING and header is None:
            warn += 1
            continue
        if s.startswith("c ") or s == "c":
            continue
        m = re.fullmatch(r"p\s+cnf\s+(\d+)\s+(\d+)", s)
        if m:
            if header is not None:
                raise SerError("DIMACS: two problem lines")
            header = (int(m.group(1)), int(m.group(2)))
            continue
        if header is None:
            raise SerError(f"DIMACS: line before the problem line: {s[:60]!r}")
        try:
            ints = [int(t) for t in s.split()]
        except ValueError:
            raise SerError(f"DIMACS: clause line {s[:60]!r}")
        if not ints or ints[-1] != 0 or 0 in ints[:-1]:
            raise SerError(f"DIMACS: clause line {s[:60]!r}")
        clauses.append(ints[:-1])
    if header is None:
        raise SerError("DIMACS: no problem line")
    return header[0], header[1], clauses, warn


# ------------------------------------------------------------------ truth tables (Python ints)
def _var_tt(n, i):
    t = 0
    for x in range(1 << n):
        if (x >> i) & 1:
            t |= 1 << x
    return t


def ir_tt(ir, n, idx, vt, mask):
    k = ir[0]
    if k == "c":
        return mask if ir[1] else 0
    if k == "s":
        return vt[idx[ir[1]]]  # KeyError: not an argument bit
    if k == "n":
        return mask & ~ir_tt(ir[1], n, idx, vt, mask)
    if k == "a":
        r = mask
        for a in ir[1]:
            r &= ir_tt(a, n, idx, vt, mask)
        return r
    if k == "o":
        r = 0
        for a in ir[1]:
            r |= ir_tt(a, n, idx, vt, mask)
        return r
    if k == "x":
        r = 0
        for a in ir[1]:
            r ^= ir_tt(a, n, idx, vt, mask)
        return r
    if k == "i":
        c = ir_tt(ir[1], n, idx, vt, mask)
        return (c & ir_tt(ir[2], n, idx, vt, mask)) | (mask & ~c & ir_tt(ir[3], n, idx, vt, mask))
    if k == "m":
        return (mask & ~ir_tt(ir[1], n, idx, vt, mask)) | ir_tt(ir[2], n, idx, vt, mask)
    raise SerError(f"IR node {k}")


def rets_tt(exprs, inputs, rets):
    """truth table of 'every return bit true' over the argument bits (sequential definitions)."""
    n = len(inputs)
    mask = (1 << (1 << n)) - 1
    vt = [_var_tt(n, i) for i in range(n)]
    idx = {b: i for i, b in enumerate(inputs)}
    for name, ir in exprs:
        t = ir_tt(ir, n, idx, vt, mask)
        if name not in idx:
            idx[name] = len(vt)
            vt.append(t)
        else:
            vt[idx[name]] = t
    r = mask
    for s in rets:
        r &= vt[idx[s]]
    return r, mask, vt


def clauses_tt(clauses, numbering, vt, mask):
    r = mask
    for c in clauses:
        o = 0
        for l in c:
            t = vt[numbering[abs(l) - 1]]
            o |= t if l > 0 else (mask & ~t)
        r &= o
    return r


def first_bit(t):
    return (t & -t).bit_length() - 1


# ------------------------------------------------------------------ the worker
_INFO_CACHE = {}


def _safe_ir(e):
    try:
        return to_ir(e)
    except SerError as ex:
        return ("err", str(ex))


def _fun_info(src, compiler=None, qasm=False):
    """Independent view of one function of the script: the library called directly
    (not through the tools) on the function's own source."""
    key = (src, compiler, qasm)
    if key in _INFO_CACHE:
        return _INFO_CACHE[key]
    from qlasskit import qlassf
    from qlasskit.boolopt.bool_optimizer import merge_expressions

    qf = qlassf(src)
    info = dict(inputs=[b for a in qf.args for b in a.bitvec], exprs=exprs_to_ir(qf.expressions))
    names = []
    for nme, _ in info["exprs"]:
        if C.is_ret_name(nme) and nme not in names:
            names.append(nme)
    info["rets"] = names
    if qasm:
        from qlasskit.qcircuit import exporter_qasm
        try:
            import contextlib
            with contextlib.redirect_stdout(io.StringIO()):  # the experimental recompiler prints debug lines
                qf.compile(compiler=compiler)
            v3 = qf.export("qasm")
            v2 = exporter_qasm.QasmExporter(version=2).export(qf.circuit(), mode="circuit")
            info["qasm"] = {3: v3, 2: v2}
            info["num_qubits"] = qf.circuit().num_qubits
        except BaseException as e:  # noqa
            info["qasm_exc"] = f"{type(e).__name__}: {e}"[:200]
    _INFO_CACHE[key] = info
    return info


# scripts in which an earlier function object stays reachable under ANOTHER module-level name while its
# def name is re-used: the entry point names what the script binds to that name at the end
PRELUDES = {
    ("sel",): "@qlassf\ndef sel(a: bool, b: bool) -> bool:\n    return a and not b\n\nfirst = sel\n\n",
    ("pick", "aaa"): "@qlassf\ndef pick(x: bool, y: bool, z: bool) -> bool:\n    return x and y and z\n\nearly = pick\n\n",
}


def make_script(funcs):
    """Every other function is created with the string form name = qlassf(src) instead of the decorator."""
    parts = [PRELUDES.get(tuple(n for n, _ in funcs), "")]
    for i, (nme, src) in enumerate(funcs):
        if (len(nme) + i) % 3 == 1:
            parts.append(f"{nme} = qlassf({src!r})\n")
        else:
            parts.append(f"@qlassf\n{src}\n")
    return HEADER + "\n".join(parts)


def expected_name(task):
    names = [n for n, _ in task["funcs"]]
    e = task.get("entry")
    if e:
        return e if e in names else None
    return sorted(names)[-1] if names else None  # getmembers order, last (model: M_Dimacs.select)


def invoke(task):
    """Run one CLI invocation; returns a plain-data record."""
    from qlasskit.tools import py2bexp, py2qasm

    rec = dict(task=task, problems=[], calls={})
    script = make_script(task["funcs"])
    tmpd = tempfile.mkdtemp(prefix="c17_")
    old = (sys.argv, sys.stdin, sys.stdout, sys.stderr, tempfile.tempdir)
    mod = py2bexp if task["tool"] == "bexp" else py2qasm
    argv = ["tool"]
    stdin = ""
    if task["inp"] == "file":
        p = os.path.join(tmpd, "script_in.py")
        with open(p, "w") as f:
            f.write(script)
        argv += ["-i", p]
    else:
        stdin = script
    if task.get("entry") is not None:
        argv += ["-e", task["entry"]]
    outp = os.path.join(tmpd, "out.txt")
    if task["out"] == "file":
        argv += ["-o", outp]
    if task["tool"] == "bexp":
        if task.get("form"):
            argv += ["-f", task["form"]]
        if task.get("fmt") and (task["fmt"] != "sympy" or task.get("explicit_fmt")):
            argv += ["-t", task["fmt"]]
    else:
        if task.get("compiler"):
            argv += ["-c", task["compiler"]]
        if task.get("qver"):
            argv += ["-q", task["qver"]]
    rec["argv"] = argv[1:]
    calls = dict(conv=[], dimacs=[], oracle=[], quasm=[])
    saved = {}

    def mk_oracle(name):
        orig = getattr(py2bexp, name)

        def w(e, *a, **k):
            d = dict(fn=name, inp=_safe_ir(e), out=None)
            calls["oracle"].append(d)
            r = orig(e, *a, **k)
            d["out"] = _safe_ir(r)
            return r
        return orig, w

    if task["tool"] == "bexp":
        for nme in ("to_cnf", "to_anf", "to_dnf", "to_nnf"):
            saved[nme], w = mk_oracle(nme)
            setattr(py2bexp, nme, w)
        o_conv, o_dim = py2bexp.convert_to_bool_expression, py2bexp.convert_to_dimacs
        saved["convert_to_bool_expression"], saved["convert_to_dimacs"] = o_conv, o_dim

        def conv(qf, form):
            d = dict(name=qf.name, form=form, exprs=exprs_to_ir(qf.expressions),
                     inputs=[b for a in qf.args for b in a.bitvec], oracle_from=len(calls["oracle"]))
            calls["conv"].append(d)
            r = o_conv(qf, form)
            d["result"], d["text"] = _safe_ir(r), str(r)
            return r

        def dim(expr):
            d = dict(expr=_safe_ir(expr), order=[getattr(s, "name", str(s)) for s in expr.free_symbols],
                     oracle_from=len(calls["oracle"]))
            calls["dimacs"].append(d)
            r = o_dim(expr)
            d["text"] = r
            return r
        py2bexp.convert_to_bool_expression, py2bexp.convert_to_dimacs = conv, dim
    else:
        o_q = py2qasm.convert_to_quasm
        saved["convert_to_quasm"] = o_q

        def quasm(qf, compiler="internal", version=3):
            calls["quasm"].append(dict(name=qf.name, compiler=compiler, version=version))
            return o_q(qf, compiler=compiler, version=version)
        py2qasm.convert_to_quasm = quasm

    out, err = io.StringIO(), io.StringIO()
    exc = None
    signal.signal(signal.SIGALRM, _alarm)
    signal.alarm(int(task.get("timeout", 120)))
    try:
        sys.argv, sys.stdin, sys.stdout, sys.stderr = argv, io.StringIO(stdin), out, err
        tempfile.tempdir = tmpd  # the tools leak qlassf_*.py: keep the leak inside our directory
        mod.main()
    except _Timeout:
        exc = "timeout"
    except BaseException as e:  # noqa  (SystemExit included)
        exc = f"{type(e).__name__}: {e}"[:300]
    finally:
        signal.alarm(0)
        sys.argv, sys.stdin, sys.stdout, sys.stderr, tempfile.tempdir = old
        for k, v in saved.items():
            setattr(mod, k, v)
    rec["stdout"], rec["stderr"], rec["exc"] = out.getvalue(), err.getvalue(), exc
    rec["file"] = open(outp).read() if os.path.exists(outp) else None
    rec["leaked"] = len([f for f in os.listdir(tmpd) if f.startswith("qlassf_")])
    rec["calls"] = calls
    try:
        signal.alarm(int(task.get("timeout", 120)))
        judge(rec)
    except _Timeout:
        rec["problems"].append(dict(kind="harness", what="timeout while judging"))
    except SerError as e:
        rec["problems"].append(dict(kind="harness", what=f"serialisation: {e}"))
    finally:
        signal.alarm(0)
        shutil.rmtree(tmpd, ignore_errors=True)
    return rec


def _prob(rec, kind, what, **kw):
    rec["problems"].append(dict(kind=kind, what=what, **kw))


def _asg(inputs, x):
    return {b: (x >> i) & 1 for i, b in enumerate(inputs)}


def judge(rec):
    """The property, tested directly on what the tool printed."""
    task = rec["task"]
    funcs = dict(task["funcs"])
    want_name = expected_name(task)
    rec["expected_name"] = want_name
    text = rec["file"] if task["out"] == "file" else rec["stdout"]
    rec["text"] = text
    sel = rec["calls"]["conv"] if task["tool"] == "bexp" else rec["calls"]["quasm"]
    rec["observed_name"] = sel[0]["name"] if sel else None
    if rec["exc"] == "timeout":
        rec["timed_out"] = True  # machine load, not a property failure: counted
        return
    if want_name is None:
        # unknown entry point: nothing selected, a message on stderr, nothing printed
        if sel or rec["exc"] or "No qlassf function found" not in rec["stderr"] or (rec["stdout"].strip() or rec["file"]):
            _prob(rec, "entry", "an entry point naming no function of the script did not produce 'No qlassf function found'",
                  exc=rec["exc"], stdout=rec["stdout"][:200], stderr=rec["stderr"][:200])
        return
    if rec["observed_name"] != want_name:
        if task.get("entry") or len(funcs) == 1:
            _prob(rec, "entry", f"selected function {rec['observed_name']!r}, expected {want_name!r}")
        else:
            _prob(rec, "model-entry", f"default selection {rec['observed_name']!r}, model says {want_name!r}")
        return
    src = funcs[want_name]
    if task["tool"] == "qasm":
        return judge_qasm(rec, src, text)
    info = _fun_info(src)
    rec["info"] = info
    inputs, n = info["inputs"], len(info["inputs"])
    if rec["exc"]:
        # sympy refuses simplify=True above 8 "predicates"; the constant True of an
        # algebraic normal form counts as one, so 8 argument bits + anf is refused too
        sympy_limit = "more than 8 variables" in rec["exc"]
        if not (sympy_limit and (n > 8 or (n == 8 and task.get("form") == "anf" and task.get("fmt") == "dimacs"))):
            _prob(rec, "raise", f"the tool raised {rec['exc']}", n_argument_bits=n)
        else:
            rec["rejected"] = rec["exc"]
        return
    if task["out"] == "file":
        rest = rec["stdout"].strip()
        if rest not in ("", WARNING):
            _prob(rec, "output", f"output file requested but stdout carries {rest[:80]!r}")
    if text is None:
        _prob(rec, "output", "no output file written")
        return
    if n > MAX_TT:
        rec["too_large"] = True
        return
    want, mask, vt = rets_tt(info["exprs"], inputs, info["rets"])
    idx = {b: i for i, b in enumerate(inputs)}
    rec["nontrivial"] = want not in (0, mask)
    if task["fmt"] == "sympy":
        lines = [l for l in text.split("\n") if l.strip()]
        if len(lines) != 1:
            _prob(rec, "output", f"expected one line, got {len(lines)}")
            return
        ir = parse_printed(lines[0])
        rec["printed_ir"] = ir
        # cross-check of the harness parser against the object the tool held
        conv = rec["calls"]["conv"][0]
        if conv.get("text") == lines[0] and conv["result"][0] != "err":
            names = sorted(ir_syms(conv["result"]) | ir_syms(ir))
            if len(names) <= 14:
                m2 = (1 << (1 << len(names))) - 1
                vt2 = [_var_tt(len(names), i) for i in range(len(names))]
                ix2 = {b: i for i, b in enumerate(names)}
                if ir_tt(ir, len(names), ix2, vt2, m2) != ir_tt(conv["result"], len(names), ix2, vt2, m2):
                    _prob(rec, "harness", "harness parser disagrees with the sympy object that was printed", text=lines[0][:200])
                    return
        foreign = sorted(s for s in ir_syms(ir) if s not in idx)
        if foreign:
            _prob(rec, "foreign-symbol", f"printed expression mentions {foreign[:6]}, not argument bits", printed=lines[0][:300])
            return
        got = ir_tt(ir, n, idx, vt[:n], mask)
        if got != want:
            x = first_bit(got ^ want)
            _prob(rec, "not-equivalent", "printed expression differs from the conjunction of the return bits",
                  assignment=_asg(inputs, x), printed_value=(got >> x) & 1, return_bits_all_true=(want >> x) & 1,
                  printed=lines[0][:300])
        return
    # ---- DIMACS
    try:
        nv, nc, clauses, warn = parse_dimacs(text)
    except SerError as e:
        _prob(rec, "output", str(e), text=text[:200])
        return
    rec["dimacs"] = (nv, nc, clauses)
    rec["warning_lines"] = warn
    if nc != len(clauses):
        _prob(rec, "header", f"header says {nc} clauses, {len(clauses)} printed", text=text[:200])
    lits = [abs(l) for c in clauses for l in c]
    if any(l > nv for l in lits):
        _prob(rec, "header", f"literal {max(lits)} exceeds the declared {nv} variables", text=text[:200])
        return
    dc = rec["calls"]["dimacs"]
    order = dc[-1]["order"] if dc else None
    rec["order"] = order
    numbering = None
    if order is not None and len(order) == nv and len(set(order)) == nv and all(s in idx for s in order):
        numbering = [idx[s] for s in order]
        if clauses_tt(clauses, numbering, vt, mask) != want:
            numbering = None
    if numbering is None and nv <= 6 and nv <= n:
        for perm in itertools.permutations(range(n), nv):
            if clauses_tt(clauses, perm, vt, mask) == want:
                numbering = list(perm)
                rec["numbering_found_by_search"] = True
                break
    if numbering is None:
        if order is not None and any(s not in idx for s in order):
            _prob(rec, "foreign-symbol", f"DIMACS numbers the symbols {order}, not all argument bits", text=text[:200])
            return
        if order is not None and len(order) == nv and all(s in idx for s in order):
            num0 = [idx[s] for s in order]
            got = clauses_tt(clauses, num0, vt, mask)
            x = first_bit(got ^ want)
            _prob(rec, "dimacs-models", "no one-to-one numbering gives the clause set the function's satisfying assignments",
                  numbering={k + 1: s for k, s in enumerate(order)}, assignment=_asg(inputs, x),
                  clauses_satisfied=(got >> x) & 1, return_bits_all_true=(want >> x) & 1, text=text[:300])
        else:
            _prob(rec, "dimacs-models", "no one-to-one numbering gives the clause set the function's satisfying assignments",
                  order=order, text=text[:300])
        return
    rec["numbering"] = numbering


def judge_qasm(rec, src, text):
    task = rec["task"]
    compiler = task.get("compiler") or "internal"
    ver = 2 if task.get("qver") == "2.0" else 3
    info = _fun_info(src, compiler, True)
    q = rec["calls"]["quasm"][0]
    if (q["compiler"], q["version"]) != (compiler, ver):
        _prob(rec, "qasm-flags", f"flags passed on as {q['compiler']}/{q['version']}, requested {compiler}/{ver}")
    if "qasm_exc" in info:
        if not rec["exc"]:
            _prob(rec, "qasm", f"the library raises {info['qasm_exc']} for this compiler, the tool printed something")
        rec["rejected"] = info["qasm_exc"]
        return
    if rec["exc"]:
        _prob(rec, "raise", f"the tool raised {rec['exc']}")
        return
    v3, v2 = info["qasm"][3], info["qasm"][2]
    # the two versions differ by the header lines only
    if v2 != v3.replace("OPENQASM 3.0;\n\n", 'OPENQASM 2.0;\n\ninclude "qelib1.inc";\n\nqreg q[%d];\n' % info["num_qubits"], 1):
        _prob(rec, "qasm", "QASM 2 export is not the QASM 3 export with the version-2 header")
    want = info["qasm"][ver]
    got = text
    if task["out"] == "stdout":
        if not (got or "").endswith("\n"):
            _prob(rec, "qasm", "stdout does not end with a newline")
        got = (got or "")[:-1]
    rec["nontrivial"] = want.count("\n\t") >= 1
    if got != want:
        _prob(rec, "qasm", "printed QASM differs from the export of the selected function",
              printed=(got or "")[:300], expected=want[:300])


# ------------------------------------------------------------------ case generation
def gen_functions(rng, k, names):
    out = []
    for nme in names[:k]:
        if rng.random() < 0.3:
            src = gen.bool_program(rng, nvars=rng.randint(2, 5), depth=rng.randint(2, 3)).replace("def test(", f"def {nme}(", 1)
        else:
            sig, body = rng.choice(POOL)
            src = f"def {nme}{sig}:\n    {body}"
        out.append((nme, src))
    return out


def gen_tasks(tier, seed):
    rng = random.Random(seed)
    n_scripts, per = (12, 10) if tier == "quick" else (125, 16)
    tasks = []
    combos = [(fo, fm) for fo in FORMS for fm in FMTS]
    ci = 0
    # fixed scripts first: the suite's script, and one function per interesting shape
    fixed = [
        [("a", "def a(b: bool) -> bool:\n    return not b"),
         ("c", "def c(x: bool, y: bool, z: bool) -> bool:\n    return (x or y or not z) and (not y or z)")],
        [("zeta", "def zeta(a: bool, b: bool, c: bool) -> bool:\n    return a or b or not c"),
         ("alpha", "def alpha(a: Qint[4], b: Qint[4]) -> bool:\n    return a > b")],
        [("solo", "def solo(a: bool, b: bool) -> bool:\n    return a or b")],
        [("sel", "def sel(a: bool, b: bool) -> bool:\n    return a or b")],
        # expressions with complementary terms under a Xor / Not (sympy's to_anf is wrong on ~(a ^ ~a))
        [("Zed", "def Zed(a: bool, b: bool, c: bool) -> bool:\n    t = (((not a) and b) and c)\n    return (not (c ^ (not c)))"),
         ("_under", "def _under(a: bool, b: bool, c: bool, d: bool, e: bool) -> bool:\n    y = e\n    u = (d and a and (not d))\n    return (((a == (not a))) and (u or y)) or ((not u) and a)")],
        [("cmpl", "def cmpl(a: bool, e: bool) -> bool:\n    return (a == (not a)) and e or (a != (not a)) and not e")],
        [("pick", "def pick(x: bool, y: bool, z: bool) -> bool:\n    return x or (y and not z)"),
         ("aaa", "def aaa(x: bool, y: bool) -> bool:\n    return x ^ y")],
        # optimised expression lists whose intermediate symbols are defined through other intermediates
        [("mulq", "def mulq(a: Qint[3], b: Qint[2]) -> bool:\n    return a * b == 6"),
         ("subq", "def subq(a: Qint[4], b: Qint[4]) -> Qint[4]:\n    return a - b")],
        [("mad", "def mad(a: Qint[2], b: Qint[2]) -> bool:\n    return a * b + a == 6"),
         ("mchain", "def mchain(a: Qint[2], b: Qint[2]) -> bool:\n    return a * b * a == 2"),
         ("mul3", "def mul3(a: Qint[3], b: Qint[3]) -> bool:\n    return a * b == 6")],
        # a local variable whose name starts with _ret is an intermediate, not a return bit
        [("rv", "def rv(a: bool, b: bool) -> bool:\n    _retval = a or b\n    return not _retval"),
         ("rw", "def rw(a: bool, b: bool, c: bool) -> bool:\n    _retx = a and b\n    _ret0 = _retx ^ c\n    return _ret0 or _retx")],
    ]
    for si in range(n_scripts):
        if si < len(fixed):
            funcs = fixed[si]
        else:
            k = 1 + (si % 3)
            names = rng.sample(NAMES, k)
            # definition order must differ from alphabetical order when there are several
            if k > 1 and names == sorted(names):
                names = names[::-1]
            funcs = gen_functions(rng, k, names)
        names = [n for n, _ in funcs]
        entries = [None] + names
        n_bexp = per - 2
        for j in range(per):
            if len(funcs) > 1:
                entry = entries[(si + j) % len(entries)]
            else:
                entry = entries[j % 2] if j % 4 else None
            if j == per - 3 and tier != "quick" or (tier == "quick" and si % 4 == 1 and j == 0):
                entry = "no_such_function"
            io_mode = [("stdin", "stdout"), ("file", "stdout"), ("file", "file"), ("stdin", "file")][(si + j) % 4]
            t = dict(funcs=funcs, entry=entry, inp=io_mode[0], out=io_mode[1], sid=si)
            if j < n_bexp:
                fo, fm = combos[ci % len(combos)]
                ci += 1
                t.update(tool="bexp", form=fo, fmt=fm, explicit_fmt=bool((si + j) % 2))
            else:
                comp = [None, "internal", "recompiler", None, "tweedledum"][(si + j) % (5 if tier != "quick" else 4)]
                t.update(tool="qasm", compiler=comp, qver=[None, "2.0", "3.0"][(si * 2 + j) % 3])
            tasks.append(t)
    if tier == "quick":
        # both forms of the options are exercised at least once on a two-function script
        tasks.append(dict(funcs=fixed[0], entry="", inp="stdin", out="stdout", sid=0, tool="bexp", form="cnf", fmt="dimacs"))
    # identities written on both sides of == / != (sympy's to_anf is wrong on many non-NNF inputs): every form of them
    ident = [("absorb", "def absorb(a: bool, b: bool, c: bool) -> bool:\n    return ((c and (c or b)) == c) and (a != b)"),
             ("morgan", "def morgan(a: bool, b: bool, c: bool) -> bool:\n    return ((not (c and b)) == ((not c) or (not b))) and (a or c)"),
             ("distr", "def distr(a: bool, b: bool, c: bool) -> bool:\n    return ((a and (b or c)) == ((a and b) or (a and c))) and (b != c)")]
    for k, (nme, _) in enumerate(ident):
        for fm in FMTS:
            tasks.append(dict(funcs=ident, entry=nme, inp="stdin", out="stdout", sid=900 + k, tool="bexp", form="anf", fmt=fm))
        if tier != "quick":
            for fo in FORMS:
                tasks.append(dict(funcs=ident, entry=nme, inp="file", out="stdout", sid=900 + k, tool="bexp", form=fo, fmt=FMTS[0]))
    for i, t in enumerate(tasks):
        t["id"] = i
    return tasks


# ------------------------------------------------------------------ Coq cases
def cstr(s):
    if not re.fullmatch(r"[A-Za-z0-9_]*", s):
        raise SerError(f"name {s!r}")
    return f'"{s}"'


def cz(z):
    return f"({int(z)})%Z" if z < 0 else f"{int(z)}%Z"


def dimacs_tuple(d):
    nv, nc, cls = d
    return "(%s, %s, %s)" % (C.cnat(nv), C.cnat(nc), C.clist([C.clist([cz(l) for l in c]) for c in cls]))


def dimacs_coq(d):
    return "None" if d is None else f"(Some {dimacs_tuple(d)})"


def build_cases(recs):
    """-> {kind: [(id, coq_tuple_text)]}; ids are invocation ids (oracle calls: id*16+k)."""
    cases = collections.defaultdict(list)
    skipped = collections.Counter()
    for r in recs:
        t, i = r["task"], r["task"]["id"]
        names = [n for n, _ in t["funcs"]]
        try:
            ent = "None" if t.get("entry") is None else f"(Some {cstr(t['entry'])})"
            obs = "None" if r.get("observed_name") is None else f"(Some {cstr(r['observed_name'])})"
            cases["select"].append((i, f"({ent}, {C.clist([cstr(x) for x in names])}, {obs})"))
        except SerError:
            skipped["select"] += 1
        if t["tool"] != "bexp" or "info" not in r or r.get("too_large"):
            continue
        info = r["info"]
        n = len(info["inputs"])
        try:
            if "printed_ir" in r:
                st = SymTab(info["inputs"])
                d = defs_coq(info["exprs"], st)
                rets = C.clist([C.cnat(st.idx[s]) for s in info["rets"]])
                pe = ir_coq(r["printed_ir"], st, allow_new=True)
                cases["expr"].append((i, f"({C.cnat(n)}, {pe}, {d}, {rets})"))
            if "dimacs" in r and r.get("numbering") is not None:
                st = SymTab(info["inputs"])
                d = defs_coq(info["exprs"], st)
                rets = C.clist([C.cnat(st.idx[s]) for s in info["rets"]])
                dm = dimacs_tuple(r["dimacs"])
                cases["dimacs"].append((i, f"({C.cnat(n)}, {dm}, {C.clist([C.cnat(k) for k in r['numbering']])}, {d}, {rets})"))
            # the model of the clause extraction, on the oracle's CNF and the enumeration order
            for dc in r["calls"]["dimacs"]:
                orc = r["calls"]["oracle"][dc["oracle_from"]:]
                if not orc or orc[0]["fn"] != "to_cnf" or orc[0]["out"] is None or orc[0]["out"][0] == "err":
                    continue
                st = SymTab(dc["order"])
                cnf = ir_coq(orc[0]["out"], st, allow_new=True)
                order = C.clist([C.cnat(k) for k in range(len(dc["order"]))])
                obsd = None
                if "text" in dc:
                    try:
                        a, b, c, _ = parse_dimacs(dc["text"])
                        obsd = (a, b, c)
                    except SerError:
                        obsd = (0, 0, [[0]])  # unparsable: equal to no model output
                cases["model_dimacs"].append((i, f"({cnf}, {order}, {dimacs_coq(obsd)})"))
            # oracle contracts
            for k, oc in enumerate(r["calls"]["oracle"][:16]):
                if oc["out"] is None or oc["inp"][0] == "err" or oc["out"][0] == "err":
                    continue
                syms = sorted(ir_syms(oc["inp"]))
                if len(syms) > MAX_TT:
                    skipped["oracle_too_large"] += 1
                    continue
                st = SymTab(syms)
                cases["oracle"].append((i * 16 + k, "(%s, %s, %s, %s)" % (
                    C.cnat(len(syms)), ir_coq(oc["inp"], st), ir_coq(oc["out"], st, allow_new=True),
                    C.cbool(oc["fn"] == "to_cnf"))))
            # which expressions are conjoined (on the expression list the tool itself held)
            for cv in r["calls"]["conv"][:1]:
                orc = r["calls"]["oracle"][cv["oracle_from"]:]
                conj = orc[0]["inp"] if (cv["form"] in ("anf", "cnf", "dnf", "nnf") and orc) else cv.get("result")
                if conj is None or conj[0] == "err" or "merged" not in r:
                    continue
                st = SymTab(cv["inputs"])
                d = defs_coq(cv["exprs"], st)
                mg = C.clist(["(%s, %s)" % (C.cnat(st.idx[s]), ir_coq(e, st, allow_new=True)) for s, e in r["merged"]])
                rs = []
                for s, _ in cv["exprs"]:
                    if C.is_ret_name(s) and st.idx[s] not in rs:
                        rs.append(st.idx[s])
                cj = ir_coq(conj, st, allow_new=True)
                if len(cv["inputs"]) <= MAX_TT:
                    cases["conj"].append((i, f"({C.cnat(len(cv['inputs']))}, {d}, {mg}, {C.clist([C.cnat(x) for x in rs])}, {cj})"))
                if st.next <= 14:
                    cases["conj_today"].append((i, f"({C.cnat(len(cv['inputs']))}, {C.cnat(st.next)}, {d}, {cj})"))
        except SerError as e:
            skipped["ser:" + str(e)[:40]] += 1
    return cases, skipped


TYPES = dict(
    expr="(nat * bexp * defs * list nat)",
    dimacs="(nat * (nat * nat * list (list Z)) * list nat * defs * list nat)",
    model_dimacs="(bexp * list nat * option dimacs)",
    oracle="(nat * bexp * bexp * bool)",
    conj="(nat * defs * defs * list nat * bexp)",
    conj_today="(nat * nat * defs * bexp)",
    select="(option string * list string * option string)",
)
FUNS = dict(expr=["chk_expr"], dimacs=["chk_dimacs"], model_dimacs=["chk_model_dimacs", "chk_model_dimacs_today"],
            oracle=["chk_oracle"], conj=["chk_conj"], conj_today=["chk_conj_today"], select=["chk_select"])


def _bind_numerals(text):
    """Coq interprets every delimited numeral (3%nat, (-2)%Z) through the number-notation
    machinery, which dominates the time of large case files: bind each distinct numeral
    once and refer to it by name."""
    nats = sorted(set(int(m) for m in re.findall(r"\b(\d+)%nat\b", text)))
    zs = sorted(set(int(m) for m in re.findall(r"\((-?\d+)\)%Z", text)) | set(int(m) for m in re.findall(r"(?<![\w)])(\d+)%Z\b", text)))
    pre = "".join(f"Definition n_{k} := {k}%nat.\n" for k in nats)
    pre += "".join(f"Definition z_{'m' if k < 0 else ''}{abs(k)} := ({k})%Z.\n" for k in zs)
    text = re.sub(r"\b(\d+)%nat\b", lambda m: f"n_{m.group(1)}", text)
    text = re.sub(r"\((-?\d+)\)%Z", lambda m: "z_" + ("m" if m.group(1).startswith("-") else "") + m.group(1).lstrip("-"), text)
    text = re.sub(r"(?<![\w)])(\d+)%Z\b", lambda m: f"z_{m.group(1)}", text)
    return pre, text


def coq_files(cases, chunk=150):
    files = []
    for kind, lst in cases.items():
        for ci in range(0, len(lst), chunk):
            part = lst[ci:ci + chunk]
            pre, body = _bind_numerals(C.clist(["(%s, %s)" % (C.cN(i), txt) for i, txt in part]))
            txt = (C.COQ_HEADER + "From QV Require Import Bexp BexpTT M_Dimacs Chk_Dimacs.\n"
                   "Local Open Scope string_scope.\nLocal Open Scope N_scope.\n" + pre +
                   f"Definition cases : list (N * {TYPES[kind]}) := {body}.\n")
            for fn in FUNS[kind]:
                txt += f"Eval vm_compute in ({fn} cases).\n"
            files.append((f"{kind}_{ci}", txt))
    return files


def _merge_worker(rec_exprs):
    """merge_expressions (the oracle of the fixed conjunction) on the expression list the tool held."""
    from .ser import from_ir
    from sympy import Symbol
    from qlasskit.boolopt.bool_optimizer import merge_expressions
    try:
        m = merge_expressions([(Symbol(s), from_ir(e)) for s, e in rec_exprs])
        return exprs_to_ir(m)
    except BaseException as e:  # noqa
        return None


# ------------------------------------------------------------------ the check
def run(tier, seed):
    chk = C.Check(PID, tier, seed, level="proof")
    ok, log = C.coq_build()
    obl = C.prop_obligations(PID) if ok else dict(theorems=[], axioms={}, ok=False, log=log)
    if not ok or not obl["ok"]:
        chk.broken("theorems of Prop_C17.v do not check", (log + obl.get("log", ""))[-3000:])
        return chk.finish(obl)
    tasks = gen_tasks(tier, seed)
    import qlasskit.tools.py2bexp, qlasskit.tools.py2qasm, qlasskit.qcircuit.exporter_qasm  # noqa: F401 (before forking)
    recs = progs.run_pool(invoke, tasks)
    # the merge oracle, once per distinct expression list
    todo = {}
    for r in recs:
        for cv in r["calls"].get("conv", [])[:1]:
            todo.setdefault(json.dumps(cv["exprs"]), cv["exprs"])
    keys = list(todo)
    merged = dict(zip(keys, progs.run_pool(_merge_worker, [todo[k] for k in keys])))
    for r in recs:
        for cv in r["calls"].get("conv", [])[:1]:
            m = merged.get(json.dumps(cv["exprs"]))
            if m is not None:
                r["merged"] = m
    cases, skipped = build_cases(recs)
    res = C.run_cases(PID, coq_files(cases))
    coq_fail = collections.defaultdict(set)
    coq_errors = []
    for name, (rc, so, se) in res.items():
        kind = name.rsplit("_", 1)[0]
        if rc != 0:
            coq_errors.append(dict(file=name, error=(so + se)[-1200:]))
            continue
        vals = C.parse_results(so)
        if len(vals) != len(FUNS[kind]):
            coq_errors.append(dict(file=name, error=f"{len(vals)} results for {len(FUNS[kind])} evaluations"))
            continue
        for fn, v in zip(FUNS[kind], vals):
            try:
                coq_fail[fn].update(C.parse_N_list(v))
            except ValueError:
                coq_errors.append(dict(file=name, error="unparsable: " + v[:200]))

    by_id = {r["task"]["id"]: r for r in recs}
    direct = [(r, p) for r in recs for p in r["problems"]]
    harness_problems = [(r, p) for r, p in direct if p["kind"] in ("harness", "model-entry")]
    impl_problems = [(r, p) for r, p in direct if p["kind"] not in ("harness", "model-entry")]
    seen = set()
    for r, p in impl_problems:
        t = r["task"]
        src = dict(t["funcs"]).get(r.get("expected_name") or "", "")
        key = (p["kind"], src, t.get("form"), t.get("fmt"), t["tool"], p["what"][:40])
        if key in seen:
            continue
        seen.add(key)
        chk.violation(p["what"], dict(kind_of_failure=p["kind"], script=make_script(t["funcs"]), argv=r["argv"],
                                      input_via=t["inp"], selected=r.get("expected_name"),
                                      detail={k: v for k, v in p.items() if k not in ("kind", "what")}, task=t))
    # Coq-side disagreements
    prop_fns = ("chk_expr", "chk_dimacs")
    model_fns = ("chk_model_dimacs", "chk_oracle", "chk_conj", "chk_select")
    bad_ids = set(r["task"]["id"] for r, _ in impl_problems)
    for fn in prop_fns + model_fns:
        ids = sorted(coq_fail.get(fn, ()))
        if fn == "chk_oracle":
            ids = sorted(set(i // 16 for i in ids))
        unexplained = [i for i in ids if i not in bad_ids]
        if fn == "chk_select":
            # a selection the model does not predict is a failing input when the property
            # fixes the choice (named entry / single function)
            unexplained = [i for i in unexplained]
        if unexplained:
            ex = by_id[unexplained[0]]
            chk.broken(f"{fn}: the Coq side disagrees with the implementation on cases the direct test passed",
                       dict(ids=unexplained[:20], example_argv=ex["argv"], example_script=make_script(ex["task"]["funcs"]),
                            example_text=(ex.get("text") or "")[:300]))
    if coq_errors:
        chk.broken("Coq case files did not evaluate", coq_errors[:3])
    for r, p in harness_problems[:5]:
        chk.broken(p["what"], dict(argv=r["argv"], script=make_script(r["task"]["funcs"]), detail=p))

    # ---- coverage
    cnt = collections.Counter()
    distinct = set()
    for r in recs:
        t = r["task"]
        cnt[t["tool"]] += 1
        if t["tool"] == "bexp":
            cnt[f"form={t.get('form') or 'default'}"] += 1
            cnt[f"format={t.get('fmt')}"] += 1
        else:
            cnt[f"compiler={t.get('compiler') or 'default'}"] += 1
            cnt[f"qasm={t.get('qver') or 'default'}"] += 1
        cnt[f"functions={len(t['funcs'])}"] += 1
        cnt["entry=" + ("none" if t.get("entry") is None else ("named" if r.get("expected_name") else "unknown-or-empty"))] += 1
        cnt[f"io={t['inp']}->{t['out']}"] += 1
        if r.get("rejected"):
            cnt["rejected"] += 1
        if r.get("timed_out"):
            cnt["timed_out"] += 1
        if r.get("warning_lines"):
            cnt["warning_line_on_stdout_before_dimacs"] += 1
        if r.get("numbering_found_by_search"):
            cnt["numbering_found_by_search"] += 1
        if r.get("leaked"):
            cnt["leaked_temp_files"] += r["leaked"]
        if r.get("nontrivial"):
            distinct.add((make_script(t["funcs"]), tuple(r["argv"][-6:]), r.get("expected_name")))
    chk.coverage.update(
        evaluations=len(recs), distinct_nontrivial=len(distinct),
        rule="scripts with 1-3 @qlassf functions (definition order != alphabetical order) x forms {default,anf,cnf,dnf,nnf} x formats "
             "{sympy,dimacs} x entry point {none, each name, unknown, empty} x input {stdin,file} x output {stdout,file}; py2qasm x compilers x "
             "QASM versions; every printed expression / clause set is compared on ALL assignments of the argument bits (<= 12) with the "
             "conjunction of the return bits, in Python (failing-input search) and in Coq (tt_eval, vm_compute); non-trivial = the "
             "function is not constant (bexp) / the circuit has a gate (qasm); distinct = distinct (script, options, selected function)",
        distribution=dict(cnt), coq_cases={k: len(v) for k, v in cases.items()}, skipped=dict(skipped),
        coq_failing={k: len(v) for k, v in coq_fail.items() if v},
        model_of_code_as_found_disagrees=dict(dimacs=len(coq_fail.get("chk_model_dimacs_today", ())),
                                              conjunction=len(coq_fail.get("chk_conj_today", ()))),
        impl_failures=len(impl_problems), exhaustive=False, traces_validated_against_impl=len(recs),
        trusted_base=C.TRUSTED_BASE + [
            "argparse / tempfile / importlib glue of the tools: exercised in-process, not modelled",
            "sympy to_cnf/to_anf/to_dnf/to_nnf and merge_expressions: contract oracles, contract checked per recorded call",
            "harness parser of sympy's printed syntax (cross-checked per call against the printed object) and DIMACS reader",
            "recorders wrapped around py2bexp's module-level helpers during a call (enumeration order of expr.free_symbols is re-read, not intercepted)",
        ],
    )
    ex = [r for r in recs if r.get("dimacs")][:2] + [r for r in recs if r.get("printed_ir")][:1]
    chk.samples = [dict(argv=r["argv"], selected=r.get("expected_name"), text=(r.get("text") or "")[:200]) for r in ex]
    chk.assumptions = [
        "the tool's warning line 'Warning: DIMACS format is only supported for CNF form...' printed on stdout before the problem line is tolerated (counted in coverage.distribution)",
        "sympy refuses simplify=True above 8 variables: functions in the corpus have at most 8 argument bits",
        "the function selected without -e in a script of several functions is not fixed by the property; the model's choice (alphabetically greatest name) is checked as correspondence only",
    ]
    return chk.finish(obl)


def replay(path):
    d = json.load(open(path))
    t = d.get("task")
    if not t:
        print("replay file has no task")
        return 2
    t["funcs"] = [tuple(x) for x in t["funcs"]]
    r = invoke(t)
    for p in r["problems"]:
        print("PROBLEM", json.dumps(p, default=str)[:600])
    print("argv:", r["argv"], "selected:", r.get("observed_name"))
    print((r.get("text") or r["stdout"])[:600])
    return 1 if r["problems"] else 0
