"""Reference semantics for C01: the Python source itself, executed by CPython on
shadow values that carry the documented fixed-width unsigned types.

A TInt(value, width) behaves like the documented Qint of that width: results
of arithmetic take the width the documented typing gives them and wrap modulo
2^width; every wrap (or negative intermediate) sets the global `wrapped` flag,
so the caller knows whether the run stayed inside the range of every type
(then the result is simply what Python computes on plain ints) or not.
Control flow, loops, builtins, tuples are CPython's own."""
import math
from typing import get_args

CONST_WIDTHS = [2, 4, 6, 8, 12, 16]
MUL_SIZING = [2, 4, 6, 8, 12, 16]


class Unsupported(Exception):
    """The program uses something this oracle assigns no meaning to."""


class State:
    wrapped = False
    notes = []


def const_width(v):
    if v < 0:
        raise Unsupported("negative constant")
    for w in CONST_WIDTHS:
        if v < 2 ** w:
            return w
    raise Unsupported("constant too big")


def _wrap(v, w):
    if v < 0 or v >= 2 ** w:
        State.wrapped = True
    return v % (2 ** w)


def mul_width(w):
    s = 2 * w
    for c in MUL_SIZING:
        if s <= c:
            return c
    return 16


class TInt:
    __slots__ = ("v", "w")

    def __init__(self, v, w):
        self.v = int(v) % (2 ** w)
        self.w = w

    @staticmethod
    def lift(x):
        if isinstance(x, TInt):
            return x
        if isinstance(x, bool):
            raise Unsupported("bool used as integer")
        if isinstance(x, int):
            return TInt(x, const_width(x))
        raise Unsupported(f"mixing Qint with {type(x).__name__}")

    def _bin(self, o, f, width=None):
        o = TInt.lift(o)
        w = max(self.w, o.w) if width is None else width(max(self.w, o.w))
        return TInt(_wrap(f(self.v, o.v), w), w)

    def __add__(self, o):
        return self._bin(o, lambda a, b: a + b)

    def __radd__(self, o):
        return TInt.lift(o)._bin(self, lambda a, b: a + b)

    def __sub__(self, o):
        return self._bin(o, lambda a, b: a - b)

    def __rsub__(self, o):
        return TInt.lift(o)._bin(self, lambda a, b: a - b)

    def __mul__(self, o):
        if isinstance(o, TFix):
            return o.__rmul__(self)
        return self._bin(o, lambda a, b: a * b, mul_width)

    def __rmul__(self, o):
        return TInt.lift(o)._bin(self, lambda a, b: a * b, mul_width)

    def __pow__(self, k):
        if not isinstance(k, int) or isinstance(k, bool) or k < 0:
            raise Unsupported("exponent must be a constant")
        if k == 0:
            return TInt(1, const_width(1))
        r = self
        for _ in range(k - 1):
            r = r * self
        return r

    def __and__(self, o):
        return self._bin(o, lambda a, b: a & b)

    __rand__ = __and__

    def __or__(self, o):
        return self._bin(o, lambda a, b: a | b)

    __ror__ = __or__

    def __xor__(self, o):
        return self._bin(o, lambda a, b: a ^ b)

    __rxor__ = __xor__

    def __invert__(self):
        return TInt(2 ** self.w - 1 - self.v, self.w)

    def __lshift__(self, k):
        if not isinstance(k, int) or isinstance(k, bool):
            raise Unsupported("shift by a non-constant")
        return TInt(_wrap(self.v << k, self.w), self.w)

    def __rshift__(self, k):
        if not isinstance(k, int) or isinstance(k, bool):
            raise Unsupported("shift by a non-constant")
        return TInt(self.v >> k, self.w)

    def __mod__(self, o):
        o = TInt.lift(o)
        if o.v == 0 or (o.v & (o.v - 1)) != 0:
            raise Unsupported("modulo by something that is not a power of two")
        return TInt(self.v % o.v, max(self.w, o.w))

    def _cmp(self, o):
        if isinstance(o, (TFix, TChar)) or isinstance(o, (bool, float, str, tuple)):
            raise Unsupported("comparison between different kinds")
        return TInt.lift(o).v

    def __eq__(self, o):
        return self.v == self._cmp(o)

    def __ne__(self, o):
        return self.v != self._cmp(o)

    def __lt__(self, o):
        return self.v < self._cmp(o)

    def __le__(self, o):
        return self.v <= self._cmp(o)

    def __gt__(self, o):
        return self.v > self._cmp(o)

    def __ge__(self, o):
        return self.v >= self._cmp(o)

    def __hash__(self):
        return hash(self.v)

    def __index__(self):
        return self.v

    def __bool__(self):
        raise Unsupported("Qint used as a condition")

    def __repr__(self):
        return f"Qint{self.w}({self.v})"

    def __getitem__(self, i):
        if not isinstance(i, int) or i >= self.w:
            raise Unsupported("bit index")
        return bool((self.v >> i) & 1)


class TFix:
    """Qfixed with i integer and f fractional bits; n = value * 2^f."""
    __slots__ = ("n", "i", "f")

    def __init__(self, n, i, f):
        self.i, self.f = i, f
        self.n = int(n) % (2 ** (i + f))

    @property
    def value(self):
        return self.n / 2 ** self.f

    def _same(self, o):
        if isinstance(o, float):
            o = fix_const(o)
        if not isinstance(o, TFix):
            raise Unsupported("mixing Qfixed with another kind")
        if (o.i, o.f) != (self.i, self.f):
            raise Unsupported("operation between different Qfixed types")
        return o

    def __add__(self, o):
        o = self._same(o)
        return TFix(_wrap(self.n + o.n, self.i + self.f), self.i, self.f)

    __radd__ = __add__

    def __sub__(self, o):
        o = self._same(o)
        return TFix(_wrap(self.n - o.n, self.i + self.f), self.i, self.f)

    def __rsub__(self, o):
        return self._same(o).__sub__(self)

    def __mul__(self, o):
        if isinstance(o, bool) or not isinstance(o, int):
            raise Unsupported("Qfixed multiplied by a non-constant")
        if o == 0:
            return TFix(0, self.i, self.f)
        return TFix(_wrap(self.n * o, self.i + self.f), self.i, self.f)

    __rmul__ = __mul__

    def __eq__(self, o):
        return self.n == self._same(o).n

    def __ne__(self, o):
        return self.n != self._same(o).n

    def __lt__(self, o):
        return self.n < self._same(o).n

    def __le__(self, o):
        return self.n <= self._same(o).n

    def __gt__(self, o):
        return self.n > self._same(o).n

    def __ge__(self, o):
        return self.n >= self._same(o).n

    def __hash__(self):
        return hash(self.n)

    def __bool__(self):
        raise Unsupported("Qfixed used as a condition")

    def __repr__(self):
        return f"Qfixed{self.i}_{self.f}({self.value})"


QFIXED_ORDER = [(1, 2), (1, 3), (1, 4), (1, 6), (2, 2), (2, 3), (2, 4), (2, 6), (3, 3), (3, 4), (3, 6), (4, 4), (4, 6)]


def fix_const(x):
    """First Qfixed type whose truncated encoding is within 0.05 of x."""
    if x < 0:
        raise Unsupported("negative constant")
    for i, f in QFIXED_ORDER:
        n = int(math.floor(x * 2 ** f)) % (2 ** (i + f))
        if abs(n / 2 ** f - x) < 0.049:
            return TFix(n, i, f)
        if abs(n / 2 ** f - x) < 0.051:
            raise Unsupported("float constant on the tolerance boundary")
    raise Unsupported("float constant has no Qfixed type")


class TChar(str):
    def __eq__(self, o):
        if not isinstance(o, str):
            raise Unsupported("comparison between different kinds")
        return str.__eq__(self, o)

    def __ne__(self, o):
        return not self.__eq__(o)

    def __hash__(self):
        return str.__hash__(self)


def _ord(c):
    if not isinstance(c, str) or len(c) != 1:
        raise Unsupported("ord of a non-char")
    return TInt(ord(c), 8)


def _chr(x):
    if isinstance(x, TInt):
        if x.w > 8:
            raise Unsupported("chr of a wide integer")
        return TChar(chr(x.v))
    if isinstance(x, int):
        return TChar(chr(x))
    raise Unsupported("chr")


def _int(x):
    if isinstance(x, TInt):
        return x
    if isinstance(x, TFix):
        return TInt(x.n >> x.f, x.i)
    raise Unsupported("int() of this kind")


def _float(x):
    if isinstance(x, TFix):
        return x
    if isinstance(x, TInt):
        for i, f in QFIXED_ORDER:
            if i == x.w:
                return TFix(x.v << f, i, f)
        raise Unsupported("float() of an integer with no matching Qfixed type")
    raise Unsupported("float() of this kind")


class _Sub:
    """Annotation dummy: Qint[4], Tuple[...], Qlist[...], ..."""

    def __init__(self, kind=None, params=None):
        self.kind, self.params = kind, params

    def __getitem__(self, k):
        return _Sub(self.kind, k)


def _coerce_args(f):
    """Arguments narrower than the annotated Qint width are zero-extended (the
    documented widening when a value meets a wider declared type)."""
    import functools
    import inspect
    try:
        sig = inspect.signature(f)
    except (TypeError, ValueError):
        return f
    widths = []
    for p in sig.parameters.values():
        a = p.annotation
        widths.append(a.params if isinstance(a, _Sub) and a.kind == "Qint" and isinstance(a.params, int) else None)
    if not any(widths):
        return f

    names = list(sig.parameters)

    @functools.wraps(f)
    def g(*args, **kwargs):
        ba = sig.bind(*args, **kwargs)
        for nm, w in zip(names, widths):
            v = ba.arguments.get(nm)
            if w and isinstance(v, TInt) and v.w < w:
                ba.arguments[nm] = TInt(v.v, w)
        return f(*ba.args, **ba.kwargs)
    return g


def namespace():
    ns = {"ord": _ord, "chr": _chr, "int": _int, "float": _float, "Qchar": lambda c: TChar(c),
          "print": lambda *a, **k: None}
    for nm in ("Qint", "Qfixed", "Qlist", "Qmatrix", "Tuple", "List", "Parameter"):
        ns[nm] = _Sub(nm)
    for w in (2, 3, 4, 5, 6, 7, 8, 12, 16):
        ns[f"Qint{w}"] = (lambda w: (lambda v: TInt(_wrap(v.v if isinstance(v, TInt) else v, w), w)))(w)
    for i, f in QFIXED_ORDER:
        ns[f"Qfixed{i}_{f}"] = (lambda i, f: (lambda v: TFix(int(math.floor(v * 2 ** f)), i, f)))(i, f)
    return ns


# ---- values <-> bits (little-endian, tuple-flattened) for qlasskit types ----
def value_of_bits(t, bits):
    """Shadow value of qlasskit type t from bits; returns (value, nbits)."""
    from qlasskit.types import Qchar
    if t is bool:
        return bool(bits[0]), 1
    if hasattr(t, "BIT_SIZE_INTEGER"):
        i, f = t.BIT_SIZE_INTEGER, t.BIT_SIZE_FRACTIONAL
        n = sum(1 << (f + k) for k in range(i) if bits[k]) + sum(1 << (f - 1 - k) for k in range(f) if bits[i + k])
        return TFix(n, i, f), i + f
    if t is Qchar:
        return TChar(chr(sum(1 << k for k in range(8) if bits[k]))), 8
    if hasattr(t, "BIT_SIZE"):
        w = t.BIT_SIZE
        return TInt(sum(1 << k for k in range(w) if bits[k]), w), w
    out, pos = [], 0
    for a in get_args(t):
        v, n = value_of_bits(a, bits[pos:])
        out.append(v)
        pos += n
    return tuple(out), pos


def bits_of_value(t, v):
    """Coerce the shadow result v to the declared return type t and flatten to
    bits; fill (zero-extend) or crop sized values as the documented return rule
    says; raises Unsupported when the kinds do not match."""
    from qlasskit.types import Qchar
    if t is bool:
        if not isinstance(v, bool):
            raise Unsupported("non-bool returned where bool is declared")
        return [v]
    if hasattr(t, "BIT_SIZE_INTEGER"):
        if isinstance(v, float):
            v = fix_const(v)
        if not isinstance(v, TFix):
            raise Unsupported("non-Qfixed returned where Qfixed is declared")
        if (v.i, v.f) != (t.BIT_SIZE_INTEGER, t.BIT_SIZE_FRACTIONAL):
            raise Unsupported("Qfixed of another type returned")
        i, f = v.i, v.f
        return [bool((v.n >> (f + k)) & 1) for k in range(i)] + [bool((v.n >> (f - 1 - k)) & 1) for k in range(f)]
    if t is Qchar:
        if not isinstance(v, str) or len(v) != 1:
            raise Unsupported("non-char returned where Qchar is declared")
        return [bool((ord(v) >> k) & 1) for k in range(8)]
    if hasattr(t, "BIT_SIZE"):
        if isinstance(v, bool) or isinstance(v, (TFix, str, tuple, float)):
            raise Unsupported("non-integer returned where Qint is declared")
        v = TInt.lift(v)
        w = t.BIT_SIZE
        val = _wrap(v.v, w)
        return [bool((val >> k) & 1) for k in range(w)]
    args = get_args(t)
    if not isinstance(v, (tuple, list)) or len(v) != len(args):
        raise Unsupported("tuple shape mismatch")
    out = []
    for a, x in zip(args, v):
        if hasattr(a, "BIT_SIZE") and not hasattr(a, "BIT_SIZE_INTEGER") and a is not Qchar:
            # inside tuples the implementation requires the exact element type
            xv = TInt.lift(x) if not isinstance(x, (bool, TFix, str, tuple, float)) else x
            if not isinstance(xv, TInt) or xv.w != a.BIT_SIZE:
                raise Unsupported("tuple element of another width")
        out += bits_of_value(a, x)
    return out


def run(src, fname, arg_types, ret_type, bits, extra=None):
    """Execute src's function on the argument values spelled by `bits`.
    Returns (ret_bits, wrapped) or raises Unsupported / any Python exception."""
    ns = namespace()
    if extra:
        ns.update(extra)
    exec(compile(src, "<c01>", "exec"), ns)
    import types as _types
    for k, v in list(ns.items()):
        if isinstance(v, _types.FunctionType) and v.__module__ is None or (isinstance(v, _types.FunctionType) and v.__code__.co_filename == "<c01>"):
            if k != fname:
                ns[k] = _coerce_args(v)
    f = ns[fname]
    args, pos = [], 0
    for t in arg_types:
        v, n = value_of_bits(t, bits[pos:])
        args.append(v)
        pos += n
    State.wrapped = False
    r = f(*args)
    rb = bits_of_value(ret_type, r)
    return rb, State.wrapped
