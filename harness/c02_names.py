"""Correspondence for M_Names.v: the name QCircuitEnhanced.add_ancilla gives a new scratch qubit.

Programs whose parameters / locals are called like the synthesiser's own qubits (anc_N) are compiled in this
process with add_ancilla wrapped; every call is recorded as (number of ancillas, indices k such that "anc_k" is
at that moment the name of a program symbol, index chosen) and the model is evaluated on the observations
inside coqc.  The property itself (the circuit computes the expressions) is decided for the same programs by
c02_check in the shared corpus; here the choice of the name is compared, and tested directly: the chosen
name must not be a key of the qubit map that add_ancilla did not create."""
import random
import re

from . import common as C
from . import gen

_ANC = re.compile(r"^anc_(\d+)$")


def programs(tier, seed):
    rng = random.Random(seed + 77)
    out = [s for s in gen.struct_templates() if "anc_" in s]
    n = 40 if tier == "quick" else 400
    for _ in range(n):
        src = gen.bool_program(rng, nvars=rng.randint(3, 5), depth=rng.randint(2, 4))
        # rename some parameters (and hence their uses) to names of scratch qubits
        names = re.findall(r"(\w+): bool", src.split("\n")[0])
        picks = rng.sample(names, rng.randint(1, len(names)))
        pool = rng.sample(range(0, 6), len(picks))
        for nm, k in zip(picks, pool):
            src = re.sub(rf"\b{nm}\b", f"anc_{k}", src)
        if rng.random() < 0.3:   # a local with such a name too
            src = src.replace("    return ", f"    anc_{rng.randint(0, 4)} = {names[0] if names[0] not in picks else 'anc_%d' % pool[picks.index(names[0])]}\n    return ", 1)
        out.append(src)
    return out


def collect(tier, seed):
    from qlasskit import boolopt, qlassf
    from qlasskit.qcircuit import QCircuitEnhanced
    obs, direct = [], []
    orig = QCircuitEnhanced.add_ancilla

    def wrapped(self, name=None, is_free=True):
        if name:
            return orig(self, name, is_free)
        k0 = len(self.ancilla_lst)
        created = getattr(self, "ancilla_names", set())
        before = dict(self.qubit_map)
        taken = sorted(int(m.group(1)) for m in map(_ANC.match, before) if m and m.group(0) not in created)
        i = orig(self, name, is_free)
        new = [k for k, v in self.qubit_map.items() if v == i]
        m = _ANC.match(new[-1]) if new else None
        chosen = int(m.group(1)) if m else None
        obs.append((k0, taken, chosen, cur[0]))
        if chosen is None or (new[-1] in before and new[-1] not in created):
            direct.append(dict(source=cur[0], what=f"add_ancilla named the new qubit {new[-1] if new else None!r}, the name of a program symbol",
                               qubit_map_before=list(before.items())))
        return i

    cur = [None]
    compiled = raised = 0
    QCircuitEnhanced.add_ancilla = wrapped
    try:
        for src in programs(tier, seed):
            for opt in (boolopt.defaultOptimizer, boolopt.fastOptimizer):
                cur[0] = src
                try:
                    qlassf(src, bool_optimizer=opt)
                    compiled += 1
                except Exception:
                    raised += 1
    finally:
        QCircuitEnhanced.add_ancilla = orig
    rows = ["(%d, (%s, %s, %s))" % (j, C.cnat(k0), C.clist([C.cnat(t) for t in taken]), C.cnat(ch if ch is not None else 999))
            for j, (k0, taken, ch, _) in enumerate(obs)]
    mism = []
    for ci in range(0, len(rows), 500):
        txt = (C.COQ_HEADER + "From QV Require Import M_Names.\n"
               + "Definition obs : list (nat * (nat * list nat * nat)) := [%s]%%nat.\nEval vm_compute in (chk_names obs).\n" % "; ".join(rows[ci:ci + 500]))
        res = C.run_cases("C02names", [(f"names_{ci}", txt)])
        for name, (rc, so, se) in res.items():
            if rc != 0:
                mism.append(dict(file=name, error=(so + se)[-800:]))
                continue
            for v in C.parse_results(so):
                for j in C.parse_N_list(v):
                    k0, taken, ch, src = obs[j]
                    mism.append(dict(source=src, ancillas=k0, symbol_names_taken=taken, chosen=ch))
    clash = sum(1 for k0, taken, ch, _ in obs if k0 in taken)
    return dict(observations=len(obs), with_clash=clash, compiled=compiled, raised=raised, mismatches=mism[:10], direct=direct[:5])
