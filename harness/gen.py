"""Program generators (all randomness from one random.Random)."""
import itertools


def rand_bool_expr(rng, vars_, depth):
    if depth == 0 or rng.random() < 0.15:
        v = rng.choice(vars_)
        return v if rng.random() < 0.7 else f"(not {v})"
    k = rng.choice(["and", "or", "xor", "not", "eq", "neq", "ite", "and3", "or3"])
    sub = lambda: rand_bool_expr(rng, vars_, depth - 1)
    if k == "and":
        return f"({sub()} and {sub()})"
    if k == "or":
        return f"({sub()} or {sub()})"
    if k == "and3":
        return f"({sub()} and {sub()} and {sub()})"
    if k == "or3":
        return f"({sub()} or {sub()} or {sub()})"
    if k == "xor":
        return f"({sub()} ^ {sub()})"
    if k == "not":
        return f"(not {sub()})"
    if k == "eq":
        return f"({sub()} == {sub()})"
    if k == "neq":
        return f"({sub()} != {sub()})"
    return f"({sub()} if {sub()} else {sub()})"


def bool_program(rng, nvars=None, depth=None):
    nvars = nvars or rng.randint(2, 6)
    depth = depth or rng.randint(2, 4)
    vs = [chr(ord("a") + i) for i in range(nvars)]
    args = ", ".join(f"{v}: bool" for v in vs)
    r = rng.random()
    if r < 0.3:
        # with an intermediate variable shared between sub-expressions
        e1 = rand_bool_expr(rng, vs, depth - 1)
        e2 = rand_bool_expr(rng, vs + ["t"], depth - 1)
        return f"def test({args}) -> bool:\n    t = {e1}\n    return {e2}"
    if r < 0.4:
        # an alias of an argument / a repeated sub-expression used positively and negated
        al = rng.choice(vs)
        e1 = rand_bool_expr(rng, vs, max(1, depth - 2))
        e2 = rand_bool_expr(rng, vs + ["y", "y"], depth - 1)
        return (f"def test({args}) -> bool:\n    y = {al}\n    u = {e1}\n"
                f"    return (({e2}) and (u or y)) or ((not u) and {rng.choice(vs)})")
    return f"def test({args}) -> bool:\n    return {rand_bool_expr(rng, vs, depth)}"


def truth_table_program(nvars, table):
    """A program whose value on assignment x (bit i = variable i) is bit x of `table`,
    written as a disjunction of minterms."""
    vs = [chr(ord("a") + i) for i in range(nvars)]
    args = ", ".join(f"{v}: bool" for v in vs)
    terms = []
    for x in range(2 ** nvars):
        if (table >> x) & 1:
            lits = [(v if (x >> i) & 1 else f"(not {v})") for i, v in enumerate(vs)]
            terms.append("(" + " and ".join(lits) + ")")
    body = " or ".join(terms) if terms else "False"
    return f"def test({args}) -> bool:\n    return {body}"


ARITH = ["+", "-", "*", "&", "|", "^"]
CMP = ["==", "!=", "<", ">", "<=", ">="]


def int_templates(widths=(2, 3, 4)):
    """Operator x width-pair template family (small widths so every program is
    decided on all inputs)."""
    out = []
    for w1, w2 in itertools.product(widths, widths):
        wr = max(w1, w2)
        for op in ARITH:
            rw = wr if op != "*" else min(16, {2: 2, 3: 4, 4: 4, 5: 6, 6: 6, 7: 8, 8: 8}.get(w1 + w2, 12))
            out.append(f"def test(a: Qint[{w1}], b: Qint[{w2}]) -> Qint[{rw}]:\n    return a {op} b")
        for op in CMP:
            out.append(f"def test(a: Qint[{w1}], b: Qint[{w2}]) -> bool:\n    return a {op} b")
    for w in widths:
        for c in (0, 1, 2, 3, 5, 6, 7):
            if c < 2 ** w:
                for op in ARITH + ["%"]:
                    if op == "%" and c not in (1, 2, 4):
                        continue
                    out.append(f"def test(a: Qint[{w}]) -> Qint[{w}]:\n    return a {op} {c}")
                for op in CMP:
                    out.append(f"def test(a: Qint[{w}]) -> bool:\n    return a {op} {c}")
                    out.append(f"def test(a: Qint[{w}]) -> bool:\n    return {c} {op} a")
        for k in (0, 1, 2):
            out.append(f"def test(a: Qint[{w}]) -> Qint[{w}]:\n    return a << {k}")
            out.append(f"def test(a: Qint[{w}]) -> Qint[{w}]:\n    return a >> {k}")
        out.append(f"def test(a: Qint[{w}]) -> Qint[{w}]:\n    return ~a")
    return out


def struct_templates():
    """Operands reached through if / for / tuple element / multi-assign."""
    t = []
    t.append("def test(a: Qint[2], b: Qint[2], c: bool) -> Qint[2]:\n    return a + b if c else a - b")
    t.append("def test(a: Qint[2], b: Qint[4], c: bool) -> Qint[4]:\n    d = a\n    if c:\n        d = d + 1\n    else:\n        d = d + 2\n    return d + b")
    t.append("def test(a: Tuple[Qint[2], Qint[2]]) -> Qint[2]:\n    return a[0] + a[1]")
    t.append("def test(a: Tuple[Qint[2], bool], b: Qint[2]) -> bool:\n    return (a[0] > b) and a[1]")
    t.append("def test(a: Qlist[Qint[2], 3]) -> Qint[4]:\n    s = Qint4(0)\n    for i in a:\n        s = s + i\n    return s")
    t.append("def test(a: Qint[2]) -> Qint[4]:\n    s = Qint4(0)\n    for i in range(3):\n        s = s + a\n    return s")
    t.append("def test(a: Qint[2], b: Qint[2]) -> Tuple[Qint[2], bool]:\n    c, d = a + b, a > b\n    return (c, d)")
    t.append("def test(a: Qlist[bool, 4]) -> bool:\n    c = True\n    for i in a:\n        c = c and i\n    return c")
    t.append("def test(a: Qlist[Qint[2], 2], i: Qint[2]) -> Qint[2]:\n    return a[i]")
    t.append("def test(a: bool, b: bool, c: bool) -> Tuple[bool, bool]:\n    d = a and b\n    return (d, d ^ c)")
    t.append("def test(a: Qint[2], b: Qint[2]) -> Qint[2]:\n    return max(a, b)")
    t.append("def test(a: Qint[2], b: Qint[2]) -> Qint[2]:\n    return min(a, b)")
    t.append("def test(a: Qlist[Qint[2], 3]) -> Qint[4]:\n    return sum(a)")
    t.append("def test(a: Qlist[bool, 3]) -> bool:\n    return all(a)")
    t.append("def test(a: Qlist[bool, 3]) -> bool:\n    return any(a)")
    t.append("def test(a: Qint[4]) -> Qint[4]:\n    b = a\n    b += 3\n    return b")
    t.append("def test(a: Qint[2], b: Qint[2], c: Qint[2]) -> bool:\n    return a < b and b < c")
    t.append("def test(a: Qint[2]) -> Qint[4]:\n    return a * a")
    t.append("def test(a: Qint[2], b: Qint[2]) -> Qint[4]:\n    return (a + b) * 2")
    # the normaliser (ast2ast): regression programs of the defects found while modelling it
    t.append("def test(t: Tuple[Tuple[bool, bool], bool]) -> bool:\n    t, a = t\n    return a")
    t.append("def test(a: bool, b: bool, u: Tuple[Qint[2], bool]) -> bool:\n    t = (a, b)\n    a = not a\n    return t[u[0]]")
    t.append("def test(a: bool, b: bool, c: bool, u: Tuple[Qint[2], bool]) -> bool:\n    t = (a, b)\n    if c:\n        t = (b, a)\n    return t[u[0]]")
    t.append("def test(a: bool, b: bool, v: Tuple[bool, bool], u: Tuple[Qint[2], bool]) -> bool:\n    t = (a, b)\n    t = v\n    return t[u[0]]")
    t.append("def test(m: Qmatrix[bool, 2, 3]) -> bool:\n    r = False\n    for x in m[0]:\n        r = r ^ x\n    return r")
    t.append("def test(m: Qmatrix[bool, 2, 3], i: Qint[2], j: Qint[2]) -> bool:\n    return m[i][j]")
    t.append("def test(m: Qmatrix[bool, 3, 2], i: Qint[2], j: Qint[2]) -> bool:\n    return m[i][j]")
    t.append("def test(a: Tuple[bool, bool]) -> bool:\n    s = False\n    for x in a:\n        a = (s, x)\n        s = s ^ x\n    return s")
    t.append("def test(a: bool) -> bool:\n    r = a\n    for x in [()]:\n        r = a if x else not a\n    return r")
    t.append("def test(x: Qint[2]) -> Qint[4]:\n    s = x\n    for i in range(2):\n        s = s + 1\n    else:\n        s = 0\n    return s")
    t.append("def test(a: Qint[2]) -> Qint[4]:\n    return len(range(3)) + a")
    t.append("def test(a: Qint[2]) -> Qint[4]:\n    return sum(range(4)) + a")
    # empty tuples inside tuples
    t.append("def test(a: bool, b: bool) -> bool:\n    u = (a, (), b)\n    v = u\n    return v[2] and not v[0]")
    t.append("def test(a: Qint[2], b: bool) -> Qint[2]:\n    u = ((), a, ((), b))\n    v = u\n    return v[1] + 1 if v[2][1] else v[1]")
    # one-element tuples copied by name
    t.append("def test(a: bool) -> bool:\n    t = (a,)\n    u = t\n    return u[0]")
    t.append("def test(a: bool, b: bool) -> bool:\n    t = (a ^ b,)\n    u = t\n    v = u\n    return v[0] and a")
    # multi-target assignments whose right-hand side reads targets of the same statement
    t.append("def test(a: bool, b: bool) -> Tuple[bool, bool]:\n    a, b = b, a\n    return (a, b)")
    t.append("def test(a: Qint[2], b: Qint[2]) -> Qint[2]:\n    a, b = b, a\n    return a - b")
    t.append("def test(a: bool, b: bool, c: bool) -> Tuple[bool, bool, bool]:\n    a, b, c = b, c, a\n    return (a, b, c)")
    t.append("def test(a: bool, b: bool) -> Tuple[bool, bool]:\n    a, b = True, a\n    return (a, b)")
    t.append("def test(a: Qint[2], b: Qint[2]) -> Tuple[Qint[2], Qint[2]]:\n    for i in range(3):\n        a, b = b, a + b\n    return (a, b)")
    t.append("def test(a: bool, b: bool, c: bool) -> bool:\n    for i in range(2):\n        a, b, c = c, a, b\n    return a and not b")
    t.append("def test(a: Qint[2], b: Qint[2]) -> Qint[2]:\n    c, d = b, a\n    c, d = d, c\n    return c + (d << 1)")
    t.append("def test(a: bool, b: bool) -> bool:\n    a, b = a ^ b, a\n    b, a = a, b\n    return a and not b")
    # a local conditionally re-assigned (in place operators) and returned directly
    t.append("def test(a: bool, b: bool, c: bool) -> bool:\n    d = a and b\n    if c:\n        d ^= b\n    return d")
    t.append("def test(a: bool, b: bool, c: bool) -> bool:\n    d = a or b\n    if c:\n        d = d and a\n    return d")
    t.append("def test(a: Qint[2], b: Qint[2], c: bool) -> Qint[2]:\n    d = a + b\n    if c:\n        d += 1\n    return d")
    t.append("def test(a: bool, b: bool, c: bool, e: bool) -> bool:\n    d = a ^ b\n    if c:\n        d = d or e\n    else:\n        d = d and e\n    return d")
    t.append("def test(a: bool, b: bool, c: bool) -> Tuple[bool, bool]:\n    d = a and b\n    f = d\n    if c:\n        d ^= b\n        f = f or a\n    return (d, f)")
    # aliases, a sub-expression next to its own negation, n-ary or under not
    t.append("def test(a: bool, b: bool) -> bool:\n    y = a\n    return (a or y) and b")
    t.append("def test(a: bool, b: bool, c: bool, d: bool) -> bool:\n    return ((a or b or c) and (not (a or b or c))) or d")
    t.append("def test(a: bool, b: bool, c: bool, d: bool) -> bool:\n    return ((a or b or c) and d) ^ (not (a or b or c))")
    t.append("def test(a: bool, b: bool, c: bool) -> bool:\n    y = a\n    z = y\n    return (z and a) ^ (y or c) ^ (a or b or z)")
    t.append("def test(a: bool, b: bool, c: bool) -> bool:\n    t = a and b\n    return (t or c) and (not t or a) and (t ^ c)")
    t.append("def test(a: Qint[2], b: Qint[2]) -> bool:\n    c = a\n    return (a == c) and (b > c or a > b)")
    # returning bare bits / whole arguments from every argument position
    t.append("def test(a: bool, b: bool) -> bool:\n    return a")
    t.append("def test(a: bool, b: bool) -> bool:\n    return b")
    t.append("def test(a: bool, b: bool, c: bool) -> bool:\n    return b")
    t.append("def test(a: Qint[2], b: bool) -> bool:\n    return a[1]")
    t.append("def test(a: Tuple[bool, bool], b: bool) -> bool:\n    return a[0]")
    t.append("def test(a: Qint[2], b: Qint[2]) -> Qint[2]:\n    return a")
    t.append("def test(a: Qint[2], b: Qint[2]) -> Tuple[Qint[2], Qint[2]]:\n    return (b, a)")
    t.append("def test(a: bool, b: bool) -> Tuple[bool, bool, bool]:\n    return (a, b, a)")
    t.append("def test(a: bool, b: bool) -> bool:\n    c = a\n    return c")
    # parameters and locals whose names are the ones the synthesiser gives its own qubits (anc_N, TRUE, FALSE)
    # or start like the return bits (_retval)
    t.append("def test(a: bool, anc_1: bool, c: bool) -> bool:\n    t = c ^ (a or (anc_1 and not a))\n    return (t and a) ^ (t or anc_1)")
    t.append("def test(anc_0: bool, anc_1: bool, anc_2: bool) -> bool:\n    t = anc_2 ^ (anc_0 or (anc_1 and not anc_0))\n    return (t and anc_0) ^ (t or anc_1)")
    t.append("def test(a: bool, b: bool, c: bool) -> bool:\n    anc_0 = a and b\n    t = c ^ (a or (anc_0 and not a))\n    return (t and a) ^ (t or anc_0)")
    t.append("def test(TRUE: bool, b: bool) -> Tuple[bool, bool]:\n    return (True, b and TRUE)")
    t.append("def test(FALSE: bool, b: bool) -> Tuple[bool, bool]:\n    return (False, b or FALSE)")
    t.append("def test(a: bool, b: bool) -> Tuple[bool, bool, bool]:\n    TRUE = a and b\n    return (True, TRUE, not TRUE)")
    t.append("def test(a: bool, b: bool) -> bool:\n    _retval = a or b\n    return not _retval")
    t.append("def test(a: bool, b: bool, c: bool) -> Tuple[bool, bool]:\n    _retx = a and b\n    _ret0 = _retx ^ c\n    return (_ret0 or _retx, _retx)")
    return t


# ---------------------------------------------------------------- C01 generators
def rand_int_expr(rng, vars_, depth):
    """Integer-valued expression over Qint variables ((name, width) list) and constants."""
    if depth == 0 or rng.random() < 0.2:
        if rng.random() < 0.75:
            return rng.choice(vars_)[0]
        return str(rng.choice([0, 1, 2, 3, 4, 5, 6, 7, 10, 12, 14, 15]))
    k = rng.choice(["+", "+", "-", "*", "&", "|", "^", "<<", ">>", "~", "%"])
    sub = lambda: rand_int_expr(rng, vars_, depth - 1)
    if k in ("<<", ">>"):
        return f"({rand_var_expr(rng, vars_, depth - 1)} {k} {rng.randint(0, 3)})"
    if k == "~":
        return f"(~{rand_var_expr(rng, vars_, depth - 1)})"
    if k == "%":
        return f"({rand_var_expr(rng, vars_, depth - 1)} % {rng.choice([1, 2, 4, 8])})"
    if k == "*":
        a = rand_var_expr(rng, vars_, min(1, depth - 1))
        b = rng.choice([rand_var_expr(rng, vars_, 0), str(rng.choice([0, 1, 2, 3, 4, 5, 6, 10, 12, 14]))])
        return f"({a} * {b})"
    a, b = sub(), sub()
    if a.isdigit() and b.isdigit():
        a = rng.choice(vars_)[0]
    return f"({a} {k} {b})"


def rand_var_expr(rng, vars_, depth):
    e = rand_int_expr(rng, vars_, depth)
    return rng.choice(vars_)[0] if e.isdigit() else e


def rand_cond(rng, vars_, bvars, depth):
    k = rng.choice(["cmp", "cmp", "bool", "and", "or", "not"])
    if depth == 0 or k == "cmp":
        a = rand_var_expr(rng, vars_, max(0, depth - 1))
        b = rand_int_expr(rng, vars_, max(0, depth - 1))
        return f"({a} {rng.choice(CMP)} {b})"
    if k == "bool" and bvars:
        return rng.choice(bvars)
    if k == "not":
        return f"(not {rand_cond(rng, vars_, bvars, depth - 1)})"
    op = "and" if k == "and" else "or"
    return f"({rand_cond(rng, vars_, bvars, depth - 1)} {op} {rand_cond(rng, vars_, bvars, depth - 1)})"


def int_program(rng):
    """Random typed program over 1-3 Qint arguments of mixed widths (<= 10 input bits)."""
    widths = [2, 2, 3, 4, 4]
    vs, total = [], 0
    for i in range(rng.randint(1, 3)):
        w = rng.choice(widths)
        if total + w > 9:
            break
        vs.append((chr(ord("a") + i), w))
        total += w
    bvars = ["p"] if rng.random() < 0.4 else []
    sig = ", ".join(f"{n}: Qint[{w}]" for n, w in vs) + ("".join(f", {b}: bool" for b in bvars))
    kind = rng.choice(["expr", "expr", "cond", "ifexp", "stmts", "loop", "swap"])
    rw = rng.choice([2, 4, 4, 8])
    if kind == "swap":
        # multi-target assignments that read their own targets (swap / rotate / fibonacci step)
        x, y = vs[0][0], vs[-1][0]
        body = [f"    x, y = {x}, {y} + {rng.randint(0, 3)}"]
        for _ in range(rng.randint(1, 3)):
            body.append("    " + rng.choice(["x, y = y, x", f"x, y = y, x {rng.choice(['+', '^', '-'])} y", f"x, y = {rng.randint(0, 3)}, x",
                                             "y, x = x, y", f"x, y = y, {rand_var_expr(rng, vs, 1)}"]))
        return f"def test({sig}) -> Qint[{rw}]:\n" + "\n".join(body) + f"\n    return {rng.choice(['x', 'y', 'x + y', 'x - y', 'x ^ y'])}"
    if kind == "expr":
        return f"def test({sig}) -> Qint[{rw}]:\n    return {rand_var_expr(rng, vs, 3)}"
    if kind == "cond":
        return f"def test({sig}) -> bool:\n    return {rand_cond(rng, vs, bvars, 2)}"
    if kind == "ifexp":
        v = rng.choice(vs)[0]
        # both branches start from the same variable so that they have the same type
        return (f"def test({sig}) -> Qint[{rw}]:\n    return ({v} + {rng.randint(0, 3)}) if {rand_cond(rng, vs, bvars, 1)} "
                f"else ({v} ^ {rng.randint(0, 3)})")
    if kind == "stmts":
        v = rng.choice(vs)[0]
        return (f"def test({sig}) -> Qint[{rw}]:\n    t = {rand_var_expr(rng, vs, 2)}\n    u = t + {v}\n"
                f"    if {rand_cond(rng, vs, bvars, 1)}:\n        u = u + 1\n    else:\n        u = u ^ 1\n    return u")
    n = rng.randint(1, 3)
    v = rng.choice(vs)[0]
    return (f"def test({sig}) -> Qint[{rw}]:\n    s = Qint{rw}(0)\n    for i in range({n}):\n        s = s + {v} + i\n    return s")


def malformed_programs():
    """Programs outside the documented subset: each must be rejected, or (if the
    implementation accepts it) translated to what Python computes."""
    return [
        "def test(a: Qint[4], b: Qint[4]) -> bool:\n    return a < b < 3",
        "def test(a: Qint[4], b: Qint[2]) -> Qint[4]:\n    return a << b",
        "def test(a: Qint[4]) -> Qint[4]:\n    return a + c",
        "def test(a: Qint[4]) -> Qint[4]:\n    return a + (-1)",
        "def test(a: Qint[4]) -> bool:\n    return a > -1",
        "def test(a: Qint[4]) -> Qint[4]:\n    return a // 2",
        "def test(a: Qint[4]) -> Qint[4]:\n    while a > 2:\n        a = a - 1\n    return a",
        "def test(a: Qint[4]) -> Qint[4]:\n    return abs(a)",
        "def test(a: bool, b: Qint[2]) -> bool:\n    return a == b",
        "def test(a: bool) -> Qint[2]:\n    return a",
        "def test(a: Qint[2]) -> bool:\n    return a",
        "def test(a: Qint[2], b: Qint[2]) -> Qint[2]:\n    return a / b",
        "def test(a: Qint[4]) -> Qint[4]:\n    return a % 3",
        "def test(a: Qlist[Qint[2], 2]) -> Qint[2]:\n    return a[2]",
        "def test(a: Qint[2]) -> Qint[2]:\n    return len(a)",
        "def test(a: Qint[4]) -> Qint[4]:\n    return a if a else 0",
        "def test(a: Tuple[bool, bool], b: Tuple[bool, bool]) -> bool:\n    return a < b",
        "def test(a: Qint[2]) -> Qint[2]:\n    return [a, a][0:1]",
        "def test(a: Qint[2]) -> Qint[2]:\n    return (lambda x: x)(a)",
        "def test(a: Qint[4]) -> Qint[4]:\n    return a.bit_length()",
    ]


def fixed_templates():
    """Qfixed operators (same-type operands, constants, integer multipliers)."""
    out = []
    for i, f in ((1, 2), (2, 2), (2, 3), (1, 4)):
        t = f"Qfixed[{i},{f}]"
        for op in ("+", "-"):
            out.append(f"def test(a: {t}, b: {t}) -> {t}:\n    return a {op} b")
        for op in CMP:
            out.append(f"def test(a: {t}, b: {t}) -> bool:\n    return a {op} b")
        for c in (0.5, 0.25, 1.5, 0.75):
            if c < 2 ** i:
                out.append(f"def test(a: {t}) -> {t}:\n    return a + {c}")
                out.append(f"def test(a: {t}) -> bool:\n    return a > {c}")
                out.append(f"def test(a: {t}) -> bool:\n    return a == {c}")
        for k in (0, 1, 2, 3, 4, 5, 6, 7):
            out.append(f"def test(a: {t}) -> {t}:\n    return a * {k}")
            out.append(f"def test(a: {t}) -> {t}:\n    return {k} * a")
    out.append("def test(a: Qfixed[2,2]) -> Qint[2]:\n    return int(a)")
    out.append("def test(a: Qint[2]) -> Qfixed[2,2]:\n    return float(a)")
    out.append("def test(a: Qfixed[2,2], b: Qfixed[2,2]) -> Qfixed[2,2]:\n    return a if a > b else b")
    return out


def control_templates():
    """if / else statements whose condition is a bare variable, re-assignments of the
    condition variable inside the branches, nested ifs, loops with conditions."""
    t = []
    t.append("def test(a: bool, b: Qint[2]) -> Qint[2]:\n    if a:\n        a = False\n        b = b + 1\n    else:\n        b = b + 2\n    return b")
    t.append("def test(a: bool, b: Qint[2]) -> Qint[2]:\n    if a:\n        b = b + 1\n        a = not a\n        b = b + 1\n    return b if a else b + 1")
    t.append("def test(a: bool, b: bool, c: Qint[2]) -> Qint[2]:\n    if a:\n        if b:\n            c = c + 1\n        else:\n            c = c + 2\n        a = b\n    else:\n        c = c ^ 3\n    return c + 1 if a else c")
    t.append("def test(a: bool, b: Qint[2]) -> Tuple[bool, Qint[2]]:\n    if a:\n        a = b > 1\n        b = b + 1\n    return (a, b)")
    t.append("def test(a: bool, b: bool, c: bool) -> bool:\n    d = a\n    if d:\n        d = b\n        c = not c\n    elif b:\n        c = d or c\n    else:\n        d = c\n    return c ^ d")
    t.append("def test(a: Qint[2], p: bool) -> Qint[4]:\n    s = Qint4(1)\n    for i in range(3):\n        if p:\n            s = s + a\n            p = a > i\n        else:\n            s = s + i\n    return s")
    t.append("def test(a: Qint[2], b: Qint[2]) -> Qint[2]:\n    c = a\n    if a > b:\n        c = b\n        b = a\n    return c + b")
    t.append("def test(x: bool, y: bool) -> Tuple[bool, bool]:\n    if x:\n        x = y\n        y = not y\n    else:\n        y = x\n    return (x, y)")
    return t
