"""Program generators (all randomness from one random.Random)."""
import itertools


def rand_bool_expr(rng, vars_, depth):
    if depth == 0 or rng.random() < 0.15:
        v = rng.choice(vars_)
        return v if rng.random() < 0.7 else f"(not {v})"
    k = rng.choice(["and", "or", "xor", "not", "eq", "neq", "ite", "and3", "or3"])
    sub = lambda: rand_bool_expr(rng, vars_, depth - 1)
    if k == "and":
        return f"({sub()} and {sub()})"
    if k == "or":
        return f"({sub()} or {sub()})"
    if k == "and3":
        return f"({sub()} and {sub()} and {sub()})"
    if k == "or3":
        return f"({sub()} or {sub()} or {sub()})"
    if k == "xor":
        return f"({sub()} ^ {sub()})"
    if k == "not":
        return f"(not {sub()})"
    if k == "eq":
        return f"({sub()} == {sub()})"
    if k == "neq":
        return f"({sub()} != {sub()})"
    return f"({sub()} if {sub()} else {sub()})"


def bool_program(rng, nvars=None, depth=None):
    nvars = nvars or rng.randint(2, 6)
    depth = depth or rng.randint(2, 4)
    vs = [chr(ord("a") + i) for i in range(nvars)]
    args = ", ".join(f"{v}: bool" for v in vs)
    if rng.random() < 0.3:
        # with an intermediate variable shared between sub-expressions
        e1 = rand_bool_expr(rng, vs, depth - 1)
        e2 = rand_bool_expr(rng, vs + ["t"], depth - 1)
        return f"def test({args}) -> bool:\n    t = {e1}\n    return {e2}"
    return f"def test({args}) -> bool:\n    return {rand_bool_expr(rng, vs, depth)}"


def truth_table_program(nvars, table):
    """A program whose value on assignment x (bit i = variable i) is bit x of `table`,
    written as a disjunction of minterms."""
    vs = [chr(ord("a") + i) for i in range(nvars)]
    args = ", ".join(f"{v}: bool" for v in vs)
    terms = []
    for x in range(2 ** nvars):
        if (table >> x) & 1:
            lits = [(v if (x >> i) & 1 else f"(not {v})") for i, v in enumerate(vs)]
            terms.append("(" + " and ".join(lits) + ")")
    body = " or ".join(terms) if terms else "False"
    return f"def test({args}) -> bool:\n    return {body}"


ARITH = ["+", "-", "*", "&", "|", "^"]
CMP = ["==", "!=", "<", ">", "<=", ">="]


def int_templates(widths=(2, 3, 4)):
    """Operator x width-pair template family (small widths so every program is
    decided on all inputs)."""
    out = []
    for w1, w2 in itertools.product(widths, widths):
        wr = max(w1, w2)
        for op in ARITH:
            rw = wr if op != "*" else min(16, {2: 2, 3: 4, 4: 4, 5: 6, 6: 6, 7: 8, 8: 8}.get(w1 + w2, 12))
            out.append(f"def test(a: Qint[{w1}], b: Qint[{w2}]) -> Qint[{rw}]:\n    return a {op} b")
        for op in CMP:
            out.append(f"def test(a: Qint[{w1}], b: Qint[{w2}]) -> bool:\n    return a {op} b")
    for w in widths:
        for c in (0, 1, 2, 3, 5, 6, 7):
            if c < 2 ** w:
                for op in ARITH + ["%"]:
                    if op == "%" and c not in (1, 2, 4):
                        continue
                    out.append(f"def test(a: Qint[{w}]) -> Qint[{w}]:\n    return a {op} {c}")
                for op in CMP:
                    out.append(f"def test(a: Qint[{w}]) -> bool:\n    return a {op} {c}")
                    out.append(f"def test(a: Qint[{w}]) -> bool:\n    return {c} {op} a")
        for k in (0, 1, 2):
            out.append(f"def test(a: Qint[{w}]) -> Qint[{w}]:\n    return a << {k}")
            out.append(f"def test(a: Qint[{w}]) -> Qint[{w}]:\n    return a >> {k}")
        out.append(f"def test(a: Qint[{w}]) -> Qint[{w}]:\n    return ~a")
    return out


def struct_templates():
    """Operands reached through if / for / tuple element / multi-assign."""
    t = []
    t.append("def test(a: Qint[2], b: Qint[2], c: bool) -> Qint[2]:\n    return a + b if c else a - b")
    t.append("def test(a: Qint[2], b: Qint[4], c: bool) -> Qint[4]:\n    d = a\n    if c:\n        d = d + 1\n    else:\n        d = d + 2\n    return d + b")
    t.append("def test(a: Tuple[Qint[2], Qint[2]]) -> Qint[2]:\n    return a[0] + a[1]")
    t.append("def test(a: Tuple[Qint[2], bool], b: Qint[2]) -> bool:\n    return (a[0] > b) and a[1]")
    t.append("def test(a: Qlist[Qint[2], 3]) -> Qint[4]:\n    s = Qint4(0)\n    for i in a:\n        s = s + i\n    return s")
    t.append("def test(a: Qint[2]) -> Qint[4]:\n    s = Qint4(0)\n    for i in range(3):\n        s = s + a\n    return s")
    t.append("def test(a: Qint[2], b: Qint[2]) -> Tuple[Qint[2], bool]:\n    c, d = a + b, a > b\n    return (c, d)")
    t.append("def test(a: Qlist[bool, 4]) -> bool:\n    c = True\n    for i in a:\n        c = c and i\n    return c")
    t.append("def test(a: Qlist[Qint[2], 2], i: Qint[2]) -> Qint[2]:\n    return a[i]")
    t.append("def test(a: bool, b: bool, c: bool) -> Tuple[bool, bool]:\n    d = a and b\n    return (d, d ^ c)")
    t.append("def test(a: Qint[2], b: Qint[2]) -> Qint[2]:\n    return max(a, b)")
    t.append("def test(a: Qint[2], b: Qint[2]) -> Qint[2]:\n    return min(a, b)")
    t.append("def test(a: Qlist[Qint[2], 3]) -> Qint[4]:\n    return sum(a)")
    t.append("def test(a: Qlist[bool, 3]) -> bool:\n    return all(a)")
    t.append("def test(a: Qlist[bool, 3]) -> bool:\n    return any(a)")
    t.append("def test(a: Qint[4]) -> Qint[4]:\n    b = a\n    b += 3\n    return b")
    t.append("def test(a: Qint[2], b: Qint[2], c: Qint[2]) -> bool:\n    return a < b and b < c")
    t.append("def test(a: Qint[2]) -> Qint[4]:\n    return a * a")
    t.append("def test(a: Qint[2], b: Qint[2]) -> Qint[4]:\n    return (a + b) * 2")
    return t
