"""Plain-data intermediate forms of sympy boolean expressions and qlasskit gate
lists, their Coq printers (terms of Bexp.v / Circ.v) and Python evaluators used
only to confirm failing inputs.  Fail closed: anything unknown raises SerError."""
from sympy import Symbol
from sympy.logic.boolalg import ITE, And, BooleanFalse, BooleanTrue, Implies, Not, Or, Xor

from qlasskit.qcircuit import gates as G

from .common import clist, cnat


class SerError(Exception):
    pass


# ------------------------------------------------------------------ expressions
def to_ir(e):
    """sympy expression -> nested tuples:
    ('c', bool) ('s', name) ('n', e) ('a', [..]) ('o', [..]) ('x', [..]) ('i', c, t, e) ('m', a, b)"""
    if e is True or isinstance(e, BooleanTrue):
        return ("c", True)
    if e is False or isinstance(e, BooleanFalse):
        return ("c", False)
    if isinstance(e, Symbol):
        return ("s", e.name)
    if isinstance(e, Not):
        return ("n", to_ir(e.args[0]))
    if isinstance(e, And):
        return ("a", [to_ir(a) for a in e.args])
    if isinstance(e, Or):
        return ("o", [to_ir(a) for a in e.args])
    if isinstance(e, Xor):
        return ("x", [to_ir(a) for a in e.args])
    if isinstance(e, ITE):
        return ("i",) + tuple(to_ir(a) for a in e.args)
    if isinstance(e, Implies):
        return ("m",) + tuple(to_ir(a) for a in e.args)
    raise SerError(f"expression node {type(e).__name__}: {e}")


def from_ir(ir):
    """IR -> sympy (no evaluation: sympy re-canonicalises as usual)."""
    k = ir[0]
    if k == "c":
        from sympy import false, true
        return true if ir[1] else false
    if k == "s":
        return Symbol(ir[1])
    if k == "n":
        return Not(from_ir(ir[1]))
    if k == "a":
        return And(*[from_ir(a) for a in ir[1]])
    if k == "o":
        return Or(*[from_ir(a) for a in ir[1]])
    if k == "x":
        return Xor(*[from_ir(a) for a in ir[1]])
    if k == "i":
        return ITE(*[from_ir(a) for a in ir[1:]])
    if k == "m":
        return Implies(*[from_ir(a) for a in ir[1:]])
    raise SerError(f"IR node {k}")


def ir_syms(ir, acc=None):
    acc = set() if acc is None else acc
    k = ir[0]
    if k == "s":
        acc.add(ir[1])
    elif k == "n":
        ir_syms(ir[1], acc)
    elif k in "aox":
        for a in ir[1]:
            ir_syms(a, acc)
    elif k in "im":
        for a in ir[1:]:
            ir_syms(a, acc)
    return acc


def ir_eval(ir, env):
    k = ir[0]
    if k == "c":
        return ir[1]
    if k == "s":
        return env[ir[1]]
    if k == "n":
        return not ir_eval(ir[1], env)
    if k == "a":
        return all(ir_eval(a, env) for a in ir[1])
    if k == "o":
        return any(ir_eval(a, env) for a in ir[1])
    if k == "x":
        r = False
        for a in ir[1]:
            r ^= ir_eval(a, env)
        return r
    if k == "i":
        return ir_eval(ir[2], env) if ir_eval(ir[1], env) else ir_eval(ir[3], env)
    if k == "m":
        return (not ir_eval(ir[1], env)) or ir_eval(ir[2], env)
    raise SerError(f"IR node {k}")


def ir_str(ir):
    k = ir[0]
    if k == "c":
        return "True" if ir[1] else "False"
    if k == "s":
        return ir[1]
    if k == "n":
        return "~" + ir_str(ir[1])
    if k in "aox":
        op = {"a": " & ", "o": " | ", "x": " ^ "}[k]
        return "(" + op.join(ir_str(a) for a in ir[1]) + ")"
    if k == "i":
        return "ITE(%s, %s, %s)" % tuple(ir_str(a) for a in ir[1:])
    return "Implies(%s, %s)" % tuple(ir_str(a) for a in ir[1:])


class SymTab:
    """Symbol numbering: inputs 0..n-1, index n reserved (initial output value in
    the C06 check), every other symbol n+1, n+2, ... in order of first appearance."""

    def __init__(self, inputs):
        self.inputs = list(inputs)
        self.n = len(self.inputs)
        self.idx = {}
        for i, s in enumerate(self.inputs):
            if s in self.idx:
                raise SerError(f"duplicate input symbol {s}")
            self.idx[s] = i
        self.next = self.n + 1

    def get(self, name, create=True):
        if name not in self.idx:
            if not create:
                raise SerError(f"unknown symbol {name}")
            self.idx[name] = self.next
            self.next += 1
        return self.idx[name]


def ir_coq(ir, st, allow_new=False):
    k = ir[0]
    if k == "c":
        return "(BConst true)" if ir[1] else "(BConst false)"
    if k == "s":
        return f"(BSym {cnat(st.get(ir[1], allow_new))})"
    if k == "n":
        return f"(BNot {ir_coq(ir[1], st, allow_new)})"
    if k in "aox":
        c = {"a": "BAnd", "o": "BOr", "x": "BXor"}[k]
        return "(%s %s)" % (c, clist([ir_coq(a, st, allow_new) for a in ir[1]]))
    if k == "i":
        return "(BIte %s %s %s)" % tuple(ir_coq(a, st, allow_new) for a in ir[1:])
    if k == "m":
        return "(BImp %s %s)" % tuple(ir_coq(a, st, allow_new) for a in ir[1:])
    raise SerError(f"IR node {k}")


def exprs_to_ir(exprs):
    return [((s.name if isinstance(s, Symbol) else str(s)), to_ir(e)) for s, e in exprs]


def defs_coq(irdefs, st):
    """[(name, ir)] -> Coq `defs`; every free symbol must be an input or already defined."""
    out = []
    defined = set(st.inputs)
    for name, ir in irdefs:
        for fs in ir_syms(ir):
            if fs not in defined:
                raise SerError(f"free symbol {fs} in definition of {name}")
        b = ir_coq(ir, st, allow_new=False)
        k = st.get(name, True)
        defined.add(name)
        out.append(f"({cnat(k)}, {b})")
    return clist(out)


def defs_eval(irdefs, env):
    """Sequential evaluation of [(name, ir)] from env (dict name -> bool); returns the final env."""
    env = dict(env)
    for name, ir in irdefs:
        env[name] = ir_eval(ir, env)
    return env


# ------------------------------------------------------------------ gates
_BASE = {G.I: "I", G.X: "X", G.Y: "Y", G.Z: "Z", G.H: "H", G.S: "S", G.T: "T", G.P: "P", G.Swap: "Swap"}


def gate_ir(applied):
    """(gate object, qubits, param) -> (kind string, [qubits], param or None)."""
    g, w, p = applied
    t = type(g)
    if t in _BASE:
        k = _BASE[t]
    elif t is G.CX:
        k = "CX"
    elif t is G.CZ:
        k = "CZ"
    elif t is G.CP:
        k = "CP"
    elif t is G.CCX:
        k = "CCX"
    elif t is G.MCX:
        k = f"MCX:{int(g.n_controls)}"
    elif t is G.MCtrl:
        bt = type(g.gate)
        if bt not in _BASE:
            raise SerError(f"MCtrl of {bt.__name__}")
        k = f"MCtrl:{_BASE[bt]}:{int(g.n_controls)}"
    elif t is G.Barrier:
        k = "Barrier"
    elif t is G.NopGate:
        k = "Nop"
    else:
        raise SerError(f"gate class {t.__name__}")
    qs = []
    for q in w:
        if isinstance(q, bool) or not isinstance(q, int) or q < 0:
            raise SerError(f"qubit index {q!r}")
        qs.append(int(q))
    if p is None or isinstance(p, str):
        pp = None
    elif isinstance(p, (int, float)) and not isinstance(p, bool):
        pp = float(p)
    else:
        raise SerError(f"gate parameter {p!r}")
    return (k, qs, pp)


def circuit_ir(gates):
    return [gate_ir(a) for a in gates]


def gate_coq(gi):
    k, qs, p = gi
    parts = k.split(":")
    if parts[0] == "MCX":
        kind = f"(KMCX {cnat(parts[1])})"
    elif parts[0] == "MCtrl":
        kind = f"(KMCtrl B{parts[1]} {cnat(parts[2])})"
    elif k in ("CX", "CZ", "CP", "CCX"):
        kind = "K" + k
    elif k == "Barrier":
        kind = "KBarrier"
    elif k == "Nop":
        kind = "KNop"
    else:
        kind = f"(K1 B{k})"
    if p is None:
        par = "None"
    else:
        num, den = float(p).as_integer_ratio()
        par = f"(Some (({num})%Z, {den}%N))"
    return "(mkg %s %s %s)" % (kind, clist([cnat(q) for q in qs]), par)


def circuit_coq(cir):
    return clist([gate_coq(g) for g in cir])


def x_controls(kind):
    parts = kind.split(":")
    if kind == "X":
        return 0
    if kind == "CX":
        return 1
    if kind == "CCX":
        return 2
    if parts[0] == "MCX":
        return int(parts[1])
    if parts[0] == "MCtrl" and parts[1] == "X":
        return int(parts[2])
    return None


def py_sim(cir, state):
    """Reference classical simulation of a gate IR list on a list of bools."""
    s = list(state)
    for k, w, p in cir:
        if k in ("Barrier", "Nop", "I"):
            continue
        nc = x_controls(k)
        if nc is None or len(w) != nc + 1:
            raise SerError(f"non-classical gate {k}")
        while len(s) <= max(w):
            s.append(False)
        if all(s[c] for c in w[:-1]):
            s[w[-1]] = not s[w[-1]]
    return s
