"""Exact correspondence between the synthesiser of /repo (InternalCompiler.compile and
the QCircuitEnhanced bookkeeping it drives) and its Gallina model M_Compiler.v.

Every call of InternalCompiler.compile made while compiling a corpus program, or a
directly constructed expression list, is observed inside the harness's own worker
process (the library is wrapped, never edited):
  * the arguments compile() received (argument bits, returns.bitvec, the expression
    list as sympy trees, the uncompute flag),
  * the two places where the iteration order of a Python set is observable
    (`available.pop()` in get_free_ancilla, `list(set(erets))` in compile_and /
    compile_or, read off the control list handed to mcx),
  * the result: gate list, num_qubits, qubit_map in insertion order, or the exception.
The model is then run inside coqc on the same expression list with the same choices
and must reproduce gate list, num_qubits and qubit_map EXACTLY (Chk_Compiler.run_case).

collect(tier, seed) -> dict(cases, distinct, mismatches, notes, ...)."""
import collections
import os
import random
import re
import signal
import time

from . import common as C
from . import compiled, progs
from .ser import SerError, SymTab, circuit_ir, from_ir, ir_str, to_ir

# ----------------------------------------------------------------------------
# observation of the implementation (runs in worker processes)
# ----------------------------------------------------------------------------
_STACK = []      # records of the compile() calls in progress
_DONE = []       # finished records of this task
_INSTALLED = False


def _install():
    """Wrap the synthesiser in this process (idempotent)."""
    global _INSTALLED
    if _INSTALLED:
        return
    from sympy.logic import And, Not, Or, Xor  # noqa: F401
    from qlasskit.compiler.internalcompiler import InternalCompiler
    from qlasskit.qcircuit.qcircuitenhanced import QCircuitEnhanced

    orig_compile = InternalCompiler.compile
    orig_gfa = QCircuitEnhanced.get_free_ancilla
    orig_mcx = QCircuitEnhanced.mcx

    def get_free_ancilla(self):
        before = self.num_qubits
        r = orig_gfa(self)
        if _STACK and self.num_qubits == before:
            _STACK[-1]["events"].append(("pop", int(r)))
        return r

    def mcx(self, wl, target):
        if _STACK:
            _STACK[-1]["events"].append(("ord", [int(self[w]) for w in wl]))
        return orig_mcx(self, wl, target)

    def compile_(self, name, args, returns, exprs, uncompute=True):
        rec = dict(events=[], uncompute=bool(uncompute))
        try:
            rec["inputs"] = [b for a in args for b in a.bitvec]
            rec["rets"] = None if returns is None else list(returns.bitvec)
            rec["exprs_sympy"] = [(s, e) for s, e in exprs]
        except Exception as e:  # noqa
            rec["unmodelled"] = f"arguments of compile(): {e!r}"
        _STACK.append(rec)
        try:
            qc = orig_compile(self, name, args, returns, exprs, uncompute)
            rec["status"] = "ok"
            try:
                rec["gates"] = circuit_ir(qc.gates)
            except SerError as e:
                rec["unmodelled"] = f"gate list: {e}"
            rec["num_qubits"] = int(qc.num_qubits)
            rec["qubit_map"] = [(str(k), int(v)) for k, v in qc.qubit_map.items()]
            return qc
        except BaseException as e:  # noqa
            if type(e).__name__ == "_Timeout":
                # the harness's own alarm (machine load): not an observation of the compiler
                rec["unmodelled"] = "harness timeout inside compile()"
            rec["status"] = "raise"
            rec["exc"] = f"{type(e).__name__}: {e}"[:200]
            raise
        finally:
            _STACK.pop()
            _finish(rec)
            _DONE.append(rec)

    InternalCompiler.compile = compile_
    QCircuitEnhanced.get_free_ancilla = get_free_ancilla
    QCircuitEnhanced.mcx = mcx
    _INSTALLED = True


def _or_table(exprs):
    """Rewrites of compile_or for every Or of more than two operands reachable from
    the expressions (closed under the rewrite itself): the formula is the model's,
    the constructors are sympy's."""
    from sympy.logic import And, Not, Or, Xor

    table, seen, todo = {}, set(), [e for _, e in exprs]
    while todo:
        e = todo.pop()
        if e in seen:
            continue
        seen.add(e)
        if isinstance(e, Or) and len(e.args) > 2:
            r = Not(And(*[Not(a) for a in e.args]))
            table[e] = r
            todo.append(r)
        if isinstance(e, (And, Or, Xor, Not)):
            todo.extend(e.args)
    return [(to_ir(k), to_ir(v)) for k, v in table.items()]


def _finish(rec):
    """Turn the sympy trees into plain data (fail closed)."""
    ex = rec.pop("exprs_sympy", None)
    if ex is None:
        return
    try:
        rec["exprs"] = [(s.name, to_ir(e)) for s, e in ex]
        rec["or_table"] = _or_table(ex)
    except SerError as e:
        rec["unmodelled"] = f"expression outside bexp: {e}"
    except Exception as e:  # noqa
        rec["unmodelled"] = f"expression list: {e!r}"


class _Timeout(Exception):
    pass


def _alarm(signum, frame):
    raise _Timeout()


def observe_task(task):
    """task: dict(kind='src', src, optimizer, uncompute) or
    dict(kind='exprs', inputs, rets, exprs=[(name, ir)], uncompute)."""
    _install()
    del _DONE[:]
    del _STACK[:]
    signal.signal(signal.SIGALRM, _alarm)
    signal.alarm(int(task.get("timeout", 30)))
    out = dict(status="ok")
    try:
        if task["kind"] == "src":
            from qlasskit import qlassf
            from qlasskit.boolopt import defaultOptimizer, fastOptimizer

            opt = defaultOptimizer if task["optimizer"] == "default" else fastOptimizer
            qlassf(task["src"], to_compile=True, bool_optimizer=opt, uncompute=task["uncompute"])
        else:
            from sympy import Symbol
            from qlasskit.ast2logic.typing import Arg
            from qlasskit.compiler import to_quantum

            args = [Arg(s, bool, [s]) for s in task["inputs"]]
            rets = None if task["rets"] is None else Arg("_ret", bool, list(task["rets"]))
            exprs = [(Symbol(nm), from_ir(ir)) for nm, ir in task["exprs"]]
            to_quantum("f", args, rets, exprs, uncompute=task["uncompute"])
    except _Timeout:
        out["status"] = "timeout"
    except BaseException as e:  # noqa
        out["status"] = "raise"
        out["exc"] = f"{type(e).__name__}: {e}"[:200]
    finally:
        signal.alarm(0)
    out["compiles"] = list(_DONE)
    return out


# ----------------------------------------------------------------------------
# direct expression lists (fed to qlasskit.compiler.to_quantum)
# ----------------------------------------------------------------------------
def _rand_ir(rng, leaves, depth, pool=None):
    """Random expression; compound sub-expressions are drawn again from `pool` with
    probability 1/5, so that the same sub-expression occurs several times in a list
    (that is what exercises the expression cache)."""
    if depth == 0 or rng.random() < 0.22:
        s = ("s", rng.choice(leaves))
        return ("n", s) if rng.random() < 0.25 else s
    if pool and rng.random() < 0.2:
        return rng.choice(pool)
    k = rng.random()
    if k < 0.18:
        r = ("n", _rand_ir(rng, leaves, depth - 1, pool))
    else:
        arity = 2 if rng.random() < 0.6 else rng.choice([3, 3, 4])
        ops = [_rand_ir(rng, leaves, depth - 1, pool) for _ in range(arity)]
        r = ("a", ops) if k < 0.46 else ("o", ops) if k < 0.74 else ("x", ops)
    if pool is not None:
        pool.append(r)
    return r


def fixed_expr_lists():
    """Hand-written lists: every clause of the synthesiser at least once."""
    s = lambda x: ("s", x)  # noqa: E731
    n = lambda x: ("n", x)  # noqa: E731
    A = lambda *x: ("a", list(x))  # noqa: E731
    O = lambda *x: ("o", list(x))  # noqa: E731
    X = lambda *x: ("x", list(x))  # noqa: E731
    a, b, c, d, e = (s(v) for v in "abcde")
    L = []
    L.append(("abc", ["_ret"], [("_ret", A(a, b))]))
    L.append(("abc", ["_ret"], [("_ret", O(a, b))]))
    L.append(("abc", ["_ret"], [("_ret", X(a, b, c))]))
    L.append(("abc", ["_ret"], [("_ret", n(a))]))
    L.append(("abc", ["_ret"], [("_ret", a)]))
    L.append(("abc", ["_ret"], [("_ret", ("c", True))]))
    L.append(("abc", ["_ret"], [("_ret", ("c", False))]))
    L.append(("abc", ["_ret.0", "_ret.1"], [("_ret.0", ("c", True)), ("_ret.1", ("c", True))]))
    L.append(("abc", ["_ret"], [("x", A(a, b)), ("_ret", s("x"))]))
    L.append(("abc", ["_ret"], [("x", A(a, b)), ("x", n(s("x"))), ("_ret", X(s("x"), c))]))
    L.append(("abc", ["_ret"], [("a", n(a)), ("_ret", A(a, b))]))
    L.append(("abcd", ["_ret"], [("_ret", O(a, b, c, d))]))
    L.append(("abcd", ["_ret"], [("_ret", O(A(a, b), A(c, d), n(a)))]))
    L.append(("abcd", ["_ret"], [("_ret", O(A(a, b), n(O(b, c, d)), X(a, d)))]))
    L.append(("abcde", ["_ret"], [("_ret", X(A(a, b), n(A(c, d)), e))]))
    L.append(("abcde", ["_ret"], [("_ret", X(A(a, b), n(X(c, A(d, e)))))]))
    L.append(("abcde", ["_ret"], [("_ret", A(n(X(a, b)), O(c, d), e))]))
    L.append(("abcde", ["_ret"], [("x", A(a, b)), ("y", A(s("x"), c)), ("_ret", X(s("y"), A(a, b)))]))
    L.append(("abcde", ["_ret"], [("x", X(A(a, b), c)), ("y", O(A(a, b), d)), ("_ret", A(s("x"), s("y")))]))
    L.append(("abcde", ["_ret"], [("__t", A(X(a, b), c)), ("x", A(s("__t"), d)), ("_ret", X(s("x"), A(s("__t"), e)))]))
    L.append(("abcde", ["_ret"], [("__t", A(a, b)), ("x", A(s("__t"), d)), ("_ret", X(s("x"), A(s("__t"), e)))]))
    L.append(("abcde", ["_ret"], [("__t", A(a, b)), ("x", A(s("__t"), d)), ("_ret", X(s("x"), n(s("__t"))))]))
    L.append(("abcde", ["_ret"], [("__t", A(a, b)), ("x", n(s("__t"))), ("_ret", X(s("x"), c))]))
    L.append(("abcde", ["_ret"], [("__a", X(a, b)), ("a", s("__a")), ("_ret", A(a, c))]))
    L.append(("abcde", ["_ret"], [("__a", A(a, b)), ("a", s("__a")), ("__a", O(a, c)), ("a", s("__a")), ("_ret", X(a, d))]))
    L.append(("abcde", ["_ret"], [("x", A(n(a), n(b))), ("y", A(n(a), c)), ("_ret", O(s("x"), s("y")))]))
    L.append(("abcde", ["_ret"], [("x", n(A(a, b))), ("y", n(n(A(a, b)))), ("_ret", A(s("x"), s("y"), c))]))
    L.append(("abcde", ["_ret.0", "_ret.1"], [("x", A(a, b)), ("_ret.0", X(s("x"), c)), ("_ret.1", A(s("x"), d))]))
    L.append(("abcde", ["_ret.0", "_ret.1"], [("_ret.0", a), ("_ret.1", A(a, e))]))
    # a sub-expression accumulated into a destination must not be recorded as held by it
    L.append(("abcde", ["_ret"], [("_ret", X(a, n(X(b, c)), A(X(b, c), e)))]))
    L.append(("abcde", ["_ret"], [("_ret", X(e, n(X(a, b)), A(X(a, b), d)))]))
    L.append(("abcde", ["_ret"], [("_ret", X(n(X(d, e)), A(X(d, e), a), b))]))
    L.append(("abcde", ["_ret"], [("_ret", X(A(a, b), A(A(a, b), c), A(n(A(a, b)), d)))]))
    L.append(("abcde", ["_ret"], [("_ret", X(O(a, b), A(O(a, b), c), n(A(O(a, b), d))))]))
    L.append(("abcde", ["_ret"], [("_ret", X(n(A(a, b)), A(n(A(a, b)), c), e))]))
    L.append(("abcde", ["_ret"], [("_ret", A(X(O(a, b, c), d), O(a, b, c), e))]))
    # Or operands on one qubit; Not of an n-ary Or whose qubit is still referred to
    L.append(("ab", ["_ret"], [("y", a), ("_ret", A(O(a, s("y")), b))]))
    L.append(("ab", ["_ret"], [("y", a), ("_ret", O(a, s("y")))]))
    L.append(("abcd", ["_ret"], [("_ret", O(A(O(a, b, c), n(O(a, b, c))), d))]))
    L.append(("abcd", ["_ret"], [("_ret", A(O(a, b, c), O(d, n(O(a, b, c)))))]))
    L.append(("abcd", ["_ret"], [("_ret", A(n(O(a, b, c)), O(d, n(A(n(a), n(b), n(c))))))]))
    L.append(("abc", ["_ret"], [("_ret", s("zz"))]))                     # unknown symbol: raises
    L.append(("abc", ["_ret"], [("x", A(a, s("zz"))), ("_ret", s("x"))]))  # CompilerException
    L.append(("abc", ["_ret"], [("_ret", ("i", a, b, c))]))              # ITE: CompilerException
    L.append(("abc", None, [("x", A(a, b)), ("y", X(s("x"), c))]))       # exprs_to_quantum style
    L.append(("abcdef", ["_ret"], [("_ret", A(O(a, b), O(c, d), O(e, s("f"))))]))
    L.append(("abcdef", ["_ret"], [("_ret", X(O(a, b, c), O(d, e, s("f")), A(a, d)))]))
    return [dict(kind="exprs", inputs=list(i), rets=r, exprs=x) for i, r, x in L]


def random_expr_list(rng):
    nin = rng.randint(3, 6)
    inputs = list("abcdef"[:nin])
    leaves = list(inputs)
    exprs = []
    nst = rng.randint(1, 5)
    nret = 1 if rng.random() < 0.8 else 2
    defined = []
    pool = []
    for i in range(nst):
        r = rng.random()
        if r < 0.25:
            name = f"__t{i}"
        elif r < 0.35 and defined:
            name = rng.choice(defined)         # re-binding
        elif r < 0.42:
            name = rng.choice(inputs)          # re-binding an argument name
        else:
            name = f"x{i}"
        q = rng.random()
        if q < 0.07 and name in leaves:
            ir = ("n", ("s", name))            # self-not
        elif q < 0.12:
            ir = ("s", rng.choice(leaves))     # plain copy
        else:
            ir = _rand_ir(rng, leaves, rng.choice([1, 2, 2, 3]), pool)
        exprs.append((name, ir))
        if name not in leaves:
            leaves.append(name)
            defined.append(name)
    rets = ["_ret"] if nret == 1 else ["_ret.0", "_ret.1"]
    for rn in rets:
        q = rng.random()
        if q < 0.04:
            ir = ("c", rng.random() < 0.5)
        elif q < 0.10:
            ir = ("s", rng.choice(leaves))
        else:
            ir = _rand_ir(rng, leaves, rng.choice([1, 2, 3, 3]), pool)
        exprs.append((rn, ir))
    return dict(kind="exprs", inputs=inputs, rets=rets, exprs=exprs)


# ----------------------------------------------------------------------------
# Coq case text
# ----------------------------------------------------------------------------
MAX_GATES = 1500
MAX_EXPRS = 400
_RESERVED = re.compile(r"^(anc_\d+|TRUE|FALSE)$")


class _Nums:
    """Bind every distinct numeral once (number notations dominate elaboration)."""

    def __init__(self):
        self.used = set()

    def n(self, k):
        k = int(k)
        if k < 0:
            raise SerError(f"negative number {k}")
        self.used.add(k)
        return f"n{k}"

    def header(self):
        return "".join(f"Definition n{k} : nat := {k}.\n" for k in sorted(self.used))


def _bexp(ir, st, N):
    k = ir[0]
    if k == "c":
        return "(BConst true)" if ir[1] else "(BConst false)"
    if k == "s":
        return f"(BSym {N.n(st.get(ir[1], True))})"
    if k == "n":
        return f"(BNot {_bexp(ir[1], st, N)})"
    if k in "aox":
        c = {"a": "BAnd", "o": "BOr", "x": "BXor"}[k]
        return "(%s %s)" % (c, C.clist([_bexp(a, st, N) for a in ir[1]]))
    if k == "i":
        return "(BIte %s %s %s)" % tuple(_bexp(a, st, N) for a in ir[1:])
    if k == "m":
        return "(BImp %s %s)" % tuple(_bexp(a, st, N) for a in ir[1:])
    raise SerError(f"IR node {k}")


def _qname(name, st, N):
    if name == "TRUE":
        return "NTrue"
    if name == "FALSE":
        return "NFalse"
    m = re.fullmatch(r"anc_(\d+)", name)
    if m:
        return f"(NAnc {N.n(int(m.group(1)))})"
    if name in st.idx:
        return f"(NSym {N.n(st.idx[name])})"
    raise SerError(f"qubit name {name!r} is not a symbol of the expression list")


def _gate(g, N):
    k, qs, p = g
    if p is not None:
        raise SerError("gate with a parameter")
    if k == "X":
        kind = "(K1 BX)"
    elif k == "CX":
        kind = "KCX"
    elif k.startswith("MCX:"):
        kind = f"(KMCX {N.n(int(k[4:]))})"
    else:
        raise SerError(f"gate class {k} is not produced by the modelled synthesiser")
    return "(%s, %s)" % (kind, C.clist([N.n(q) for q in qs]))


def case_coq(cid, rec, N):
    """Coq `ccase` term for one observed compile() call; raises SerError when the
    call is outside the model's scope (reported as unmodelled, never a mismatch)."""
    if rec.get("unmodelled"):
        raise SerError(rec["unmodelled"])
    st = SymTab(rec["inputs"])
    names = set(rec["inputs"]) | {nm for nm, _ in rec["exprs"]}
    defs = []
    for nm, ir in rec["exprs"]:
        b = _bexp(ir, st, N)
        defs.append("(%s, %s)" % (N.n(st.get(nm, True)), b))
    for nm in st.idx:
        if _RESERVED.match(nm):
            raise SerError(f"symbol named {nm} clashes with a qubit name of the synthesiser")
    tbl = ["(%s, %s)" % (_bexp(k, st, N), _bexp(v, st, N)) for k, v in rec["or_table"]]
    temps = [N.n(i) for nm, i in st.idx.items() if nm.startswith("__")]
    retn = [N.n(i) for nm, i in st.idx.items() if nm.startswith("_ret")]
    if rec["rets"] is None:
        rets = "None"
    else:
        for r in rec["rets"]:
            if _RESERVED.match(r):
                raise SerError(f"return bit named {r}")
        rets = "(Some %s)" % C.clist([N.n(st.idx[r]) for r in rec["rets"] if r in st.idx])
    orc = []
    for ev in rec["events"]:
        if ev[0] == "pop":
            orc.append(f"(OPop {N.n(ev[1])})")
        else:
            orc.append("(OOrd %s)" % C.clist([N.n(q) for q in ev[1]]))
    raised = rec["status"] != "ok"
    if raised:
        gates, nq, qmap = "[]", N.n(0), "[]"
    else:
        gates = C.clist([_gate(g, N) for g in rec["gates"]])
        nq = N.n(rec["num_qubits"])
        qmap = C.clist(["(%s, %s)" % (_qname(k, st, N), N.n(v)) for k, v in rec["qubit_map"]])
    return "(mkcase %d%%N %s %s %s %s %s %s %s %s %s %s %s %s)" % (
        cid, N.n(st.n), C.clist(tbl), C.clist(temps), C.clist(retn), C.clist(defs),
        C.cbool(rec["uncompute"]), rets, C.clist(orc), C.cbool(raised), gates, nq, qmap)


HEADER = (C.COQ_HEADER + "From QV Require Import Bexp BexpTT Circ Compiled M_Compiler P_Compiler Chk_Compiler.\n"
          "Local Open Scope nat_scope.\n")


def case_file(chunk):
    """chunk: [(cid, rec)] -> (text, [(cid, reason)] unmodelled)."""
    N = _Nums()
    terms, unmod = [], []
    for cid, rec in chunk:
        try:
            terms.append(case_coq(cid, rec, N))
        except SerError as e:
            unmod.append((cid, str(e)))
    body = ("Definition cs : list ccase := %s.\nEval vm_compute in (failing_cases cs).\n"
            "Eval vm_compute in (class_members cs).\n" % C.clist(terms))
    return HEADER + N.header() + body, unmod


# ----------------------------------------------------------------------------
# python-side description of a case (for reports)
# ----------------------------------------------------------------------------
def describe(rec, origin):
    return dict(origin=origin, inputs=rec.get("inputs"), rets=rec.get("rets"), uncompute=rec.get("uncompute"),
                exprs=[f"{nm} = {ir_str(ir)}" for nm, ir in rec.get("exprs", [])][:40],
                status=rec.get("status"), exc=rec.get("exc"),
                gates=[(g[0], g[1]) for g in rec.get("gates", [])][:120],
                num_qubits=rec.get("num_qubits"), qubit_map=rec.get("qubit_map"), events=rec.get("events"))


def _case_key(rec):
    return repr((rec.get("inputs"), rec.get("rets"), rec.get("uncompute"), rec.get("exprs")))


FIELDS = {1: "raise/ok status (detail = model error code, 0 = model returned a circuit)",
          2: "gate list (detail = first differing position)", 3: "num_qubits (detail = model's value)",
          4: "qubit_map (detail = first differing position)", 5: "oracle choices left unused by the model"}


def tasks_for(tier, seed):
    rng = random.Random(seed * 7919 + 17)
    tasks = []
    for origin, src in compiled.corpus(tier, seed):
        for opt, unc in progs.CONFIGS:
            tasks.append(dict(kind="src", origin=origin, src=src, optimizer=opt, uncompute=unc,
                              timeout=25 if tier == "quick" else 60))
    direct = fixed_expr_lists()
    nrand = 2500 if tier == "thorough" else 400
    direct += [random_expr_list(rng) for _ in range(nrand)]
    for t in direct:
        for unc in (True, False):
            tasks.append(dict(t, origin="direct", uncompute=unc, timeout=25))
    return tasks


def collect(tier, seed, tasks=None):
    t0 = time.time()
    tasks = tasks_for(tier, seed) if tasks is None else tasks
    res = progs.run_pool(observe_task, tasks)
    t_impl = time.time() - t0
    cases, task_status = [], collections.Counter()
    for task, out in zip(tasks, res):
        task_status[out["status"]] += 1
        for rec in out["compiles"]:
            cases.append((len(cases), rec, task))
    # deduplicate identical compile() inputs for the `distinct` count only
    distinct = len({_case_key(r) for _, r, _ in cases if "exprs" in r})
    files, unmodelled, skipped = [], [], []
    # the model appends to lists (quadratic): very large programs are left out, and
    # the case files are balanced by the number of gates they carry
    todo = []
    for cid, rec, _ in cases:
        if len(rec.get("gates", [])) > MAX_GATES or len(rec.get("exprs", [])) > MAX_EXPRS:
            skipped.append(cid)
        else:
            todo.append((cid, rec))
    weight = lambda rec: 30 + len(rec.get("gates", [])) + 4 * len(rec.get("exprs", []))  # noqa: E731
    nfiles = max(1, min(16, len(todo) // 20))
    bins = [[0, []] for _ in range(nfiles)]
    for cid, rec in sorted(todo, key=lambda cr: -weight(cr[1])):
        b = min(bins, key=lambda x: x[0])
        b[0] += weight(rec)
        b[1].append((cid, rec))
    for i, (_, chunk) in enumerate(bins):
        for j in range(0, len(chunk), 500):
            text, unmod = case_file(sorted(chunk[j:j + 500], key=lambda cr: cr[0]))
            files.append((f"model_{i}_{j}", text))
            unmodelled += unmod
    t1 = time.time()
    out = C.run_cases("c02_model", files)
    t_coq = time.time() - t1
    coq_errors, failing, in_class = [], {}, set()
    for name, (rc, so, se) in out.items():
        if rc != 0:
            coq_errors.append(dict(file=name, error=(so + se)[-1500:]))
            continue
        vals = C.parse_results(so)
        if len(vals) != 2:
            coq_errors.append(dict(file=name, error="no result printed: " + so[-500:]))
            continue
        in_class.update(C.parse_N_list(vals[1]))
        nums = C.parse_N_list(vals[0])
        for j in range(0, len(nums), 3):
            failing[nums[j]] = (nums[j + 1], nums[j + 2])
    byid = {cid: (rec, task) for cid, rec, task in cases}
    mismatches = []
    for cid, (field, detail) in sorted(failing.items()):
        rec, task = byid[cid]
        if field == 9:
            unmodelled.append((cid, "construct outside the model (n-ary Or rewrite of an unexpected shape)"))
            continue
        mismatches.append(dict(case=cid, field=FIELDS.get(field, str(field)), detail=detail,
                               source=task.get("src"), optimizer=task.get("optimizer"),
                               **describe(rec, task.get("origin"))))
    unmod_ids = {cid for cid, _ in unmodelled} | set(skipped)
    evaluated = len(cases) - len(unmod_ids)
    stats = collections.Counter()
    for cid, rec, task in cases:
        if cid in unmod_ids:
            continue
        stats["origin:" + str(task.get("origin"))] += 1
        stats["raised" if rec.get("status") != "ok" else "compiled"] += 1
        stats["pops"] += sum(1 for ev in rec["events"] if ev[0] == "pop")
        stats["orders"] += sum(1 for ev in rec["events"] if ev[0] == "ord")
        stats["orders_nontrivial"] += sum(1 for ev in rec["events"] if ev[0] == "ord" and len(ev[1]) > 1)
        stats["orders_not_ascending"] += sum(1 for ev in rec["events"] if ev[0] == "ord" and ev[1] != sorted(ev[1]))
        stats["gates"] += len(rec.get("gates", []))
        if rec.get("or_table"):
            stats["with_nary_or"] += 1
        if cid in in_class:
            stats["in_theorem_class"] += 1
            stats["in_theorem_class:" + str(task.get("origin"))] += 1
            stats["in_theorem_class_uncompute_" + ("on" if rec.get("uncompute") else "off")] += 1
    notes = []
    if coq_errors:
        notes.append("coqc failed on some case files")
    reasons = collections.Counter(r.split(":")[0][:80] for _, r in unmodelled)
    return dict(cases=evaluated, observed=len(cases), distinct=distinct, mismatches=mismatches,
                unmodelled=len(unmod_ids) - len(skipped), skipped_too_large=len(skipped), unmodelled_reasons=dict(reasons), coq_errors=coq_errors,
                task_status=dict(task_status), stats=dict(stats), notes=notes,
                exact_matches=evaluated - len(mismatches),
                wall=dict(implementation=round(t_impl, 1), coq=round(t_coq, 1), total=round(time.time() - t0, 1)))


def main(argv=None):
    import argparse
    import json

    ap = argparse.ArgumentParser()
    ap.add_argument("--tier", default="quick")
    ap.add_argument("--seed", type=int, default=C.seed_from_env())
    a = ap.parse_args(argv)
    r = collect(a.tier, a.seed)
    mm = r.pop("mismatches")
    print(json.dumps(r, indent=1, default=str))
    print("mismatches:", len(mm))
    for m in mm[:5]:
        print(json.dumps(m, indent=1, default=str))
    return 1 if (mm or r["coq_errors"]) else 0


if __name__ == "__main__":
    raise SystemExit(main())
