"""C16 — Deutsch-Jozsa, Bernstein-Vazirani, Simon circuits meet textbook guarantees.

Every case builds the real algorithm object (qlasskit.algorithms), serialises
its gate list and
 (a) compares it EXACTLY with the construction model of M_Algo.v applied to the
     black box's own gate list (model / implementation correspondence),
 (b) decides with the verified checkers of Compiled.v that the black box is a
     clean xor-oracle (c06; for Simon: c02 + c03) on ALL inputs,
 (c) evaluates the whole circuit with the verified exact-amplitude evaluator
     Amp.v inside coqc and decides the guarantee on the exact integers.
Independently of Coq the worker simulates the circuit in Python (numpy state
vector, and an exact integer simulation) and tests the guarantee and the
decoders directly on the implementation: that is the search for a failing input.

The helpers of this module (simulators, serialisation of a black box, type
decoding) are shared with c15.py."""
import itertools
import json
import math
import random
import re
from fractions import Fraction

import numpy as np

from . import common as C
from . import progs
from .ser import SerError, SymTab, circuit_coq, circuit_ir, defs_coq, x_controls

PID = "C16"
TOL = 1e-9
DENSE_MAX_QUBITS = 18
_SQ = 1.0 / math.sqrt(2.0)

COQ_IMPORTS = ("From QV Require Import Bexp BexpTT Circ Compiled Chk_Compiled Amp M_Algo Chk_Algo.\n"
               "Local Open Scope N_scope.\n")


# ---------------------------------------------------------------- simulators
def _check_gate(nq, k, w, arity):
    if len(w) != arity or len(set(w)) != len(w) or any(q >= nq for q in w):
        raise SerError(f"gate {k} on {w} in a {nq}-qubit circuit")


def _z_arity(k):
    if k == "Z":
        return 1
    if k == "CZ":
        return 2
    if k.startswith("MCtrl:Z:"):
        return int(k.split(":")[2]) + 1
    return None


def np_sim(nq, cir):
    """Dense numpy state vector of the circuit applied to |0...0>; bit q of the
    flat index is qubit q.  Gate set of the algorithm circuits only."""
    st = np.zeros(1 << nq)
    st[0] = 1.0
    idx = np.arange(1 << nq)
    for k, w, p in cir:
        if k in ("Barrier", "Nop"):
            continue
        if k == "I":
            _check_gate(nq, k, w, 1)
            continue
        nc = x_controls(k)
        za = _z_arity(k)
        if k == "H":
            _check_gate(nq, k, w, 1)
            v = st.reshape(-1, 2, 1 << w[0])
            new = np.empty_like(v)
            new[:, 0, :] = (v[:, 0, :] + v[:, 1, :]) * _SQ
            new[:, 1, :] = (v[:, 0, :] - v[:, 1, :]) * _SQ
            st = new.reshape(-1)
        elif nc is not None:
            _check_gate(nq, k, w, nc + 1)
            t = w[-1]
            m = ((idx >> t) & 1) == 0
            for c in w[:-1]:
                m &= ((idx >> c) & 1) == 1
            sel = np.nonzero(m)[0]
            tmp = st[sel].copy()
            st[sel] = st[sel | (1 << t)]
            st[sel | (1 << t)] = tmp
        elif za is not None:
            _check_gate(nq, k, w, za)
            m = np.ones(1 << nq, dtype=bool)
            for c in w:
                m &= ((idx >> c) & 1) == 1
            st = np.where(m, -st, st)
        elif k == "Swap":
            _check_gate(nq, k, w, 2)
            a, b = w
            m = (((idx >> a) & 1) == 1) & (((idx >> b) & 1) == 0)
            sel = np.nonzero(m)[0]
            oth = (sel ^ (1 << a)) | (1 << b)
            tmp = st[sel].copy()
            st[sel] = st[oth]
            st[oth] = tmp
        else:
            raise SerError(f"gate {k} outside the algorithm gate set")
    return st


def sparse_sim(nq, cir, exact=True):
    """Sparse simulation on |0...0>: dict index -> amplitude.  exact=True: integer
    amplitudes and a counter k (divide by sqrt(2)^k); exact=False: floats."""
    st = {0: 1 if exact else 1.0}
    kk = 0
    for k, w, p in cir:
        if k in ("Barrier", "Nop"):
            continue
        if k == "I":
            _check_gate(nq, k, w, 1)
            continue
        nc = x_controls(k)
        za = _z_arity(k)
        if k == "H":
            _check_gate(nq, k, w, 1)
            bit = 1 << w[0]
            new = {}
            for i, a in st.items():
                i0 = i & ~bit
                new[i0] = new.get(i0, 0) + a
                new[i0 | bit] = new.get(i0 | bit, 0) + (-a if i & bit else a)
            if exact:
                st = {i: a for i, a in new.items() if a != 0}
                kk += 1
            else:
                st = {i: a * _SQ for i, a in new.items() if abs(a) > 1e-15}
        elif nc is not None:
            _check_gate(nq, k, w, nc + 1)
            cm = sum(1 << c for c in w[:-1])
            tb = 1 << w[-1]
            st = {((i ^ tb) if (i & cm) == cm else i): a for i, a in st.items()}
        elif za is not None:
            _check_gate(nq, k, w, za)
            cm = sum(1 << c for c in w)
            st = {i: (-a if (i & cm) == cm else a) for i, a in st.items()}
        elif k == "Swap":
            _check_gate(nq, k, w, 2)
            a_, b_ = w
            new = {}
            for i, a in st.items():
                ba, bb = (i >> a_) & 1, (i >> b_) & 1
                j = i if ba == bb else i ^ (1 << a_) ^ (1 << b_)
                new[j] = a
            st = new
        else:
            raise SerError(f"gate {k} outside the algorithm gate set")
    return st, kk


def simulate(nq, cir, n):
    """Returns dict(k, marg=[exact numerators over the low n qubits], full={index: amplitude}
    (exact), fprobs=[float probabilities over the low n qubits] from the float simulation)."""
    st, k = sparse_sim(nq, cir, exact=True)
    marg = [0] * (1 << n)
    mask = (1 << n) - 1
    for i, a in st.items():
        marg[i & mask] += a * a
    if nq <= DENSE_MAX_QUBITS:
        v = np_sim(nq, cir)
        pr = v * v
        fp = np.zeros(1 << n)
        np.add.at(fp, np.arange(1 << nq) & mask, pr)
        fprobs = [float(x) for x in fp]
        method = "numpy-dense"
    else:
        fs, _ = sparse_sim(nq, cir, exact=False)
        fp = [0.0] * (1 << n)
        for i, a in fs.items():
            fp[i & mask] += a * a
        fprobs = fp
        method = "float-sparse"
    return dict(k=k, marg=marg, full=st, fprobs=fprobs, method=method)


# ---------------------------------------------------------------- argument types
def parse_type(s):
    """'bool' | 'Qint[w]' | 'Tuple[T, ...]'  ->  ('bool',) | ('Qint', w) | ('Tuple', [T...])"""
    toks = re.findall(r"[A-Za-z_]+|\d+|[\[\],]", s.replace("typing.", ""))
    pos = [0]

    def nxt():
        t = toks[pos[0]]
        pos[0] += 1
        return t

    def ty():
        t = nxt()
        if t == "bool":
            return ("bool",)
        if t == "Qint":  # type_repr prints Qint2; annotations are written Qint[2]
            d = nxt()
            if d == "[":
                w = int(nxt())
                if nxt() != "]":
                    raise SerError(f"type {s}")
            else:
                w = int(d)
            return ("Qint", w)
        if t == "Tuple":
            if nxt() != "[":
                raise SerError(f"type {s}")
            els = [ty()]
            while True:
                d = nxt()
                if d == "]":
                    break
                if d != ",":
                    raise SerError(f"type {s}")
                els.append(ty())
            return ("Tuple", els)
        raise SerError(f"argument type {s}")

    r = ty()
    if pos[0] != len(toks):
        raise SerError(f"type {s}")
    return r


def type_size(t):
    if t[0] == "bool":
        return 1
    if t[0] == "Qint":
        return t[1]
    return sum(type_size(e) for e in t[1])


def value_of(t, bits):
    """The value of type t held by a little-endian bit list (argument bit j on qubit j)."""
    if t[0] == "bool":
        return bool(bits[0])
    if t[0] == "Qint":
        return sum(1 << j for j in range(t[1]) if bits[j])
    out, p = [], 0
    for e in t[1]:
        sz = type_size(e)
        out.append(value_of(e, bits[p:p + sz]))
        p += sz
    return tuple(out)


def same_value(t, got, exp):
    """got (the implementation's decoded object) is the value exp IN the type t."""
    if t[0] == "bool":
        return isinstance(got, bool) and got == exp
    if t[0] == "Qint":
        return type(got).__name__ == f"Qint{t[1]}" and int(got) == exp
    return (isinstance(got, tuple) and len(got) == len(t[1])
            and all(same_value(e, g, x) for e, g, x in zip(t[1], got, exp)))


def bits_of(x, n):
    return [bool((x >> j) & 1) for j in range(n)]


def measured_string(i, nq):
    """What measure_all() prints for basis index i: qubit 0 is the LAST character."""
    return format(i, f"0{nq}b")


# ---------------------------------------------------------------- black box -> Coq
def oracle_terms(obs):
    """Coq terms of a compiled black box (observation of progs.observe_qf)."""
    inputs = [b for a in obs["args"] for b in a[2]]
    st = SymTab(inputs)
    d = defs_coq(obs["exprs"], st)
    qmap = dict(obs["qubit_map"])
    if obs.get("input_qubits") != list(range(st.n)):
        raise SerError(f"input_qubits is {obs.get('input_qubits')!r}, expected 0..{st.n - 1}")
    nq = obs["num_qubits"]
    for k, w, p in obs["gates"]:
        for q in w:
            if q >= nq:
                raise SerError(f"gate on qubit {q} of a {nq}-qubit circuit")
    rets = []
    for r in obs["ret"][1]:
        if r not in qmap or r not in st.idx:
            raise SerError(f"return bit {r} is not mapped to a qubit / not defined")
        rets.append((st.idx[r], qmap[r]))
    return dict(n=st.n, nq=nq, gates=circuit_coq(obs["gates"]), defs=d, rets=rets)


def eval_defs(obs, x):
    """Value of every defined symbol for input number x (bit j = input bit j)."""
    from .ser import defs_eval
    inputs = [b for a in obs["args"] for b in a[2]]
    return defs_eval(obs["exprs"], {b: bool((x >> j) & 1) for j, b in enumerate(inputs)})


def chunked(cases, size):
    for i in range(0, len(cases), size):
        yield i, cases[i:i + size]


def parse_case_results(res):
    """{case id: [numbers]} from the outputs of run_cases; errors listed separately."""
    out, errors = {}, []
    for name, (rc, so, se) in res.items():
        if rc != 0:
            errors.append(dict(file=name, error=(so + se)[-1500:]))
            continue
        for v in C.parse_results(so):
            try:
                nums = C.parse_N_list(v)
            except ValueError:
                errors.append(dict(file=name, error="unparsable: " + v[:200]))
                continue
            if nums:
                out[nums[0]] = nums
    return out, errors


# ---------------------------------------------------------------- sources
def anf_monomials(n, table):
    """Monomials (bit masks) of the algebraic normal form of the function whose value on x is bit x of table."""
    c = [(table >> x) & 1 for x in range(1 << n)]
    for i in range(n):
        for x in range(1 << n):
            if x & (1 << i):
                c[x] ^= c[x ^ (1 << i)]
    return [m for m in range(1 << n) if c[m]]


def _sig(n, arg):
    if arg == "tuple":
        return "k: Tuple[" + ", ".join(["bool"] * n) + "]"
    if n == 1:
        return "k: bool"
    return f"k: Qint[{n}]"


def _bit(n, arg, i):
    return "k" if (n == 1 and arg != "tuple") else f"k[{i}]"


def src_dnf(n, table, arg="qint", name="test"):
    terms = []
    for x in range(1 << n):
        if (table >> x) & 1:
            terms.append("(" + " and ".join(_bit(n, arg, i) if (x >> i) & 1 else f"(not {_bit(n, arg, i)})" for i in range(n)) + ")")
    return f"def {name}({_sig(n, arg)}) -> bool:\n    return " + (" or ".join(terms) if terms else "False")


def src_anf(n, table, arg="qint", name="test"):
    ms = anf_monomials(n, table)
    terms = []
    for m in ms:
        if m == 0:
            terms.append("True")
        else:
            terms.append("(" + " and ".join(_bit(n, arg, i) for i in range(n) if (m >> i) & 1) + ")")
    return f"def {name}({_sig(n, arg)}) -> bool:\n    return " + (" ^ ".join(terms) if terms else "False")


def src_lookup(n, table, name="test"):
    vals = ", ".join("True" if (table >> x) & 1 else "False" for x in range(1 << n))
    return f"def {name}(k: Qint[{n}]) -> bool:\n    l = [{vals}]\n    return l[k]"


def src_literal(n, value, arg="qint", name="test"):
    return f"def {name}({_sig(n, arg)}) -> bool:\n    return {'True' if value else 'False'}"


# ---------------------------------------------------------------- worker
def _compile(task):
    from qlasskit import qlassf
    from qlasskit.boolopt import defaultOptimizer, fastOptimizer
    opt = fastOptimizer if task.get("opt") == "fast" else defaultOptimizer
    return qlassf(task["src"], bool_optimizer=opt)


def _decode_report(algo, nq, n, argt, full, expected_of):
    """Run decode_output on every outcome of non-zero probability (full measured
    string and search-register-only string) and decode_counts on the whole
    distribution; compare with expected_of(y)."""
    bad = []
    counts, exp_counts = {}, {}
    seen = set()
    for i, a in sorted(full.items()):
        y = i & ((1 << n) - 1)
        w = a * a
        s_full = measured_string(i, nq)
        counts[s_full] = counts.get(s_full, 0) + w
        e = expected_of(y)
        ek = repr(e)
        exp_counts[ek] = exp_counts.get(ek, 0) + w
        if y in seen:
            continue
        seen.add(y)
        for s in (s_full, measured_string(y, n)):
            try:
                got = algo.decode_output(s)
            except Exception as ex:  # noqa
                bad.append(dict(measured=s, raised=repr(ex)[:200]))
                continue
            if not expected_of(y, got):
                bad.append(dict(measured=s, decoded=repr(got), decoded_type=type(got).__name__, expected=repr(e)))
    try:
        dc = algo.decode_counts(dict(counts))
        got_counts = {}
        for kk, v in dc.items():
            got_counts[repr_plain(kk)] = got_counts.get(repr_plain(kk), 0) + v
        if got_counts != exp_counts:
            bad.append(dict(decode_counts={k: str(v) for k, v in got_counts.items()},
                            expected={k: str(v) for k, v in exp_counts.items()}))
    except Exception as ex:  # noqa
        bad.append(dict(decode_counts_raised=repr(ex)[:200]))
    return bad


def repr_plain(v):
    """repr of a decoded value with Qint instances shown as plain ints (so that it
    can be compared with the repr of the expected plain value)."""
    if isinstance(v, bool) or isinstance(v, str):
        return repr(v)
    if isinstance(v, int):
        return repr(int(v))
    if isinstance(v, tuple):
        return "(" + ", ".join(repr_plain(x) for x in v) + ("," if len(v) == 1 else "") + ")"
    return repr(v)


class _Expect:
    """expected_of(y) -> expected plain value; expected_of(y, got) -> got is that value in the right type."""

    def __init__(self, fn_value, fn_same):
        self.fn_value, self.fn_same = fn_value, fn_same

    def __call__(self, y, *got):
        if got:
            return self.fn_same(y, got[0])
        return self.fn_value(y)


def algo_task(task):
    """Worker: build one algorithm object and observe everything the check needs (plain data)."""
    import signal
    signal.signal(signal.SIGALRM, progs._alarm)
    signal.alarm(int(task.get("timeout", 120)))
    try:
        from qlasskit.algorithms import BernsteinVazirani, DeutschJozsa, Simon, secret_oracle
        kind = task["kind"]
        if kind == "bv" and task.get("use_secret_oracle"):
            qf = secret_oracle(task["n"], task["s"])
        else:
            qf = _compile(task)
        before = (circuit_ir(qf.circuit().gates), qf.circuit().num_qubits)
        algo = {"dj": DeutschJozsa, "bv": BernsteinVazirani, "simon": Simon}[kind](qf)
        obs = progs.observe_qf(qf)
        after = (obs["gates"], obs["num_qubits"])
        qc = algo.circuit()
        cir = circuit_ir(qc.gates)
        nq = qc.num_qubits
        n = progs.n_input_bits(obs)
        out = dict(status="ok", oracle=obs, gates=cir, nq=nq, n=n,
                   output_qubits=list(algo.output_qubits), oracle_mutated=(before != after))
        for k, w, p in cir:
            for q in w:
                if q >= nq:
                    raise SerError(f"algorithm circuit: gate on qubit {q} of {nq}")
        sim = simulate(nq, cir, n)
        out.update(k=sim["k"], marg=sim["marg"], fprobs=sim["fprobs"], sim_method=sim["method"],
                   support=len(sim["full"]))
        argt = parse_type(obs["args"][0][1])
        out["argtype"] = obs["args"][0][1]
        if kind == "dj":
            exp = _Expect(lambda y: "Constant" if y == 0 else "Balanced",
                          lambda y, g: g == ("Constant" if y == 0 else "Balanced"))
        else:
            exp = _Expect(lambda y: value_of(argt, bits_of(y, n)),
                          lambda y, g: same_value(argt, g, value_of(argt, bits_of(y, n))))
        out["decode_bad"] = _decode_report(algo, nq, n, argt, sim["full"], exp)
        # the function as Python computes it (original_f), on every input
        of = []
        try:
            for x in range(1 << n):
                v = qf.original_f(value_of_arg(argt, bits_of(x, n)))
                of.append(plain_result(v))
        except Exception as ex:  # noqa
            of = None
            out["original_f_exc"] = repr(ex)[:200]
        out["original_f"] = of
        return out
    except progs._Timeout:
        return dict(status="timeout")
    except BaseException as e:  # noqa
        import traceback
        return dict(status="raise", exc=f"{type(e).__name__}: {e}"[:300], tb=traceback.format_exc()[-800:])
    finally:
        signal.alarm(0)


def value_of_arg(t, bits):
    """A Python argument for original_f: the qlasskit value of type t held by the bits."""
    import qlasskit
    if t[0] == "bool":
        return bool(bits[0])
    if t[0] == "Qint":
        return getattr(qlasskit, f"Qint{t[1]}")(value_of(t, bits))
    out, p = [], 0
    for e in t[1]:
        sz = type_size(e)
        out.append(value_of_arg(e, bits[p:p + sz]))
        p += sz
    return tuple(out)


def plain_result(v):
    if isinstance(v, bool):
        return bool(v)
    if isinstance(v, int):
        return int(v)
    if isinstance(v, tuple):
        return tuple(plain_result(x) for x in v)
    return repr(v)


# ---------------------------------------------------------------- case generation
def balanced_tables(n):
    N = 1 << n
    for ones in itertools.combinations(range(N), N // 2):
        yield sum(1 << x for x in ones)


def dj_cases(tier, rng):
    cases = []
    for n in (1, 2, 3):
        full = (1 << (1 << n)) - 1
        tables = [0, full] + list(balanced_tables(n))
        for t in tables:
            forms = [("dnf", src_dnf(n, t)), ("anf", src_anf(n, t))]
            if t in (0, full):
                forms.append(("literal", src_literal(n, t == full)))
            if n >= 2:
                forms.append(("lookup", src_lookup(n, t)))
            for fname, src in forms:
                cases.append(dict(kind="dj", n=n, table=t, form=fname, src=src, opt="default"))
        # the same functions compiled with the other optimizer profile (a sample)
        for t in rng.sample(tables, min(len(tables), 6 if tier == "quick" else 30)):
            cases.append(dict(kind="dj", n=n, table=t, form="dnf/fast", src=src_dnf(n, t), opt="fast"))
    n = 4
    full = (1 << 16) - 1
    tabs = [0, full]
    seen = set()
    want = 12 if tier == "quick" else 160
    while len(seen) < want:
        ones = rng.sample(range(16), 8)
        seen.add(sum(1 << x for x in ones))
    tabs += sorted(seen)
    for t in tabs:
        cases.append(dict(kind="dj", n=n, table=t, form="dnf", src=src_dnf(n, t), opt="default"))
        cases.append(dict(kind="dj", n=n, table=t, form="anf", src=src_anf(n, t), opt="default"))
    # tuple-typed argument (same circuits, other decoder path)
    for n in (2, 3):
        full = (1 << (1 << n)) - 1
        bal = list(balanced_tables(n))
        for t in [0, full] + rng.sample(bal, 2):
            cases.append(dict(kind="dj", n=n, table=t, form="dnf/tuple", src=src_dnf(n, t, arg="tuple"), opt="default", tuple_arg=True))
    return cases


def bv_cases(tier, rng):
    cases = []
    # secret_oracle needs a shipped Qint width: 1-bit secrets through a hand-written bool oracle
    cases.append(dict(kind="bv", n=1, s=0, form="bool", src="def oracle(x: bool) -> bool:\n    return False", opt="default"))
    cases.append(dict(kind="bv", n=1, s=1, form="bool", src="def oracle(x: bool) -> bool:\n    return x", opt="default"))
    for n in (2, 3, 4, 5):
        for s in range(1 << n):
            cases.append(dict(kind="bv", n=n, s=s, form="secret_oracle", use_secret_oracle=True, src=f"secret_oracle({n}, {s})"))
    if tier == "thorough":
        for n in (6, 7, 8):
            for s in rng.sample(range(1 << n), 24):
                cases.append(dict(kind="bv", n=n, s=s, form="secret_oracle", use_secret_oracle=True, src=f"secret_oracle({n}, {s})"))
    return cases


def simon_table(n, s, rng):
    reps = [x for x in range(1 << n) if x < (x ^ s)]
    vals = rng.sample(range(1 << n), len(reps))
    tab = [0] * (1 << n)
    for r, v in zip(reps, vals):
        tab[r] = v
        tab[r ^ s] = v
    return tab


def simon_cases(tier, rng):
    cases = []
    per = 2 if tier == "quick" else 6
    for n in (2, 3, 4):
        for s in range(1, 1 << n):
            j = s.bit_length() - 1
            cases.append(dict(kind="simon", n=n, s=s, form="fold",
                              src=f"def test(k: Qint[{n}]) -> Qint[{n}]:\n    return (k ^ {s}) if k[{j}] else k", opt="default"))
            for _ in range(per):
                tab = simon_table(n, s, rng)
                cases.append(dict(kind="simon", n=n, s=s, form="lookup", table=tab,
                                  src=f"def test(k: Qint[{n}]) -> Qint[{n}]:\n    l = {tab}\n    return l[k]", opt="default"))
    # two-to-one functions whose result is NARROWER than the argument (compact coset maps)
    cases.append(dict(kind="simon", n=2, s=2, form="compact", src="def test(k: Qint[2]) -> bool:\n    return k[0]", opt="default"))
    cases.append(dict(kind="simon", n=2, s=1, form="compact", src="def test(k: Qint[2]) -> bool:\n    return k[1]", opt="default"))
    cases.append(dict(kind="simon", n=2, s=3, form="compact", src="def test(k: Qint[2]) -> bool:\n    return k[0] ^ k[1]", opt="default"))
    cases.append(dict(kind="simon", n=3, s=4, form="compact", src="def test(k: Qint[3]) -> Qint[2]:\n    return k & 3", opt="default"))
    cases.append(dict(kind="simon", n=3, s=5, form="compact",
                      src="def test(k: Qint[3]) -> Tuple[bool, bool]:\n    return (k[0] ^ k[2], k[1])", opt="default"))
    return cases


# ---------------------------------------------------------------- direct property tests
def popcount(x):
    return bin(x).count("1")


def direct_dj(case, r):
    """Failing-input search on the implementation's own circuit (Python simulation)."""
    n, k, marg = r["n"], r["k"], r["marg"]
    t = case["table"]
    cnt = popcount(t)
    p0 = Fraction(marg[0], 1 << k)
    bad = []
    if cnt in (0, 1 << n) and p0 != 1:
        bad.append(f"constant f: P(0...0) = {p0} (must be 1)")
    if cnt == (1 << n) // 2 and p0 != 0:
        bad.append(f"balanced f: P(0...0) = {p0} (must be 0)")
    if abs(r["fprobs"][0] - float(p0)) > TOL:
        bad.append(f"float simulation gives P(0...0) = {r['fprobs'][0]!r}, exact simulation {p0}")
    return bad


def direct_bv(case, r):
    n, k, marg, s = r["n"], r["k"], r["marg"], case["s"]
    bad = []
    ps = Fraction(marg[s], 1 << k)
    if ps != 1:
        best = max(range(1 << n), key=lambda y: marg[y])
        bad.append(f"P(outcome = s = {s}) = {ps} (must be 1); most likely outcome {best}")
    if abs(r["fprobs"][s] - float(ps)) > TOL:
        bad.append(f"float simulation gives P(s) = {r['fprobs'][s]!r}, exact simulation {ps}")
    return bad


def dot(a, b):
    return popcount(a & b) & 1


def direct_simon(case, r):
    n, k, marg, s = r["n"], r["k"], r["marg"], case["s"]
    bad = []
    nz = [y for y in range(1 << n) if marg[y] != 0]
    for y in nz:
        if dot(y, s):
            bad.append(f"outcome y = {y} has probability {Fraction(marg[y], 1 << k)} but y.s = 1 (s = {s})")
    if len(set(marg[y] for y in nz)) > 1:
        bad.append("outcomes of non-zero probability are not equally likely: " + str({y: str(Fraction(marg[y], 1 << k)) for y in nz}))
    if len(nz) != (1 << n) // 2:
        bad.append(f"{len(nz)} outcomes have non-zero probability, expected all {(1 << n) // 2} with y.s = 0")
    for y in range(1 << n):
        if abs(r["fprobs"][y] - marg[y] / (1 << k)) > TOL:
            bad.append(f"float simulation P({y}) = {r['fprobs'][y]!r} differs from the exact {Fraction(marg[y], 1 << k)}")
            break
    return bad


def case_replay(case, r=None):
    d = {k: v for k, v in case.items() if k in ("kind", "n", "s", "table", "form", "src", "opt", "use_secret_oracle")}
    if r is not None and r.get("status") == "ok":
        d["gates"] = [(g[0], g[1]) for g in r["gates"]][:300]
        d["num_qubits"] = r["nq"]
        d["exact_marginal_over_2^k"] = [str(x) for x in r["marg"]][:64]
        d["k"] = r["k"]
    return d


# ---------------------------------------------------------------- the check
def coq_case(cid, case, r):
    ot = oracle_terms(r["oracle"])
    n, nq = ot["n"], ot["nq"]
    impl = circuit_coq(r["gates"])
    kind = case["kind"]
    if r["nq"] != nq:
        raise SerError(f"algorithm circuit has {r['nq']} qubits, the black box {nq}")
    if kind in ("dj", "bv"):
        if len(ot["rets"]) != 1:
            raise SerError("black box does not have exactly one return bit")
        rs, ret = ot["rets"][0]
        if not (n <= ret < nq):
            raise SerError(f"_ret on qubit {ret}: not in {n}..{nq - 1}")
        if kind == "dj":
            return (f"Eval vm_compute in (chk_dj {cid} {C.cnat(n)} {C.cnat(nq)} {ot['gates']} {ot['defs']} "
                    f"{C.cnat(rs)} {C.cnat(ret)} {impl}).")
        return (f"Eval vm_compute in (chk_bv {cid} {C.cnat(n)} {C.cnat(nq)} {ot['gates']} {ot['defs']} "
                f"{C.cnat(rs)} {C.cnat(ret)} {case['s']} {impl}).")
    rets = C.clist(["(%s, %s)" % (C.cnat(a), C.cnat(b)) for a, b in ot["rets"]])
    for _, q in ot["rets"]:
        if not (n <= q < nq):
            raise SerError(f"return bit on qubit {q}: not in {n}..{nq - 1}")
    return (f"Eval vm_compute in (chk_simon {cid} {C.cnat(n)} {C.cnat(nq)} {ot['gates']} {ot['defs']} "
            f"{rets} {case['s']} {impl}).")


def run(tier, seed):
    chk = C.Check(PID, tier, seed, level="proof")
    rng = random.Random(seed)
    ok, log = C.coq_build()
    obl = C.prop_obligations(PID) if ok else dict(theorems=[], axioms={}, ok=False, log=log)
    if not ok or not obl["ok"]:
        chk.broken("theorems of Prop_C16.v do not check", (log + obl.get("log", ""))[-3000:])
    known = {f.get("id"): f for f in C.known_findings(PID)}

    cases = dj_cases(tier, rng) + bv_cases(tier, rng) + simon_cases(tier, rng)
    for i, c in enumerate(cases):
        c["id"] = i
        c.setdefault("timeout", 120 if tier == "quick" else 300)
    results = progs.run_pool(algo_task, cases)

    # ---- Coq side
    coq_items, ser_errors = [], []
    for c, r in zip(cases, results):
        if r.get("status") != "ok":
            continue
        try:
            coq_items.append((c["id"], coq_case(c["id"], c, r)))
        except SerError as e:
            ser_errors.append((c, r, str(e)))
    files = [(f"cases_{i}", C.COQ_HEADER + COQ_IMPORTS + "\n".join(t for _, t in chunk) + "\n")
             for i, chunk in chunked(coq_items, 30)]
    res = C.run_cases(PID, files) if ok else {}
    coq, coq_errors = parse_case_results(res)

    # ---- verdicts
    per_kind = {"dj": 0, "bv": 0, "simon": 0}
    distinct = set()
    n_eval = 0
    finding_hits = {}
    corr_bad, model_bad = [], []
    for c, r in zip(cases, results):
        kind = c["kind"]
        if r.get("status") != "ok":
            chk.violation(f"{kind}: building the algorithm object failed ({r.get('status')}: {r.get('exc', '')})",
                          dict(case=case_replay(c), traceback=r.get("tb")))
            continue
        n_eval += 1
        per_kind[kind] += 1
        distinct.add((kind, json.dumps(r["gates"])))
        bad = {"dj": direct_dj, "bv": direct_bv, "simon": direct_simon}[kind](c, r)
        if bad:
            chk.violation(f"{kind}: the textbook guarantee fails on the implementation's circuit: " + "; ".join(bad[:3]),
                          dict(case=case_replay(c, r)))
        if r["output_qubits"] != list(range(r["n"])):
            chk.violation(f"{kind}: output_qubits is {r['output_qubits']}, not the argument register",
                          dict(case=case_replay(c, r)))
        if r["oracle_mutated"]:
            chk.violation(f"{kind}: constructing the algorithm changed the black box's own circuit", dict(case=case_replay(c, r)))
        # the compiled function is the declared one (so that 'constant/balanced/secret/period' mean what the case says)
        decl_bad = declared_function_mismatch(c, r)
        if decl_bad:
            chk.violation(f"{kind}: the compiled black box is not the declared function: {decl_bad}", dict(case=case_replay(c, r)))
        if r["decode_bad"]:
            if c.get("tuple_arg") and kind == "dj":
                finding_hits.setdefault("dj-decode-tuple", []).append((c, r))
            else:
                chk.violation(f"{kind}: decode_output / decode_counts do not report the outcome in the argument type: {r['decode_bad'][0]}",
                              dict(case=case_replay(c, r), decode=r["decode_bad"][:5]))
        nums = coq.get(c["id"])
        if nums is None:
            continue
        v = interpret(kind, c, r, nums)
        if v["corr"] != 1:
            corr_bad.append(dict(case=case_replay(c, r), what="gate list differs from the construction model of M_Algo.v"))
        if v["oracle_status"] != [0] * len(v["oracle_status"]):
            chk.violation(f"{kind}: the black box is not a clean oracle for its expressions (verified checker, status {v['oracle_status']}, witness {v['oracle_wit']})",
                          dict(case=case_replay(c, r)))
        if not v["amp_ok"]:
            model_bad.append(dict(case=case_replay(c, r), what="Amp evaluator undefined on the circuit or final list not strictly sorted"))
            continue
        if v["k"] != r["k"] or v["ps"] != r["marg"]:
            model_bad.append(dict(case=case_replay(c, r), what="exact amplitudes of Amp.v differ from the exact Python simulation",
                                  coq=[str(x) for x in v["ps"]][:32], coq_k=v["k"]))
        for y, (a, b) in enumerate(zip(v["ps"], r["fprobs"])):
            if abs(a / (1 << v["k"]) - b) > TOL:
                model_bad.append(dict(case=case_replay(c, r), what=f"Amp.v probability of outcome {y} differs from the float simulation by more than 1e-9"))
                break
        if v["extra"] != 1 and kind != "dj":
            model_bad.append(dict(case=case_replay(c, r), what="declared function (secret / period) not confirmed by the model-side evaluation of the expressions"))
        if v["verdict"] != 0 and not bad:
            model_bad.append(dict(case=case_replay(c, r), what=f"Coq-side verdict {v['verdict']} but the Python test found nothing"))
    for c, r, e in ser_errors:
        chk.violation("implementation artefact cannot be interpreted: " + e, dict(case=case_replay(c, r)))
    for fid, hits in finding_hits.items():
        c, r = hits[0]
        what = (f"DeutschJozsa.decode_output with a tuple-typed argument reports {r['decode_bad'][0]} "
                f"({len(hits)} cases, e.g. {c['src']!r})")
        if fid in known:
            chk.known(known[fid], what)
        else:
            chk.violation("dj: " + what, dict(case=case_replay(c, r), decode=r["decode_bad"][:5], finding_id=fid))
    if coq_errors:
        chk.broken("the Coq case files could not be evaluated", coq_errors[:3])
    missing = [c["id"] for c, r in zip(cases, results) if r.get("status") == "ok" and c["id"] not in coq
               and not any(c is cc for cc, _, _ in ser_errors)]
    if missing and ok and not coq_errors:
        chk.broken("no Coq result for some cases", missing[:20])
    if corr_bad:
        if chk.violations:
            chk.notes.append(corr_bad[:5])
        else:
            chk.broken("model / implementation correspondence: the algorithm's gate list is not the one M_Algo.v constructs", corr_bad[:5])
    if model_bad:
        if chk.violations:
            chk.notes.append(model_bad[:5])
        else:
            chk.broken("Coq-side evaluation disagrees with the Python-side observation", model_bad[:5])

    chk.coverage.update(
        evaluations=n_eval, distinct_nontrivial=len(distinct), per_algorithm=per_kind,
        coq_case_files=len(files), coq_cases_decided=len(coq),
        rule="Deutsch-Jozsa: every constant and every balanced function on 1..3 bits (exhaustive: 4 + 8 + 72 functions) as minterm DNF, "
             "algebraic normal form (xor of and-monomials), literal and list lookup sources, a sample under the fast optimizer profile, "
             "tuple-typed arguments, and sampled balanced functions on 4 bits; Bernstein-Vazirani: secret_oracle(n, s) for every s on 2..5 bits "
             "(1-bit secrets through a hand-written bool oracle: secret_oracle(1, s) is not constructible, Qint[1] is not a type); "
             "Simon: every period s != 0 on 2..4 bits, one closed-form f and several random two-to-one lookup tables each. "
             "Every case: gate list == M_Algo construction, black box decided by the verified checkers on all inputs, whole circuit "
             "evaluated exactly by Amp.v in coqc, exact Python simulation and float state vector compared; distinct = distinct (algorithm, gate list)",
        exhaustive_small_sizes=True, impl_failures=sum(1 for v, ni in chk.violations if not ni),
        traces_validated_against_impl=len(coq),
    )
    chk.samples = [case_replay(c) for c in (cases[0], cases[len(cases) // 2], cases[-1])]
    chk.assumptions = ["input bit j of the single argument sits on qubit j (QlassF.input_qubits, checked per case)",
                       "measurement strings are those of measure_all(): qubit 0 is the last character"]
    return chk.finish(obl)


def declared_function_mismatch(c, r):
    """The function the case declares (truth table / secret / period table) against the
    black box's expressions evaluated in Python and against original_f."""
    n, kind, obs = r["n"], c["kind"], r["oracle"]
    qret = obs["ret"][1]
    if c.get("form") == "compact":
        # declared only as "two-to-one with period s": check exactly that on the expressions
        vals = []
        for x in range(1 << n):
            env = eval_defs(obs, x)
            vals.append(sum(1 << j for j, b in enumerate(qret) if env[b]))
        for x in range(1 << n):
            if vals[x] != vals[x ^ c["s"]]:
                return f"expressions give {vals[x]} on {x} but {vals[x ^ c['s']]} on {x ^ c['s']}: not periodic with s = {c['s']}"
            if sum(1 for y in range(1 << n) if vals[y] == vals[x]) != 2:
                return f"value {vals[x]} is taken {sum(1 for y in range(1 << n) if vals[y] == vals[x])} times: not two-to-one"
        return None
    for x in range(1 << n):
        env = eval_defs(obs, x)
        if kind == "dj":
            want = bool((c["table"] >> x) & 1)
            got = env[qret[0]]
        elif kind == "bv":
            want = bool(dot(c["s"], x))
            got = env[qret[0]]
        else:
            got = sum(1 << j for j, b in enumerate(qret) if env[b])
            if "table" in c:
                want = c["table"][x]
            else:
                j = c["s"].bit_length() - 1
                want = (x ^ c["s"]) if (x >> j) & 1 else x
        if got != want:
            return f"expressions give {got} on input {x}, declared {want}"
        if r.get("original_f") is not None and r["original_f"][x] != want:
            return f"original_f gives {r['original_f'][x]} on input {x}, declared {want}"
    return None


def interpret(kind, c, r, nums):
    """Decode the flat result list of Chk_Algo (layouts documented there)."""
    if kind in ("dj", "bv"):
        return dict(corr=nums[1], oracle_status=[nums[2]], oracle_wit=[nums[3]], amp_ok=nums[4] == 1, k=nums[5],
                    extra=nums[6], verdict=nums[7], ps=nums[8:])
    return dict(corr=nums[1], oracle_status=[nums[2], nums[4]], oracle_wit=[nums[3], nums[5]], amp_ok=nums[6] == 1,
                k=nums[7], extra=nums[8], verdict=nums[9], ps=nums[10:])


def replay(path):
    """Re-run one recorded case against the implementation and print what the direct test finds."""
    d = json.load(open(path))
    case = d.get("case") or d
    case = {k: v for k, v in case.items() if k in ("kind", "n", "s", "table", "form", "src", "opt", "use_secret_oracle")}
    r = algo_task(case)
    if r.get("status") != "ok":
        print("construction failed:", r)
        return 1
    bad = {"dj": direct_dj, "bv": direct_bv, "simon": direct_simon}[case["kind"]](case, r)
    print(json.dumps(dict(case=case, failures=bad, decode=r["decode_bad"][:3]), indent=1, default=str))
    return 1 if (bad or r["decode_bad"]) else 0
