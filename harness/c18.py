"""C18 — the quadratic-model export has the function's minimisers as ground states.

pyqubo is not installed: harness/pyqubo_stub.py is injected as sys.modules['pyqubo']
inside the worker processes of this check only (a MODELLED component, see its
docstring).  QlassF.to_bqm is called for the four formats; the expression tree
handed to the stub's compile() is evaluated on every assignment of its variables,
judged directly in Python (ground states, zero energy, variable set) and compared
in Coq with the polynomial of the model M_Bqm.v (exact integer energies on every
assignment, vm_compute).  decode_samples is run on synthetic sample sets."""
import collections
import json
import random
import re
import signal
import sys

from . import common as C
from . import gen, progs
from .ser import SerError, SymTab, defs_coq, exprs_to_ir, ir_coq, ir_str, ir_syms

PID = "C18"
FORMATS = ["bqm", "ising", "qubo", "pq_model"]
MAX_IN, MAX_AUX, MAX_VARS = 12, 4, 14
MAX_NODES_PY = 40000
MAX_WORK_COQ = dict(quick=1_500_000, thorough=6_000_000)  # 2^nvars * nodes, per program
MAX_NODES_COQ = dict(quick=2500, thorough=6000)  # tree nodes per program sent to Coq (larger: Python only)
KINDS = {"bqm": "StubBQM", "ising": "tuple3", "qubo": "tuple2", "pq_model": "Model"}


class _Timeout(Exception):
    pass


def _alarm(signum, frame):
    raise _Timeout()


# ------------------------------------------------------------------ helpers (worker side)
def _ir_nodes(ir):
    n, stack = 0, [ir]
    while stack:
        x = stack.pop()
        n += 1
        if x[0] in "+-*":
            stack.append(x[1])
            stack.append(x[2])
    return n


def _np_eval(ir, cols):
    """Vectorised value of a polynomial IR on all assignments (numpy int64 columns)."""
    import numpy as np

    k = ir[0]
    if k == "k":
        if ir[1] != int(ir[1]):
            raise SerError(f"non-integer coefficient {ir[1]!r}")
        return np.int64(int(ir[1]))
    if k == "v":
        return cols[ir[1]]
    a, b = _np_eval(ir[1], cols), _np_eval(ir[2], cols)
    return a + b if k == "+" else a - b if k == "-" else a * b


def py_visitable(ir):
    k = ir[0]
    if k in "cs":
        return True
    if k == "n":
        return py_visitable(ir[1])
    if k in "ax":
        return len(ir[1]) >= 2 and all(py_visitable(a) for a in ir[1])
    if k == "o":
        return len(ir[1]) == 2 and all(py_visitable(a) for a in ir[1])
    return False


def _tt_tables(exprs, inputs):
    """Python-int truth tables (over the argument bits) of every defined symbol."""
    from .c17 import _var_tt, ir_tt

    n = len(inputs)
    mask = (1 << (1 << n)) - 1
    vt = [_var_tt(n, i) for i in range(n)]
    idx = {b: i for i, b in enumerate(inputs)}
    for name, ir in exprs:
        t = ir_tt(ir, n, idx, vt, mask)
        if name not in idx:
            idx[name] = len(vt)
            vt.append(t)
        else:
            vt[idx[name]] = t
    return idx, vt, mask


def ref_decode(t, bits):
    """Reference decoding of an argument from its bits in bitvec order (independent of
    interpret_as_qtype): little-endian integers, Qfixed = integer bits then 2^-1, 2^-2.."""
    from typing import get_args
    from qlasskit.types import Qchar
    from qlasskit.types.qfixed import QfixedImp
    from qlasskit.types.qint import QintImp

    if t is bool:
        return bool(bits[0])
    if isinstance(t, type) and issubclass(t, QintImp):
        return sum(int(b) << k for k, b in enumerate(bits[:t.BIT_SIZE]))
    if isinstance(t, type) and issubclass(t, QfixedImp):
        i = t.BIT_SIZE_INTEGER
        v = float(sum(int(b) << k for k, b in enumerate(bits[:i])))
        for j, b in enumerate(bits[i:t.BIT_SIZE]):
            v += int(b) * 2.0 ** -(j + 1)
        return v
    if t is Qchar:
        return chr(sum(int(b) << k for k, b in enumerate(bits[:8])))
    args = get_args(t)
    if not args:
        raise SerError(f"type {t!r}")
    out, pos = [], 0
    from .types_ser import ty_size
    for a in args:
        w = ty_size(a)
        out.append(ref_decode(a, bits[pos:pos + w]))
        pos += w
    return tuple(out)


def plain(t, v):
    """Implementation value -> plain Python data comparable with ref_decode."""
    from typing import get_args
    from qlasskit.types import Qchar
    from qlasskit.types.qfixed import QfixedImp
    from qlasskit.types.qint import QintImp

    if t is bool:
        if isinstance(v, bool) or (isinstance(v, int) and v in (0, 1)):
            return bool(v)
        raise SerError(f"bool value {v!r}")
    if isinstance(t, type) and issubclass(t, (QintImp, QfixedImp)) or t is Qchar:
        return getattr(v, "value", v)
    args = get_args(t)
    if not isinstance(v, tuple) or len(v) != len(args):
        raise SerError(f"tuple value {v!r}")
    return tuple(plain(a, x) for a, x in zip(args, v))


def plain_coq(t, pv):
    """plain value -> Coq `val` term of M_Codec."""
    from typing import get_args
    from qlasskit.types import Qchar
    from qlasskit.types.qfixed import QfixedImp
    from qlasskit.types.qint import QintImp
    from .types_ser import float_to_dy

    if t is bool:
        return f"(VBool {C.cbool(pv)})"
    if isinstance(t, type) and issubclass(t, QintImp):
        return f"(VInt {C.cN(pv)})"
    if isinstance(t, type) and issubclass(t, QfixedImp):
        n, k = float_to_dy(pv)
        return f"(VFix (mkdy {C.cN(n)} {C.cnat(k)}))"
    if t is Qchar:
        return f"(VChar {C.cN(ord(pv))})"
    return "(VTuple %s)" % C.clist([plain_coq(a, x) for a, x in zip(get_args(t), pv)])


# ------------------------------------------------------------------ the worker
def bqm_task(task):
    try:
        return _bqm_task(task)
    except BaseException as e:  # noqa  (anything unexpected: reported, retried once by the parent)
        return dict(id=task["id"], src=task["src"], origin=task["origin"], problems=[], status="error",
                    exc=f"{type(e).__name__}: {e}"[:300])


def _bqm_task(task):
    from . import pyqubo_stub as stub

    sys.modules["pyqubo"] = stub  # this worker process only
    sys.setrecursionlimit(20000)
    from qlasskit import qlassf
    from qlasskit.bqm import decode_samples
    from qlasskit.boolopt.bool_optimizer import merge_expressions
    from .types_ser import ty_to_coq

    rec = dict(id=task["id"], src=task["src"], origin=task["origin"], problems=[])
    signal.signal(signal.SIGALRM, _alarm)
    signal.alarm(int(task.get("timeout", 30)))
    try:
        try:
            qf = qlassf(task["src"], to_compile=False)
        except _Timeout:
            raise
        except BaseException as e:  # noqa
            rec["status"] = "raise"
            rec["exc"] = f"{type(e).__name__}: {e}"[:200]
            return rec
        if type(qf).__name__ == "UnboundQlassf" or not hasattr(qf, "expressions"):
            rec["status"] = "unbound"
            return rec
        rec["status"] = "ok"
        inputs = [b for a in qf.args for b in a.bitvec]
        rec["inputs"] = inputs
        try:
            rec["exprs"] = exprs_to_ir(qf.expressions)
        except SerError as e:  # hybrid functions (Q.H, Q.CX, ...): not boolean expressions
            rec["status"] = "non-boolean"
            rec["exc"] = str(e)[:100]
            return rec
        rec["merged"] = exprs_to_ir(merge_expressions(qf.expressions))
        rets = []
        for s, _ in rec["exprs"]:
            if C.is_ret_name(s) and s not in rets:
                rets.append(s)
        rec["rets"] = rets
        # ---- the four formats
        trees, fm = {}, {}
        for fmt in FORMATS:
            k0 = len(stub.COMPILED)
            try:
                r = qf.to_bqm(fmt)
                if len(stub.COMPILED) != k0 + 1:
                    fm[fmt] = dict(exc=None, kind="?", note=f"{len(stub.COMPILED) - k0} trees compiled")
                    continue
                kind = type(r).__name__
                if isinstance(r, tuple):
                    kind = f"tuple{len(r)}"
                trees[fmt] = stub.COMPILED[-1]
                fm[fmt] = dict(exc=None, kind=kind)
            except _Timeout:
                raise
            except BaseException as e:  # noqa
                fm[fmt] = dict(exc=f"{type(e).__name__}: {e}"[:200])
        del stub.COMPILED[:]
        rec["formats"] = fm
        excs = set(v["exc"] for v in fm.values())
        if len(excs) > 1:
            rec["problems"].append(dict(kind="formats", what=f"the formats disagree on raising: {fm}"))
            return rec
        if excs != {None}:
            rec["raises"] = excs.pop()
            shape = all(py_visitable(e) for _, e in rec["merged"]) and not all(e[0] == "c" for _, e in rec["merged"]) \
                and all(C.is_ret_name(s) for s, _ in rec["merged"]) and rec["merged"]
            if shape:
                rec["problems"].append(dict(kind="raise", what=f"to_bqm raised {rec['raises']} on a function in the shape it handles"))
            return rec
        for fmt in FORMATS:
            if fm[fmt]["kind"] != KINDS[fmt]:
                rec["problems"].append(dict(kind="formats", what=f"format {fmt} returned a {fm[fmt]['kind']}"))
        irs = {fmt: t.to_ir() for fmt, t in trees.items()}
        tree = irs["pq_model"]
        if any(irs[f] != tree for f in FORMATS):
            rec["problems"].append(dict(kind="formats", what="the formats hand different trees to the library"))
        rec["nodes"] = _ir_nodes(tree)
        tvars = sorted(trees["pq_model"].variables())
        rec["tree_vars"] = tvars
        aux = [v for v in tvars if v not in inputs]
        rec["aux"] = aux
        declared = set(s for s, _ in rec["exprs"]) | set("aux_" + s for s, _ in rec["exprs"])
        foreign = [v for v in aux if v not in declared]
        if foreign:
            rec["problems"].append(dict(kind="foreign-variable", what=f"the model mentions {foreign}, neither argument bits nor declared auxiliaries"))
        n = len(inputs)
        if rec["nodes"] <= MAX_NODES_COQ["thorough"]:
            rec["tree"] = tree
        if n <= MAX_IN and len(aux) <= MAX_AUX and n + len(aux) <= MAX_VARS and rec["nodes"] <= MAX_NODES_PY:
            judge_energy(rec, tree, inputs, aux)
        else:
            rec["too_large"] = True
        # ---- decode_samples on synthetic sample sets
        rng = random.Random(task["seed"])
        names = list(dict.fromkeys(inputs + tvars))
        samples = []
        for j in range(task.get("n_samples", 4)):
            if j == 0:
                samples.append({v: 0 for v in names})
            elif j == 1:
                samples.append({v: 1 for v in names})
            else:
                samples.append({v: rng.randint(0, 1) for v in names})
        try:
            dec = decode_samples(qf, [dict(s) for s in samples])
        except _Timeout:
            raise
        except BaseException as e:  # noqa
            rec["problems"].append(dict(kind="decode", what=f"decode_samples raised {type(e).__name__}: {e}"[:200]))
            return rec
        finally:
            del stub.COMPILED[:]
        if len(dec) != len(samples):
            rec["problems"].append(dict(kind="decode", what=f"{len(samples)} samples decoded to {len(dec)} entries"))
            return rec
        dcases = []
        for s, d in zip(samples, dec):
            if set(d.sample) != set(a.name for a in qf.args):
                rec["problems"].append(dict(kind="decode", what=f"decoded names {sorted(d.sample)}"))
                continue
            for a in qf.args:
                bits = [s[bv] for bv in a.bitvec]
                got = d.sample[a.name]
                try:
                    want = ref_decode(a.ttype, bits)
                    pg = plain(a.ttype, got)
                    if type(got) is int and a.ttype is bool:
                        rec["bool_as_int"] = rec.get("bool_as_int", 0) + 1
                    if pg != want:
                        rec["problems"].append(dict(kind="decode", what="decode_samples does not return the value spelled by the sample's bits",
                                                    argument=a.name, bits=bits, decoded=repr(got), expected=repr(want)))
                    dcases.append((ty_to_coq(a.ttype), [bool(b) for b in bits], plain_coq(a.ttype, pg)))
                except SerError as e:
                    rec.setdefault("decode_skipped", []).append(str(e)[:60])
                except Exception as e:  # the reference decoder itself must not take the check down
                    rec.setdefault("decode_skipped", []).append(f"{type(e).__name__}: {e}"[:60])
        rec["decode_cases"] = dcases
        # ---- samples that do not name every argument bit (a model does not mention a bit the function ignores, and a
        # sampler returns only the model's variables): every bit the sample does name must be spelled at its own position
        import itertools
        partial = []
        for j in range(task.get("n_partial", 3)):
            full = {v: rng.randint(0, 1) for v in names}
            drop = [v for v in inputs if rng.random() < (0.35 if j else 0.6)]
            if j == 0 and len(inputs) > 1:
                drop = [v for v in inputs[:-1] if rng.random() < 0.6] or [inputs[0]]  # lower bits absent, the last one present
            drop = drop[:6]
            partial.append(({k: v for k, v in full.items() if k not in drop}, drop))
        try:
            dec = decode_samples(qf, [dict(p) for p, _ in partial])
        except _Timeout:
            raise
        except BaseException as e:  # noqa
            rec["problems"].append(dict(kind="decode", what=f"decode_samples raised {type(e).__name__}: {e} on a sample that does not name every argument bit"[:240]))
            return rec
        finally:
            del stub.COMPILED[:]
        n_part = 0
        for (smp, drop), d in zip(partial, dec):
            for a in qf.args:
                absent = [bv for bv in a.bitvec if bv in drop]
                if not absent or len(absent) > 4 or a.name not in d.sample:
                    continue
                try:
                    pg = plain(a.ttype, d.sample[a.name])
                    cands = []
                    for fill in itertools.product([0, 1], repeat=len(absent)):
                        m = dict(zip(absent, fill))
                        cands.append(ref_decode(a.ttype, [smp[bv] if bv in smp else m[bv] for bv in a.bitvec]))
                    n_part += 1
                    if pg not in cands:
                        rec["problems"].append(dict(kind="decode", what="decode_samples does not return a value that spells the bits the sample names",
                                                    argument=a.name, sample=dict((bv, smp.get(bv, "absent")) for bv in a.bitvec),
                                                    decoded=repr(d.sample[a.name]), possible=repr(cands[:8])))
                except SerError:
                    pass
                except Exception as e:
                    rec.setdefault("decode_skipped", []).append(f"{type(e).__name__}: {e}"[:60])
        rec["partial_samples"] = n_part
        return rec
    except _Timeout:
        rec["status"] = "timeout"
        return rec
    except SerError as e:
        rec["problems"].append(dict(kind="harness", what=f"serialisation: {e}"))
        return rec
    finally:
        signal.alarm(0)


def judge_energy(rec, tree, inputs, aux):
    """The property, tested directly on the tree: all assignments by numpy."""
    import numpy as np

    n, k = len(inputs), len(aux)
    nv = n + k
    x = np.arange(1 << nv, dtype=np.int64)
    cols = {v: (x >> i) & 1 for i, v in enumerate(inputs + aux)}
    e = _np_eval(tree, cols)
    e = np.broadcast_to(e, x.shape).astype(np.int64)
    m = e.reshape(1 << k, 1 << n).min(axis=0)  # minimum over the auxiliaries, per input
    idx, vt, mask = _tt_tables(rec["exprs"], inputs)
    cnt = np.zeros(1 << n, dtype=np.int64)
    dep = set()
    for r in rec["rets"]:
        t = vt[idx[r]]
        bits = np.array([(t >> j) & 1 for j in range(1 << n)], dtype=np.int64)
        cnt += bits
        for i in range(n):
            sh = 1 << i
            lo = ~vt[i] & mask
            if (t & lo) != ((t >> sh) & lo):
                dep.add(i)
    rec["evaluations"] = int(1 << nv)
    rec["nontrivial"] = bool(cnt.min() != cnt.max())
    rec["energies"] = dict(min=int(m.min()), max=int(m.max()), min_true_bits=int(cnt.min()))
    g_e = set(np.nonzero(m == m.min())[0].tolist())
    g_c = set(np.nonzero(cnt == cnt.min())[0].tolist())

    def asg(j):
        return {b: (j >> i) & 1 for i, b in enumerate(inputs)}
    if g_e != g_c:
        j = sorted(g_e ^ g_c)[0]
        rec["problems"].append(dict(
            kind="ground-states", what="the minimum-energy inputs are not the inputs making the fewest return bits true",
            input=asg(j), energy=int(m[j]), minimum_energy=int(m.min()), true_return_bits=int(cnt[j]),
            fewest_true_return_bits=int(cnt.min()), ground_states=len(g_e), expected=len(g_c)))
    if (int(m.min()) == 0) != (int(cnt.min()) == 0):
        rec["problems"].append(dict(kind="zero-energy", what="minimum energy is zero iff the function has a zero: violated",
                                    minimum_energy=int(m.min()), fewest_true_return_bits=int(cnt.min())))
    missing = [inputs[i] for i in sorted(dep) if inputs[i] not in rec["tree_vars"]]
    if missing:
        rec["problems"].append(dict(kind="missing-variable", what=f"the function depends on {missing}, which the model does not mention"))


# ------------------------------------------------------------------ corpus
def corpus(tier, seed):
    rng = random.Random(seed)
    out = [("suite", s) for s in progs.suite_programs()]
    out += [("struct", s) for s in gen.struct_templates()]
    fixed = [
        "def test(a: bool) -> bool:\n    return a",
        "def test(a: bool) -> bool:\n    return not a",
        "def test(a: Qint[2]) -> Qint[2]:\n    return a",
        "def test(a: bool, b: bool) -> Tuple[bool, bool]:\n    return (True, a)",
        "def test(a: bool, b: bool) -> Tuple[bool, bool]:\n    return (b, a ^ b)",
        "def test(a: bool, b: bool) -> bool:\n    return True",
        "def test(a: bool, b: bool) -> bool:\n    return False",
        "def test(a: bool, b: bool, c: bool) -> bool:\n    return a ^ b ^ c",
        "def test(a: bool, b: bool, c: bool, d: bool) -> bool:\n    return a ^ b ^ c ^ d",
        "def test(a: bool, b: bool, c: bool) -> bool:\n    return a and b and c",
        "def test(a: bool, b: bool, c: bool) -> bool:\n    return a or b or c",
        "def test(a: bool, b: bool) -> bool:\n    return a or b",
        "def test(a: Qint[2], b: Qint[2]) -> Qint[2]:\n    return a + b",
        "def test(a: Qint[4], b: bool) -> Qint[4]:\n    return a + 3 if b else a",
        "def test(a: Qfixed[2, 2], b: bool) -> bool:\n    return b",
        # local variables whose names start with _ret are intermediates, not return bits
        "def test(a: bool, b: bool) -> bool:\n    _retval = a or b\n    return not _retval",
        "def test(a: bool, b: bool, c: bool) -> Tuple[bool, bool]:\n    _retx = a and b\n    _ret0 = _retx ^ c\n    return (_ret0 or _retx, _retx)",
        "def test(a: Qchar, b: bool) -> bool:\n    return b and a == 'z'",
        "def test(a: Tuple[Qint[2], Tuple[bool, Qint[2]]], b: bool) -> bool:\n    return a[1][0] and b",
    ]
    out += [("fixed", s) for s in fixed]
    it = gen.int_templates((2, 3, 4) if tier == "thorough" else (2, 4))
    if tier != "thorough":
        it = [s for i, s in enumerate(it) if i % 4 == seed % 4]
    out += [("int-template", s) for s in it]
    for t in range(16):
        out.append(("tt2", gen.truth_table_program(2, t)))
    t3 = list(range(256)) if tier == "thorough" else rng.sample(range(256), 24)
    out += [("tt3", gen.truth_table_program(3, t)) for t in t3]
    out += [("tt4", gen.truth_table_program(4, rng.randrange(1 << 16))) for _ in range(200 if tier == "thorough" else 12)]
    out += [("rand-bool", gen.bool_program(rng)) for _ in range(1500 if tier == "thorough" else 100)]
    seen, res = set(), []
    for o, s in out:
        if s not in seen:
            seen.add(s)
            res.append((o, s))
    return res


# ------------------------------------------------------------------ Coq cases
def poly_coq(ir, st):
    k = ir[0]
    if k == "k":
        c = ir[1]
        if c != int(c):
            raise SerError(f"non-integer coefficient {c!r}")
        c = int(c)
        return f"(PConst ({c})%Z)"
    if k == "v":
        return f"(PVar {C.cnat(st.get(ir[1], True))})"
    nm = {"+": "PAdd", "-": "PSub", "*": "PMul"}[k]
    return f"({nm} {poly_coq(ir[1], st)} {poly_coq(ir[2], st)})"


def build_cases(recs, tier):
    cases = collections.defaultdict(list)
    skipped = collections.Counter()
    sys.setrecursionlimit(20000)
    budget = MAX_WORK_COQ[tier]
    max_nodes = MAX_NODES_COQ[tier]
    for r in recs:
        if r.get("status") != "ok" or "formats" not in r:
            continue
        i = r["id"]
        inputs = r["inputs"]
        n = len(inputs)
        try:
            # one symbol table for the expression list, the merged list and the observed tree
            st = SymTab(inputs)
            d = defs_coq(r["exprs"], st)
            mg = C.clist(["(%s, %s)" % (C.cnat(st.get(s, True)), ir_coq(e, st, allow_new=True)) for s, e in r["merged"]])
            rets = C.clist([C.cnat(st.idx[s]) for s in r["rets"]])
            size = sum(_bexp_nodes(e) for _, e in r["exprs"]) + sum(_bexp_nodes(e) for _, e in r["merged"])
            do_merge = n <= MAX_IN
            if "raises" in r:
                if size <= max_nodes * 2:
                    cases["bqm"].append((i, f"({C.cnat(n)}, [], {d}, {mg}, {rets}, None, ({C.cbool(do_merge)}, false))"))
                else:
                    skipped["coq_program_over_budget_python_only"] += 1
            elif "tree" in r and r["nodes"] <= max_nodes and size <= max_nodes * 2:
                pc = poly_coq(r["tree"], st)
                auxs = C.clist([C.cnat(st.get(v, True)) for v in r["aux"]])
                nvars = len(set(r["tree_vars"]) | set(x for _, e in r["merged"] for x in ir_syms(e))
                            | set(s for s, e in r["merged"] if e[0] == "s"))
                if nvars <= MAX_VARS + 2 and (1 << nvars) * r["nodes"] <= budget:
                    do_ground = n <= 10 and "evaluations" in r and (1 << (n + len(r["aux"]))) * r["nodes"] <= budget // 3
                    cases["bqm"].append((i, f"({C.cnat(n)}, {auxs}, {d}, {mg}, {rets}, (Some {pc}), ({C.cbool(do_merge)}, {C.cbool(do_ground)}))"))
                else:
                    skipped["coq_program_over_budget_python_only"] += 1
            else:
                skipped["coq_program_over_budget_python_only"] += 1
            for j, (t, bits, v) in enumerate(r.get("decode_cases", [])):
                cases["decode"].append((i * 64 + j, f"({t}, {C.cbools(bits)}, (Some {v}))"))
        except SerError as e:
            skipped["ser:" + str(e)[:40]] += 1
    return cases, skipped


def _bexp_nodes(ir):
    k = ir[0]
    if k in "cs":
        return 1
    if k == "n":
        return 1 + _bexp_nodes(ir[1])
    if k in "aox":
        return 1 + sum(_bexp_nodes(a) for a in ir[1])
    return 1 + sum(_bexp_nodes(a) for a in ir[1:])


TYPES = dict(bqm="bqm_case", decode="(ty * list bool * option val)")
FUNS = dict(bqm=["chk_case_poly", "chk_case_poly_today", "chk_case_ground", "chk_case_merge"], decode=["chk_decode"])
CHUNK = dict(bqm=6, decode=300)


def _bind_numerals(text):
    """Coq interprets every delimited numeral (3%nat, (-2)%Z) through the number-notation
    machinery, which dominates the time of large case files: bind each distinct numeral
    once and refer to it by name."""
    nats = sorted(set(int(m) for m in re.findall(r"\b(\d+)%nat\b", text)))
    zs = sorted(set(int(m) for m in re.findall(r"\((-?\d+)\)%Z", text)) | set(int(m) for m in re.findall(r"(?<![\w)])(\d+)%Z\b", text)))
    pre = "".join(f"Definition n_{k} := {k}%nat.\n" for k in nats)
    pre += "".join(f"Definition z_{'m' if k < 0 else ''}{abs(k)} := ({k})%Z.\n" for k in zs)
    text = re.sub(r"\b(\d+)%nat\b", lambda m: f"n_{m.group(1)}", text)
    text = re.sub(r"\((-?\d+)\)%Z", lambda m: "z_" + ("m" if m.group(1).startswith("-") else "") + m.group(1).lstrip("-"), text)
    text = re.sub(r"(?<![\w)])(\d+)%Z\b", lambda m: f"z_{m.group(1)}", text)
    return pre, text


def coq_files(cases):
    files = []
    for kind, lst in cases.items():
        # loading the libraries costs seconds per file: few, evenly sized files
        ch = max(CHUNK[kind], -(-len(lst) // (16 if kind == "bqm" else 4)))
        for ci in range(0, len(lst), ch):
            part = lst[ci:ci + ch]
            pre, body = _bind_numerals(C.clist(["(%s, %s)" % (C.cN(i), txt) for i, txt in part]))
            txt = (C.COQ_HEADER + "From QV Require Import Bits Bexp BexpTT M_Codec Chk_Codec M_Bqm Chk_Bqm.\n"
                   "Local Open Scope N_scope.\n" + pre +
                   f"Definition cases : list (N * {TYPES[kind]}) := {body}.\n")
            for fn in FUNS[kind]:
                txt += f"Eval vm_compute in ({fn} cases).\n"
            files.append((f"{kind}_{ci}", txt))
    return files


def bare_symbol_return(rec):
    """Signature of the `return <input symbol>` defect: a merged return expression is a bare symbol."""
    return any(e[0] == "s" for _, e in rec.get("merged", []))


def _pool(fn, tasks, procs=16):
    """One task at a time per worker (program costs are very uneven)."""
    import multiprocessing as mp

    with mp.get_context("fork").Pool(procs, maxtasksperchild=100) as pool:
        return pool.map(fn, tasks, chunksize=1)


# ------------------------------------------------------------------ the check
def run(tier, seed):
    chk = C.Check(PID, tier, seed, level="proof")
    ok, log = C.coq_build()
    obl = C.prop_obligations(PID) if ok else dict(theorems=[], axioms={}, ok=False, log=log)
    if not ok or not obl["ok"]:
        chk.broken("theorems of Prop_C18.v do not check", (log + obl.get("log", ""))[-3000:])
        return chk.finish(obl)
    corp = corpus(tier, seed)
    tasks = [dict(id=i, src=s, origin=o, seed=seed * 100003 + i, n_samples=4 if tier == "quick" else 8)
             for i, (o, s) in enumerate(corp)]
    import time
    t0 = time.time()
    import numpy, sympy, qlasskit, qlasskit.bqm  # noqa: F401 (before forking: workers never import under an alarm)
    from . import c17, types_ser  # noqa: F401
    recs = _pool(bqm_task, tasks)
    again = [t for t, r in zip(tasks, recs) if r.get("status") == "error"]
    if again:
        redo = {r["id"]: r for r in _pool(bqm_task, again, procs=4)}
        recs = [redo.get(r["id"], r) for r in recs]
    for r in recs:
        if r.get("status") == "error":
            chk.broken("the harness worker failed on a program", dict(source=r["src"], error=r.get("exc")))
    t1 = time.time()
    cases, skipped = build_cases(recs, tier)
    res = C.run_cases(PID, coq_files(cases))
    t2 = time.time()
    chk.coverage["stage_seconds"] = dict(implementation=round(t1 - t0, 1), coq=round(t2 - t1, 1))
    coq_fail = collections.defaultdict(set)
    coq_errors = []
    for name, (rc, so, se) in res.items():
        kind = name.rsplit("_", 1)[0]
        if rc != 0:
            coq_errors.append(dict(file=name, error=(so + se)[-1200:]))
            continue
        vals = C.parse_results(so)
        if len(vals) != len(FUNS[kind]):
            coq_errors.append(dict(file=name, error=f"{len(vals)} results for {len(FUNS[kind])} evaluations"))
            continue
        for fn, v in zip(FUNS[kind], vals):
            try:
                coq_fail[fn].update(C.parse_N_list(v))
            except ValueError:
                coq_errors.append(dict(file=name, error="unparsable: " + v[:200]))

    by_id = {r["id"]: r for r in recs}
    known = C.known_findings(PID)
    kf_sym = [f for f in known if f.get("id") == "bqm-return-symbol"]
    bad = set()
    n_impl = 0
    for r in recs:
        for p in r["problems"]:
            if p["kind"] == "harness":
                chk.broken(p["what"], dict(source=r["src"]))
                continue
            bad.add(r["id"])
            n_impl += 1
            if kf_sym and p["kind"] in ("ground-states", "zero-energy") and bare_symbol_return(r):
                chk.known(kf_sym[0], f"{p['what']}: {r['src']!r}")
                continue
            chk.violation(p["what"], dict(kind_of_failure=p["kind"], source=r["src"], origin=r["origin"],
                                          merged=[f"{s} = {ir_str(e)}" for s, e in r.get("merged", [])][:16],
                                          tree_variables=r.get("tree_vars"),
                                          detail={k: v for k, v in p.items() if k not in ("kind", "what")}))
    for fn in ("chk_case_poly", "chk_case_ground", "chk_case_merge", "chk_decode"):
        ids = sorted(coq_fail.get(fn, ()))
        if fn == "chk_decode":
            ids = sorted(set(i // 64 for i in ids))
        un = [i for i in ids if i not in bad]
        if un:
            ex = by_id[un[0]]
            chk.broken(f"{fn}: the Coq side disagrees with the implementation on programs the direct test passed",
                       dict(ids=un[:20], example_source=ex["src"], merged=[f"{s} = {ir_str(e)}" for s, e in ex.get("merged", [])][:8],
                            raises=ex.get("raises")))
    if coq_errors:
        chk.broken("Coq case files did not evaluate", coq_errors[:3])

    st = collections.Counter(r.get("status") for r in recs)
    raises = collections.Counter((r["raises"].split(":")[0] + ": " + r["raises"].split(":", 1)[1][:50]) for r in recs if r.get("raises"))
    decided = [r for r in recs if "evaluations" in r]
    nontrivial = set(r["src"] for r in decided if r.get("nontrivial"))
    per_origin = collections.Counter(r["origin"] for r in decided)
    chk.coverage.update(
        programs=len(decided), evaluations=sum(r["evaluations"] for r in decided) * len(FORMATS),
        distinct_nontrivial=len(nontrivial),
        rule="corpus = function strings harvested from /repo/test + structural and operator/width templates + truth-table family + seeded "
             "random boolean programs (+ fixed shapes: return of an input, constants, n-ary Xor/And/Or); each accepted program (unbound "
             "parameterised functions skipped): to_bqm for {bqm, ising, qubo, pq_model} through the stub, the tree evaluated on ALL "
             "assignments of its variables (<= 12 argument bits, <= 4 auxiliaries); evaluations = assignments x formats; non-trivial = the "
             "number of true return bits is not constant; distinct = distinct sources",
        per_origin=dict(per_origin), status=dict(st), to_bqm_raises=dict(raises),
        too_large=sum(1 for r in recs if r.get("too_large")), coq_cases={k: len(v) for k, v in cases.items()},
        skipped=dict(skipped), coq_failing={k: len(v) for k, v in coq_fail.items() if v},
        model_of_code_as_found_disagrees=len(coq_fail.get("chk_case_poly_today", ())),
        decode_cases=sum(len(r.get("decode_cases", [])) for r in recs),
        decode_partial_samples=sum(r.get("partial_samples", 0) for r in recs),
        bool_arguments_decoded_as_int=sum(r.get("bool_as_int", 0) for r in recs),
        decode_skipped=sum(len(r.get("decode_skipped", [])) for r in recs),
        impl_failures=n_impl, exhaustive=False, traces_validated_against_impl=len(cases.get("bqm", [])),
        trusted_base=C.TRUSTED_BASE + [
            "harness/pyqubo_stub.py: a MODELLED stand-in for pyqubo (not installed): Binary/Not/And/Or/Xor/*Const and + - * with pyqubo's "
            "published meaning, logical gates of the documented arity only (Or of more than two bits raises TypeError); every statement of "
            "this check is relative to it",
            "merge_expressions (sympy xreplace + custom_simplify_logic): contract oracle, contract checked per program (chk_case_merge)",
            "numpy integer evaluation of the tree in the failing-input search (the Coq comparison evaluates the same tree with Z arithmetic)",
        ],
    )
    ex = [r for r in decided if r["origin"] == "fixed"][:2] + [r for r in decided if r["origin"] == "suite"][:1]
    chk.samples = [dict(source=r["src"], variables=r["tree_vars"], nodes=r["nodes"], energies=r["energies"]) for r in ex]
    chk.assumptions = [
        "pyqubo's gates mean what harness/pyqubo_stub.py says (Not a = 1-a, And = ab, Or = a+b-ab, Xor = a+b-2ab, constraints as penalty polynomials)",
        "pyqubo.Or takes exactly two bits (documented signature): functions whose merged return expressions contain an Or of more than two operands are rejections (TypeError), counted in coverage.to_bqm_raises",
        "a bool argument is decoded as the int 0/1 of the sample (equal to False/True), counted in coverage.bool_arguments_decoded_as_int",
        "samples that omit an input variable are completed at random by decode_samples: only complete samples are generated",
    ]
    return chk.finish(obl)


def replay(path):
    d = json.load(open(path))
    src = d.get("source")
    if not src:
        print("replay file has no source")
        return 2
    r = bqm_task(dict(id=0, src=src, origin="replay", seed=d.get("seed", 0)))
    for p in r["problems"]:
        print("PROBLEM", json.dumps(p, default=str)[:600])
    print("status:", r.get("status"), "variables:", r.get("tree_vars"), "energies:", r.get("energies"), "raises:", r.get("raises"))
    return 1 if r["problems"] else 0
