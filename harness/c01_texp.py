"""C01, translator layer — correspondence between the REAL expression / statement
translator of qlasskit (ast2logic.translate_ast on the function normalised by
ast2ast) and the Coq model M_Texp.v (trans_fun), and between the model's typed
reference evaluator (eval_fun) and the shadow execution of harness/shadow.py.

For every program:
  * the source is parsed and normalised by qlasskit.ast2ast;
  * the normalised body is converted to the model's pexp / pstmt by a fail-closed
    converter over Python's `ast` (anything outside the language: 'unmodelled',
    never a mismatch);
  * the implementation's translate_ast(normalised, [], []) gives the definition
    list BEFORE the optimizer;
  * inside coqc (Chk_Texp.v): the model's trans_fun on the same program; compared
    are acceptance, argument / return bindings (types and bit names), the list of
    defined symbol names in order, and the truth table of every definition on all
    2^n assignments (n <= 12 input bits; above that names and types only);
  * on sample inputs: eval_fun against shadow.run on the ORIGINAL source (two
    independent formalisations of the documented semantics), the instance of the
    soundness corollary (run_defs of the model's list = bits of eval_fun), and —
    in Python — the implementation's definitions against the shadow run (the
    search for a failing input).

collect(tier, seed) -> dict(cases, distinct, mismatches, impl_failures, unmodelled,
                            distribution, ...)
"""
import ast
import collections
import copy
import multiprocessing as mp
import os
import random
import shutil
import signal
import subprocess
import sys
import time

from . import common as C

RUN_DIR = "C01_texp"
MAX_TT_BITS = 12
PER_FILE = 28


class Unmodelled(Exception):
    pass


class _Timeout(Exception):
    pass


def _alarm(signum, frame):
    raise _Timeout()


# --------------------------------------------------------------------------
# programs
# --------------------------------------------------------------------------
def fixed_templates():
    """Programs aimed at each branch of translate_expression / translate_statement."""
    t = []
    # BoolOp with 1..5 operands (the right-nested unfold)
    for op in ("and", "or"):
        for k in (2, 3, 4, 5):
            vs = [chr(ord("a") + i) for i in range(k)]
            t.append("def test(%s) -> bool:\n    return %s" % (", ".join(v + ": bool" for v in vs), f" {op} ".join(vs)))
        t.append(f"def test(a: bool, b: bool, c: bool, d: bool) -> bool:\n    return (a {op} not b) {op} c {op} (d ^ a)")
    t.append("def test(a: Qlist[bool, 4]) -> bool:\n    return all(a)")
    t.append("def test(a: Qlist[bool, 4]) -> bool:\n    return any(a)")
    t.append("def test(a: Qlist[bool, 1]) -> bool:\n    return all(a)")
    # IfExp: fill of the narrower branch, both orders, constants, bools, tuples
    for w1, w2 in ((2, 4), (4, 2), (2, 3), (3, 2), (2, 2), (4, 8)):
        t.append(f"def test(c: bool, a: Qint[{w1}], b: Qint[{w2}]) -> Qint[{max(w1, w2)}]:\n    return a if c else b")
        t.append(f"def test(c: bool, a: Qint[{w1}], b: Qint[{w2}]) -> Qint[{max(w1, w2)}]:\n    return (a if c else b) + 1")
    t.append("def test(c: bool, a: Qint[4]) -> Qint[4]:\n    return a if c else 1")
    t.append("def test(c: bool, a: Qint[4]) -> Qint[4]:\n    return 2 if c else a")
    t.append("def test(c: bool, a: Qint[2]) -> Qint[4]:\n    return 9 if c else a")
    t.append("def test(c: bool, a: bool, b: bool) -> bool:\n    return a if c else b")
    t.append("def test(c: bool, a: Tuple[bool, bool], b: Tuple[bool, bool]) -> Tuple[bool, bool]:\n    return a if c else b")
    t.append("def test(c: bool, a: Tuple[Qint[2], bool], b: Tuple[Qint[2], bool]) -> Tuple[Qint[2], bool]:\n    return a if c else b")
    t.append("def test(c: bool, a: Qint[2], b: bool) -> Qint[2]:\n    return a if c else b")
    t.append("def test(c: Qint[2], a: Qint[2], b: Qint[2]) -> Qint[2]:\n    return a if c else b")
    t.append("def test(c: bool, a: Qint[2], b: Qfixed[1, 2]) -> Qint[2]:\n    return a if c else b")
    # Return: fill / crop to the declared type, tuples, regrouping
    for w1, w2 in ((2, 4), (4, 2), (3, 2), (2, 3), (4, 8), (8, 4), (4, 3)):
        t.append(f"def test(a: Qint[{w1}]) -> Qint[{w2}]:\n    return a")
        t.append(f"def test(a: Qint[{w1}]) -> Qint[{w2}]:\n    return a + 1")
    t.append("def test(a: Qint[2]) -> Qint[2]:\n    return 9")
    t.append("def test(a: Qint[2]) -> Qint[8]:\n    return 9")
    t.append("def test(a: Qint[2]) -> bool:\n    return a")
    t.append("def test(a: bool) -> Qint[2]:\n    return a")
    t.append("def test(a: Qint[4]) -> Qfixed[2, 2]:\n    return a")
    t.append("def test(a: Qint[2]) -> Qint[2]:\n    return 'a'")
    t.append("def test(a: Qchar) -> Qint[8]:\n    return a")
    t.append("def test(a: Tuple[Qint[2], bool]) -> Tuple[Qint[2], bool]:\n    return a")
    t.append("def test(a: Tuple[bool, bool]) -> Tuple[bool, bool]:\n    return a")
    t.append("def test(a: Tuple[Tuple[bool, Qint[2]], bool]) -> Tuple[Tuple[bool, Qint[2]], bool]:\n    return a")
    t.append("def test(a: Qint[2], b: bool) -> Tuple[bool, Qint[2]]:\n    return (b, a)")
    t.append("def test(a: Qint[2], b: bool) -> Tuple[bool, Qint[4]]:\n    return (b, a)")
    t.append("def test(a: Qint[2], b: bool) -> Tuple[Qint[2], Tuple[bool, bool]]:\n    return (a, (b, not b))")
    t.append("def test(a: Qint[2]) -> Qint[2]:\n    b = a\n    return b\n    return a")
    # Assign: decompose_to_symbols naming, rebind, tuple copies
    t.append("def test(a: Tuple[Qint[2], bool]) -> bool:\n    d = a\n    return d[1]")
    t.append("def test(a: Tuple[Qint[2], bool]) -> Qint[2]:\n    d = a\n    return d[0]")
    t.append("def test(a: Tuple[bool, bool]) -> bool:\n    d = a\n    return d[1]")
    t.append("def test(a: Qint[2], b: bool) -> Qint[2]:\n    t = (b, a)\n    return t[1]")
    t.append("def test(a: Qint[2], b: bool) -> bool:\n    t = (b, a)\n    return t[0]")
    t.append("def test(a: Qint[2], b: bool) -> bool:\n    t = (b, (a, b))\n    u = t[1]\n    return t[1][1]")
    t.append("def test(a: Qint[2]) -> Qint[2]:\n    b = a + 1\n    b = b + 1\n    a = b\n    return a + b")
    t.append("def test(a: Qint[2]) -> Qint[4]:\n    b = a\n    b = b + 5\n    return b")
    t.append("def test(a: Qint[2], c: bool) -> Qint[4]:\n    b = a\n    if c:\n        b = b + 5\n    return b")
    t.append("def test(a: Qint[4], c: bool) -> Qint[4]:\n    b = Qint2(1)\n    if c:\n        b = a\n    return b")
    t.append("def test(a: Qint[2], b: Qint[2]) -> Qint[2]:\n    a, b = b, a\n    return a - b")
    t.append("def test(a: bool) -> bool:\n    a = not a\n    a = not a\n    return a")
    t.append("def test(a: bool, b: bool) -> bool:\n    c = a and b\n    c ^ a\n    return c")
    # Subscript: tuples, nested tuples, Qint bits, out of range
    t.append("def test(a: Tuple[Tuple[bool, Qint[2]], bool]) -> Qint[2]:\n    return a[0][1]")
    t.append("def test(a: Tuple[Tuple[bool, Qint[2]], bool]) -> bool:\n    return a[0][1][1]")
    t.append("def test(a: Tuple[Tuple[bool, Qint[2]], bool]) -> bool:\n    return a[0][0] and a[1]")
    t.append("def test(a: Tuple[Tuple[bool, Qint[2]], bool]) -> Tuple[bool, Qint[2]]:\n    return a[0]")
    t.append("def test(a: Qmatrix[bool, 2, 2]) -> bool:\n    return a[0][1] ^ a[1][0]")
    t.append("def test(a: Qmatrix[Qint[2], 2, 2]) -> Qint[2]:\n    return a[0][1] + a[1][0]")
    t.append("def test(a: Qint[4]) -> bool:\n    return a[3] and not a[0]")
    t.append("def test(a: Qint[4]) -> bool:\n    return a[4]")
    t.append("def test(a: Qint[4]) -> bool:\n    return a[-1]")
    t.append("def test(a: Tuple[bool, bool]) -> bool:\n    return a[-2]")
    t.append("def test(a: Tuple[Tuple[bool, Qint[2]], bool]) -> bool:\n    u = a[0]\n    return u[0] and u[1][1]")
    t.append("def test(a: Qmatrix[bool, 2, 2]) -> bool:\n    r = a[1]\n    return r[0] ^ r[1]")
    t.append("def test(a: bool) -> bool:\n    t = (a,)\n    return t[0]")
    t.append("def test(a: Qint[4]) -> bool:\n    return a[0][0]")
    t.append("def test(a: bool) -> bool:\n    return a[0]")
    t.append("def test(a: Tuple[bool, bool]) -> bool:\n    return a[2]")
    t.append("def test(a: Qchar) -> bool:\n    return a[7]")
    t.append("def test(a: Qfixed[2, 2]) -> bool:\n    return a[3]")
    t.append("def test(a: Qlist[Qint[2], 3], i: Qint[2]) -> Qint[2]:\n    return a[i]")
    t.append("def test(i: Qint[2]) -> Qint[4]:\n    c = [1, 5, 9, 3]\n    return c[i]")
    t.append("def test(i: Qint[2]) -> Qint[2]:\n    c = [1, 5, 9]\n    return c[i]")
    # Compare
    t.append("def test(a: bool, b: bool) -> bool:\n    return a == b")
    t.append("def test(a: bool, b: bool) -> bool:\n    return a != b")
    t.append("def test(a: bool, b: bool) -> bool:\n    return a < b")
    t.append("def test(a: bool, b: bool) -> bool:\n    return a is b")
    t.append("def test(a: Tuple[bool, Qint[2]], b: Tuple[bool, Qint[2]]) -> bool:\n    return a == b")
    t.append("def test(a: Tuple[bool, Qint[2]], b: Tuple[bool, Qint[2]]) -> bool:\n    return a != b")
    t.append("def test(a: Tuple[bool, Qint[2]], b: Tuple[Qint[2], bool]) -> bool:\n    return a == b")
    t.append("def test(a: Tuple[bool, bool], b: bool, c: bool) -> bool:\n    return a == (b, c)")
    t.append("def test(a: Tuple[bool, bool], b: bool, c: bool) -> bool:\n    return (c, b) != a")
    t.append("def test(a: Tuple[bool, Qint[2]], b: bool, c: Qint[2]) -> bool:\n    return a == (b, c)")
    t.append("def test(a: Tuple[Tuple[bool, bool], bool], b: Tuple[Tuple[bool, bool], bool]) -> bool:\n    return a == b")
    t.append("def test(a: Tuple[bool, bool], b: Tuple[bool, bool]) -> bool:\n    return a <= b")
    t.append("def test(a: Qchar, b: Qchar) -> bool:\n    return a == b")
    t.append("def test(a: Qchar) -> bool:\n    return a != 'z'")
    t.append("def test(a: Qchar) -> bool:\n    return a == 97")
    t.append("def test(a: Qchar, b: Qint[4]) -> bool:\n    return a == b")
    t.append("def test(a: Qchar, b: Qint[4]) -> bool:\n    return b == a")
    t.append("def test(a: Qchar, b: Qchar) -> bool:\n    return a < b")
    t.append("def test(a: Qint[2], b: bool) -> bool:\n    return a == b")
    t.append("def test(a: Qint[2], b: Qfixed[1, 2]) -> bool:\n    return a == b")
    t.append("def test(a: Qint[2], b: Qint[4]) -> bool:\n    return a < b < 3")
    # BinOp: bool bitwise, kinds, shifts, mod
    t.append("def test(a: bool, b: bool) -> bool:\n    return (a & b) | (a ^ b)")
    t.append("def test(a: bool, b: bool) -> bool:\n    return a + b")
    t.append("def test(a: bool, b: bool) -> bool:\n    return a % b")
    t.append("def test(a: bool, b: Qint[2]) -> Qint[2]:\n    return a & b")
    t.append("def test(a: Qint[2], b: bool) -> Qint[2]:\n    return a & b")
    t.append("def test(a: Qint[8], b: Qchar) -> Qint[8]:\n    return a ^ b")
    t.append("def test(a: Qint[8], b: Qchar) -> Qint[8]:\n    return a & b")
    t.append("def test(a: Qchar, b: Qint[8]) -> Qint[8]:\n    return a & b")
    t.append("def test(a: Qchar, b: Qint[8]) -> Qint[8]:\n    return a + b")
    t.append("def test(a: Qint[2], b: Qfixed[1, 2]) -> Qfixed[1, 2]:\n    return a + b")
    t.append("def test(a: Qint[2], b: Qfixed[1, 2]) -> Qfixed[1, 2]:\n    return a * b")
    t.append("def test(b: Qfixed[1, 2]) -> Qfixed[1, 2]:\n    return 3 * b")
    t.append("def test(b: Qfixed[1, 2]) -> Qfixed[1, 2]:\n    return b * 2")
    t.append("def test(b: Qfixed[1, 2]) -> Qfixed[1, 2]:\n    return b * 0")
    t.append("def test(b: Qfixed[2, 2]) -> Qfixed[2, 2]:\n    return b << 1")
    for k in ("0", "1", "3", "4", "20", "True", "False"):
        t.append(f"def test(a: Qint[4]) -> Qint[4]:\n    return a << {k}")
        t.append(f"def test(a: Qint[4]) -> Qint[4]:\n    return a >> {k}")
    t.append("def test(a: Qint[4], b: Qint[2]) -> Qint[4]:\n    return a >> b")
    t.append("def test(a: Qint[4]) -> Qint[4]:\n    return a << 1.5")
    t.append("def test(a: Qint[4]) -> Qint[4]:\n    return a << -1")
    t.append("def test(a: Qint[4]) -> Qint[4]:\n    return (a + 1) << 2")
    t.append("def test(a: Qint[4]) -> Qint[4]:\n    return 3 << 1")
    for c in (1, 2, 4, 8, 3, 0):
        t.append(f"def test(a: Qint[4]) -> Qint[4]:\n    return a % {c}")
    t.append("def test(a: Qint[4], b: Qint[2]) -> Qint[4]:\n    return a % b")
    t.append("def test(a: Qint[2], b: Qint[4]) -> Qint[4]:\n    return a % b")
    t.append("def test(a: Qint[4]) -> Qint[4]:\n    return a / 2")
    t.append("def test(a: Qint[4]) -> Qint[4]:\n    return a ** 2")
    t.append("def test(a: Qint[2]) -> Qint[4]:\n    return a ** 2")
    t.append("def test(a: Qint[2], b: Qint[3]) -> Qint[4]:\n    return a & b | a ^ b")
    t.append("def test(a: Qint[2], b: Qint[3]) -> Qint[6]:\n    return a * b")
    t.append("def test(a: Qint[3]) -> Qint[6]:\n    return a * 6")
    t.append("def test(a: Qint[3]) -> Qint[6]:\n    return 5 * a")
    # Unary
    t.append("def test(a: Qint[3]) -> Qint[3]:\n    return ~a")
    t.append("def test(a: bool) -> bool:\n    return ~a")
    t.append("def test(a: Qint[2]) -> bool:\n    return not a")
    t.append("def test(a: Qint[2]) -> Qint[2]:\n    return -a")
    t.append("def test(a: Qint[2]) -> Qint[2]:\n    return +a")
    t.append("def test(a: Qchar) -> Qchar:\n    return ~a")
    t.append("def test(a: Qfixed[1, 2]) -> Qfixed[1, 2]:\n    return ~a")
    t.append("def test(a: Tuple[bool, bool]) -> Tuple[bool, bool]:\n    return ~a")
    # Constants and casts
    for c in ("0", "3", "4", "15", "16", "63", "64", "255", "256", "4095", "4096", "65535", "65536", "-1", "True", "False"):
        t.append(f"def test(a: bool) -> Qint[16]:\n    return {c}")
    t.append("def test(a: Qint[2]) -> Qint[2]:\n    return a + 65536")
    t.append("def test(a: bool) -> Qchar:\n    return 'q'")
    t.append("def test(a: bool) -> Qchar:\n    return 'qq'")
    t.append("def test(a: bool) -> Qchar:\n    return ''")
    t.append("def test(a: bool) -> bool:\n    return None")
    for c in ("0.5", "1.5", "0.25", "0.1", "3.75", "7.5", "15.015625", "100.5", "0.0", "-0.5"):
        t.append(f"def test(a: Qfixed[4, 6]) -> Qfixed[4, 6]:\n    return a + {c}")
        t.append(f"def test(a: Qfixed[2, 2]) -> bool:\n    return a > {c}")
    for T, c in (("Qint2", "3"), ("Qint2", "7"), ("Qint4", "7"), ("Qint8", "300"), ("Qint4", "-1"), ("Qint3", "True"),
                 ("Qint4", "1.5"), ("Qint4", "'a'"), ("Qint16", "65535"), ("Qint5", "9"), ("Qint9", "1")):
        w = T[4:]
        t.append(f"def test(a: bool) -> Qint[{w}]:\n    return {T}({c})")
    t.append("def test(a: Qint[2]) -> Qint[4]:\n    return Qint4(a)")
    t.append("def test(a: Qint[2]) -> Qint[4]:\n    return Qint4(1, 2)")
    t.append("def test(a: Qint[2]) -> Qint[4]:\n    return Qint4(3) + a")
    t.append("def test(a: Qint[4]) -> Qint[8]:\n    return Qint4(12) * Qint4(6) + a")
    for T, c in (("Qfixed2_2", "1.5"), ("Qfixed2_2", "1.3"), ("Qfixed1_2", "2.75"), ("Qfixed2_3", "3"), ("Qfixed2_2", "True"),
                 ("Qfixed2_2", "'a'"), ("Qfixed4_6", "0.1")):
        i, f = T[6:].split("_")
        t.append(f"def test(a: bool) -> Qfixed[{i}, {f}]:\n    return {T}({c})")
    t.append("def test(a: bool) -> Qchar:\n    return Qchar('b')")
    t.append("def test(a: bool) -> Qchar:\n    return Qchar(98)")
    t.append("def test(a: Qchar) -> bool:\n    return a == Qchar('b')")
    # int() / float()
    for i, f in ((2, 2), (1, 2), (3, 3), (4, 4), (2, 4)):
        t.append(f"def test(a: Qfixed[{i}, {f}]) -> Qint[{max(i, 2)}]:\n    return int(a)")
    for w in (2, 3, 4, 5, 8):
        t.append(f"def test(a: Qint[{w}]) -> Qfixed[{min(w, 4)}, {dict([(2, 2), (3, 3), (4, 4)]).get(min(w, 4), 4)}]:\n    return float(a)")
    t.append("def test(a: Qint[2]) -> Qint[2]:\n    return int(a) + 1")
    t.append("def test(a: Qfixed[2, 2]) -> Qfixed[2, 2]:\n    return float(a) + 0.5")
    t.append("def test(a: Qfixed[2, 2], b: Qint[2]) -> Qint[2]:\n    return int(a) + b")
    t.append("def test(a: Qfixed[2, 2], b: Qint[2]) -> Qfixed[2, 2]:\n    return a + float(b)")
    t.append("def test(a: bool) -> Qint[2]:\n    return int(a)")
    t.append("def test(a: bool) -> Qfixed[2, 2]:\n    return float(a)")
    t.append("def test(a: Qint[2]) -> Qint[2]:\n    return int(a, a)")
    # Qfixed of different types
    t.append("def test(a: Qfixed[1, 2], b: Qfixed[2, 3]) -> Qfixed[2, 3]:\n    return a + b")
    t.append("def test(a: Qfixed[1, 2], b: Qfixed[2, 3]) -> Qfixed[2, 3]:\n    return a - b")
    t.append("def test(a: Qfixed[1, 2], b: Qfixed[2, 3]) -> bool:\n    return a < b")
    t.append("def test(a: Qfixed[1, 2], b: Qfixed[2, 3]) -> bool:\n    return a == b")
    t.append("def test(a: Qfixed[1, 3], b: Qfixed[2, 2]) -> Qfixed[2, 3]:\n    return a + b")
    t.append("def test(a: Qfixed[1, 6], b: Qfixed[4, 4]) -> bool:\n    return a >= b")
    # tuples
    t.append("def test(a: bool, b: Qint[2]) -> Tuple[Qint[2], bool]:\n    return (b + 1, not a)")
    t.append("def test(a: bool) -> Tuple[bool]:\n    return (a,)")
    t.append("def test(a: bool) -> Tuple[Qint[2], Qint[4]]:\n    return (1, 9)")
    t.append("def test(a: Qint[2]) -> Qint[2]:\n    for x in [(1, 2), (3, 0)]:\n        a = a + x[0]\n    return a")
    # constants holding a tuple (loop targets over lists of tuples), tuple if-expressions, builtins
    t.append("def test(a: Qint[2]) -> Tuple[Qint[2], Qint[2]]:\n    for x in [(1, 2)]:\n        t = x\n    return t")
    t.append("def test(a: Qint[2]) -> Tuple[Qint[2], Qint[4]]:\n    for x in [(1, 9), (3, 12)]:\n        t = x\n    return t")
    t.append("def test(a: Qint[2]) -> Tuple[Qint[2], Qfixed[1, 2]]:\n    for x in [(1, 0.5)]:\n        t = x\n    return t")
    t.append("def test(a: Qint[2]) -> Tuple[Qint[2], Qchar]:\n    for x in [(1, 'c')]:\n        t = x\n    return t")
    t.append("def test(a: Qint[2]) -> Tuple[Qint[2], Qint[2]]:\n    for x in [(True, 2)]:\n        t = x\n    return t")
    t.append("def test(a: Qint[2]) -> Tuple[Qint[2], Qint[2]]:\n    for x in [(-1, 2)]:\n        t = x\n    return t")
    t.append("def test(a: Tuple[bool, bool], c: bool, x: bool, y: bool) -> Tuple[bool, bool]:\n    return a if c else (x, y)")
    t.append("def test(a: Tuple[Qint[2], bool], c: bool, x: Qint[2], y: bool) -> Tuple[Qint[2], bool]:\n    return a if c else (x, y)")
    t.append("def test(a: Tuple[Qint[2], bool], c: bool, x: Qint[2], y: bool) -> Tuple[Qint[2], bool]:\n    return (x, y) if c else (x + 1, not y)")
    t.append("def test(a: Tuple[Qint[2], bool], c: bool) -> Tuple[Tuple[Qint[2], bool], bool]:\n    return (a, c)")
    t.append("def test(a: Tuple[Qint[2], bool], c: bool) -> bool:\n    t = (a, c)\n    return t[0][1]")
    t.append("def test(a: bool) -> Tuple[bool, bool]:\n    t = (a, not a)\n    u = t\n    return u")
    t.append("def test(a: Qint[2], b: Qint[2]) -> Qint[2]:\n    return max(a, b, 1)")
    t.append("def test(a: Qlist[Qint[2], 3]) -> Qint[2]:\n    return min(a)")
    t.append("def test(a: Qlist[Qint[2], 3]) -> Qint[4]:\n    return sum(a) + len(a)")
    t.append("def test(a: Qchar) -> Qchar:\n    return chr(ord(a))")
    t.append("def test(a: Qint[4]) -> Qint[4]:\n    a += 1\n    a -= 2\n    a ^= 3\n    return a")
    t.append("def test(a: Qint[4]) -> Qint[4]:\n    a <<= 1\n    a >>= 2\n    return a")
    # empty tuples (no bits since 4042692); a nested if in a then-branch (rejected: _iftargN read before it is bound)
    t.append("def test(a: bool) -> bool:\n    u = ((), a)\n    return u[1]")
    t.append("def test(a: bool) -> bool:\n    t = ()\n    return a")
    t.append("def test(a: bool) -> bool:\n    u = ()\n    v = u\n    return a")
    t.append("def test(a: bool, b: bool) -> bool:\n    u = (a, (), b)\n    v = u\n    return v[2] and not v[0]")
    t.append("def test(a: bool, b: Qint[2]) -> Qint[2]:\n    u = ((), a, ((), b))\n    v = u\n    return v[2][1] + 1 if v[1] else v[2][1]")
    t.append("def test(a: bool) -> Tuple[bool, Tuple[()]]:\n    return (a, ())")
    t.append("def test(a: bool) -> Tuple[Tuple[()], Tuple[bool, Tuple[()]]]:\n    t = ((), (a, ()))\n    return t")
    t.append("def test(a: bool) -> Tuple[()]:\n    return ()")
    t.append("def test(a: Tuple[()], b: bool) -> bool:\n    return b")
    t.append("def test(u: Tuple[Tuple[()], Qint[2], bool]) -> Qint[2]:\n    v = u\n    return v[1] if v[2] else u[1] + 1")
    t.append("def test(a: bool) -> bool:\n    u = ((), a)\n    w = u[0]\n    return u[1]")
    t.append("def test(a: bool, q: Qint[2]) -> Qint[2]:\n    u = ((), a)\n    t = (u[0], q)\n    return t[1]")
    t.append("def test(a: bool) -> Tuple[Tuple[()], bool]:\n    u = ((), a)\n    w = u[0]\n    return (w, a)")
    t.append("def test(a: bool, q: Qint[2]) -> Tuple[Tuple[()], Qint[2]]:\n    u = (q, (), a)\n    return (u[1], u[0] + 1)")
    t.append("def test(a: bool) -> bool:\n    u = (a, ())\n    return u == u")
    t.append("def test(a: bool, b: bool, c: bool) -> bool:\n    u = (a, (), b)\n    w = (b, (), a)\n    return u == w")
    t.append("def test(a: bool, c: bool) -> bool:\n    u = ((), a) if c else ((), c)\n    return u[1]")
    t.append("def test(a: bool, c: bool) -> bool:\n    u = ((), a)\n    w = ((), c)\n    x = u if c else w\n    return x[1]")
    t.append("def test(a: Qint[2]) -> Qint[2]:\n    for x in [(), ()]:\n        a = a + 1\n    return a")
    t.append("def test(a: bool, b: bool, c: Qint[2]) -> Qint[2]:\n    if a:\n        if b:\n            c = c + 1\n    return c")
    t.append("def test(a: bool, b: bool, c: Qint[2]) -> Qint[2]:\n    if a:\n        c = c + 1\n    else:\n        if b:\n            c = c + 2\n    return c")
    t.append("def test(a: bool) -> bool:\n    t = (a,)\n    u = t\n    return u[0]")
    # statements the translator rejects
    t.append("def test(a: bool) -> bool:\n    b: bool = a\n    return b")
    t.append("def test(a: bool) -> bool:\n    pass\n    return a")
    t.append("def test(a: bool) -> bool:\n    return")
    t.append("def test(a: bool) -> bool:\n    return (lambda x: x)(a)")
    t.append("def test(a: bool) -> bool:\n    return a if a else {1: 2}")
    return t


def _rand_type(rng, allow_tuple=True, depth=1):
    r = rng.random()
    if allow_tuple and depth > 0 and r < 0.25:
        n = rng.randint(2, 3)
        return "Tuple[%s]" % ", ".join(_rand_type(rng, True, depth - 1) for _ in range(n))
    if r < 0.5:
        return "bool"
    if r < 0.9:
        return f"Qint[{rng.choice([2, 2, 3, 4])}]"
    return rng.choice(["Qfixed[1, 2]", "Qfixed[2, 2]"])


def _size(t):
    t = t.strip()
    if t == "bool":
        return 1
    if t.startswith("Qint["):
        return int(t[5:-1])
    if t.startswith("Qfixed["):
        i, f = t[7:-1].split(",")
        return int(i) + int(f)
    if t.startswith("Tuple["):
        return sum(_size(x) for x in _split_top(t[6:-1]))
    raise ValueError(t)


def _split_top(s):
    out, depth, cur = [], 0, ""
    for ch in s:
        if ch == "[":
            depth += 1
        if ch == "]":
            depth -= 1
        if ch == "," and depth == 0:
            out.append(cur)
            cur = ""
        else:
            cur += ch
    if cur.strip():
        out.append(cur)
    return [x.strip() for x in out]


def _leaves(name, t):
    """(expression text, type text) of every scalar reachable from `name` of type t."""
    if t.startswith("Tuple["):
        out = []
        for i, x in enumerate(_split_top(t[6:-1])):
            out += _leaves(f"{name}[{i}]", x)
        return out
    return [(name, t)]


def texp_program(rng):
    """A random program over tuple / bool / Qint / Qfixed arguments that walks the typed
    expression language: subscripts, if-expressions of mixed widths, comparisons,
    boolean connectives of 1..5 operands, casts, shifts, assignments, tuple returns."""
    args, total = [], 0
    for i in range(rng.randint(1, 3)):
        t = _rand_type(rng)
        if total + _size(t) > 10:
            t = "bool"
        if total + _size(t) > 10:
            break
        args.append((chr(ord("a") + i), t))
        total += _size(t)
    scal = [x for n, t in args for x in _leaves(n, t)]
    ints = [(e, t) for e, t in scal if t.startswith("Qint")]
    bools = [e for e, t in scal if t == "bool"]
    fixs = [(e, t) for e, t in scal if t.startswith("Qfixed")]
    for e, t in ints:
        if rng.random() < 0.3:
            bools.append(f"{e}[{rng.randrange(int(t[5:-1]))}]")

    def ie(d):
        if not ints or d == 0 or rng.random() < 0.25:
            if ints and rng.random() < 0.75:
                return rng.choice(ints)[0]
            return rng.choice([str(rng.choice([0, 1, 2, 3, 5, 6, 9, 17])), f"Qint{rng.choice([2, 4])}({rng.randrange(8)})"])
        k = rng.choice(["+", "-", "&", "|", "^", "<<", ">>", "~", "if", "*c", "%", "int"])
        if k in ("<<", ">>"):
            return f"({ie(d - 1)} {k} {rng.randint(0, 3)})"
        if k == "~":
            return f"(~{ie(d - 1)})"
        if k == "if":
            return f"({ie(d - 1)} if {be(d - 1)} else {ie(d - 1)})"
        if k == "*c":
            return f"({ie(d - 1)} * {rng.choice([0, 1, 2, 3, 4, 6])})"
        if k == "%":
            return f"({ie(d - 1)} % {rng.choice([1, 2, 4])})"
        if k == "int":
            return f"int({fe(0)})" if fixs else f"int({ie(d - 1)})"
        return f"({ie(d - 1)} {k} {ie(d - 1)})"

    def fe(d):
        if not fixs:
            return "0.5"
        if d == 0 or rng.random() < 0.4:
            return rng.choice(fixs)[0] if rng.random() < 0.8 else rng.choice(["0.5", "0.25", "1.5"])
        k = rng.choice(["+", "-", "*"])
        if k == "*":
            return f"({fe(d - 1)} * {rng.randint(0, 3)})"
        return f"({fe(d - 1)} {k} {fe(d - 1)})"

    def be(d):
        if d == 0 or rng.random() < 0.2:
            if bools and rng.random() < 0.85:
                return rng.choice(bools)
            return rng.choice(["True", "False"])
        k = rng.choice(["and", "or", "not", "cmp", "cmp", "^", "==", "if", "fcmp", "tcmp"])
        if k in ("and", "or"):
            n = rng.choice([2, 2, 3, 4, 5])
            return "(" + f" {k} ".join(be(d - 1) for _ in range(n)) + ")"
        if k == "not":
            return f"(not {be(d - 1)})"
        if k == "cmp" and ints:
            return f"({ie(d - 1)} {rng.choice(['==', '!=', '<', '<=', '>', '>='])} {ie(d - 1)})"
        if k == "fcmp" and fixs:
            return f"({fe(d - 1)} {rng.choice(['==', '!=', '<', '<=', '>', '>='])} {fe(d - 1)})"
        if k == "tcmp":
            tups = [(n, t) for n, t in args if t.startswith("Tuple")]
            if tups:
                n, t = rng.choice(tups)
                return f"({n} {rng.choice(['==', '!='])} {n})"
        if k == "if":
            return f"({be(d - 1)} if {be(d - 1)} else {be(d - 1)})"
        if k == "==":
            return f"({be(d - 1)} {rng.choice(['==', '!='])} {be(d - 1)})"
        return f"({be(d - 1)} ^ {be(d - 1)})"

    sig = ", ".join(f"{n}: {t}" for n, t in args)
    shape = rng.choice(["bool", "int", "int", "tuple", "stmts", "stmts", "fix"])
    if shape == "bool" or (shape in ("int", "stmts") and not ints) or (shape == "fix" and not fixs):
        return f"def test({sig}) -> bool:\n    return {be(3)}"
    if shape == "int":
        return f"def test({sig}) -> Qint[{rng.choice([2, 4, 4, 8])}]:\n    return {ie(3)}"
    if shape == "fix":
        e, t = rng.choice(fixs)
        return f"def test({sig}) -> {t}:\n    return {fe(2)}"
    if shape == "tuple":
        e1, e2 = be(2), (ie(2) if ints else be(1))
        t2 = f"Qint[{rng.choice([2, 4])}]" if ints else "bool"
        return f"def test({sig}) -> Tuple[bool, {t2}]:\n    t = ({e1}, {e2})\n    return t" if rng.random() < 0.5 else \
               f"def test({sig}) -> Tuple[bool, {t2}]:\n    return ({e1}, {e2})"
    lines = [f"    t = {ie(2)}", f"    p = {be(2)}"]
    if rng.random() < 0.5:
        lines.append(f"    if p:\n        t = {ie(1)}\n    else:\n        t = t + 1")
    else:
        lines.append(f"    u = (t, p)\n    t = u[0] ^ {ie(1)}")
    lines.append("    return t")
    return f"def test({sig}) -> Qint[{rng.choice([2, 4, 8])}]:\n" + "\n".join(lines)


def programs(tier, seed):
    from . import c01
    out = list(c01.corpus(tier, seed))
    out += [("texp-template", s) for s in fixed_templates()]
    rng = random.Random(seed * 7919 + 17)
    n = 300 if tier == "quick" else 3000
    out += [("texp-rand", texp_program(rng)) for _ in range(n)]
    seen, res = set(), []
    for o, s in out:
        if s not in seen:
            seen.add(s)
            res.append((o, s))
    return res


# --------------------------------------------------------------------------
# converter: normalised Python ast -> Coq terms of M_Texp.pexp / pstmt
# --------------------------------------------------------------------------
class Idents:
    def __init__(self):
        self.idx = {"_ret": 0}

    def get(self, name):
        if not isinstance(name, str) or name == "":
            raise Unmodelled("identifier")
        if name not in self.idx:
            self.idx[name] = len(self.idx)
        return self.idx[name]


def c_nat(n):
    return str(int(n))


def c_list(items):
    return "[" + "; ".join(items) + "]"


def c_ty(t):
    import typing
    from .types_ser import ty_to_coq, SerError
    args = typing.get_args(t)
    if args or typing.get_origin(t) is tuple:          # tuples, the empty one included
        return "(TTuple %s)" % c_list([c_ty(a) for a in args])
    try:
        return ty_to_coq(t).replace("%nat", "")
    except SerError as e:
        raise Unmodelled(f"type {e}")


def c_cst(v, used):
    if v is True or v is False:
        used["const-bool"] += 1
        return f"(CBool {'true' if v else 'false'})"
    if isinstance(v, int):
        used["const-int"] += 1
        return f"(CInt ({v})%Z)"
    if isinstance(v, float):
        if v != v or v in (float("inf"), float("-inf")):
            raise Unmodelled("non-finite float")
        used["const-float"] += 1
        num, den = abs(v).as_integer_ratio()
        k = den.bit_length() - 1
        assert den == 1 << k
        neg = v < 0
        return f"(CFloat {'true' if neg else 'false'} (mkdy {num} {k}))"
    if isinstance(v, str):
        used["const-str"] += 1
        return "(CStr %s)" % c_list([f"{ord(ch)}%N" for ch in v])
    used["const-other"] += 1
    return "COther"


BOPS = {ast.And: "BoAnd", ast.Or: "BoOr"}
UOPS = {ast.Not: "UoNot", ast.Invert: "UoInvert"}
COPS = {ast.Eq: "CoEq", ast.NotEq: "CoNe", ast.Lt: "CoLt", ast.LtE: "CoLe", ast.Gt: "CoGt", ast.GtE: "CoGe"}
AOPS = {ast.Add: "AoAdd", ast.Sub: "AoSub", ast.Mult: "AoMul", ast.Mod: "AoMod", ast.BitXor: "AoXor",
        ast.BitAnd: "AoAnd", ast.BitOr: "AoOr", ast.LShift: "AoShl", ast.RShift: "AoShr"}


class Converter:
    def __init__(self, ids, type_names):
        self.ids = ids
        self.type_names = type_names       # name -> python type, the types Env() knows
        self.used = collections.Counter()

    def index(self, sl):
        """the constant index of one subscript level, or None when the code raises"""
        if not isinstance(sl, ast.Constant):
            return None
        v = sl.value
        if isinstance(v, bool) or not isinstance(v, int):
            if isinstance(v, float):
                raise Unmodelled("float subscript")       # 'a.1.5' is split into two levels
            return None                                    # int('True') / int('x'): ValueError
        if v < 0:
            return None                                    # OutOfBoundException (or unbound name)
        return v

    def subscript(self, e):
        if not isinstance(e.slice, ast.Constant):
            return "ERaise"
        path, cur = [], e
        while isinstance(cur, ast.Subscript):
            i = self.index(cur.slice)
            if i is None:
                return "ERaise"
            path.append(i)
            cur = cur.value
        if isinstance(cur, ast.Constant) and hasattr(cur.value, "elts"):
            raise Unmodelled("subscript of a constant tuple")
        if not isinstance(cur, ast.Name):
            return "ERaise"
        self.used["Subscript"] += 1
        path.reverse()
        return f"(ESub {self.ids.get(cur.id)} {c_list([c_nat(i) for i in path])})"

    def exp(self, e):  # noqa: C901
        u = self.used
        if isinstance(e, ast.Name):
            u["Name"] += 1
            return f"(EName {self.ids.get(e.id)})"
        if isinstance(e, ast.Subscript):
            return self.subscript(e)
        if isinstance(e, ast.BoolOp):
            u[f"BoolOp/{len(e.values)}"] += 1
            return f"(EBoolOp {BOPS[type(e.op)]} {c_list([self.exp(x) for x in e.values])})"
        if isinstance(e, ast.UnaryOp):
            u["UnaryOp"] += 1
            return f"(EUn {UOPS.get(type(e.op), 'UoOther')} {self.exp(e.operand)})"
        if isinstance(e, ast.IfExp):
            u["IfExp"] += 1
            return f"(EIf {self.exp(e.test)} {self.exp(e.body)} {self.exp(e.orelse)})"
        if isinstance(e, ast.Constant):
            if isinstance(e.value, ast.Tuple):
                u["Constant(Tuple)"] += 1
                elts = []
                for x in e.value.elts:
                    if not isinstance(x, ast.Constant) or isinstance(x.value, (ast.AST,)):
                        raise Unmodelled("constant tuple with a non-constant element")
                    if isinstance(x.value, float) and x.value < 0:
                        raise Unmodelled("negative float in a constant tuple")
                    elts.append(c_cst(x.value, u))
                return f"(EConstTup {c_list(elts)})"
            if isinstance(e.value, ast.AST):
                raise Unmodelled("constant holding an ast node")
            return f"(EConst {c_cst(e.value, u)})"
        if isinstance(e, ast.Tuple):
            u["Tuple"] += 1
            return f"(ETuple {c_list([self.exp(x) for x in e.elts])})"
        if isinstance(e, ast.Compare):
            if len(e.ops) != 1 or len(e.comparators) != 1:
                u["Compare-chain"] += 1
                return "ERaise"
            u["Compare"] += 1
            return f"(ECmp {COPS.get(type(e.ops[0]), 'CoOther')} {self.exp(e.left)} {self.exp(e.comparators[0])})"
        if isinstance(e, ast.BinOp):
            u[f"BinOp/{type(e.op).__name__}"] += 1
            return f"(EBin {AOPS.get(type(e.op), 'AoOther')} {self.exp(e.left)} {self.exp(e.right)})"
        if isinstance(e, ast.Call):
            if isinstance(e.func, ast.Attribute) and isinstance(e.func.value, ast.Name) and e.func.value.id == "Q":
                raise Unmodelled("quantum hybrid call")
            if not hasattr(e.func, "id"):
                return "ERaise"
            name = e.func.id
            if name in self.type_names:
                T = self.type_names[name]
                if not hasattr(T, "BIT_SIZE") or name in ("Qlist", "Qmatrix", "Qfixed", "Qint"):
                    raise Unmodelled(f"cast to {name}")
                if len(e.args) != 1 or not isinstance(e.args[0], ast.Constant):
                    return "ERaise"
                if isinstance(e.args[0].value, ast.AST):
                    raise Unmodelled("cast of a constant holding an ast node")
                u["Cast"] += 1
                return f"(ECast {c_ty(T)} {c_cst(e.args[0].value, u)})"
            if name in ("int", "float"):
                if len(e.args) != 1:
                    return "ERaise"
                u[name + "()"] += 1
                return f"({'EInt' if name == 'int' else 'EFloat'} {self.exp(e.args[0])})"
            u["Call-unknown"] += 1
            return "ERaise"                     # UnknownSymbolException (no functions are defined)
        if e is None:
            return "ERaise"
        u["other-expression"] += 1
        return "ERaise"

    def stmt(self, s):
        if isinstance(s, ast.Assign):
            if len(s.targets) != 1 or not isinstance(s.targets[0], ast.Name):
                return "SRaise"
            self.used["Assign"] += 1
            return f"(SAssign {self.ids.get(s.targets[0].id)} {self.exp(s.value)})"
        if isinstance(s, ast.Return):
            self.used["Return"] += 1
            return f"(SReturn {self.exp(s.value)})"
        if isinstance(s, ast.FunctionDef):
            raise Unmodelled("nested function definition")
        if isinstance(s, ast.Expr):
            self.used["Expr"] += 1
            if not hasattr(s, "value"):          # ast2ast removed print(...): nothing is translated
                return "(SExpr (EConst (CBool true)))"
            return f"(SExpr {self.exp(s.value)})"
        self.used["other-statement"] += 1
        return "SRaise"


def sname_of(name, ids):
    parts = name.split(".")
    out = [ids.get(parts[0])]
    for p in parts[1:]:
        if not p.isdigit():
            raise Unmodelled(f"symbol name {name}")
        out.append(int(p))
    return out


def c_sname(sn):
    return c_list([c_nat(x) for x in sn])


def c_binding(t, bitvec, ids):
    return f"({c_ty(t)}, {c_list([c_sname(sname_of(b, ids)) for b in bitvec])})"


def c_value(t, bits):
    """Coq `value` of type t from its bits; returns (term, bits consumed)."""
    from typing import get_args
    from qlasskit.types import Qchar
    if t is bool:
        return f"(VB {'true' if bits[0] else 'false'})", 1
    if hasattr(t, "BIT_SIZE_INTEGER"):
        i, f = t.BIT_SIZE_INTEGER, t.BIT_SIZE_FRACTIONAL
        n = sum(1 << (f + k) for k in range(i) if bits[k]) + sum(1 << (f - 1 - k) for k in range(f) if bits[i + k])
        return f"(VF {i} {f} {n})", i + f
    if t is Qchar:
        return f"(VC {sum(1 << k for k in range(8) if bits[k])})", 8
    if hasattr(t, "BIT_SIZE"):
        w = t.BIT_SIZE
        return f"(VI {w} {sum(1 << k for k in range(w) if bits[k])})", w
    out, pos = [], 0
    for a in get_args(t):
        v, n = c_value(a, bits[pos:])
        out.append(v)
        pos += n
    return f"(VT {c_list(out)})", pos


# --------------------------------------------------------------------------
# worker
# --------------------------------------------------------------------------
_W = {}


def _winit(tier, seed):
    sys.setrecursionlimit(20000)
    import qlasskit  # noqa
    from qlasskit.ast2logic import Env
    env = Env()
    _W.update(tier=tier, seed=seed, type_names={n: t for n, t in env.types}, untyped=[0])
    # int(x) of a Qfixed whose integer part has no Qint type of that size (Qfixed[1, f]) is typed
    # None by the implementation: M_Codec.ty has no such type (UNMODELLED in M_Texp.trans_int).
    # Record, in this worker process only, whether Qint.type_for_size ever answered None.
    from qlasskit.types.qint import Qint
    orig = Qint.type_for_size

    def recording(s):
        r = orig(s)
        if r is None:
            _W["untyped"][0] += 1
        return r
    Qint.type_for_size = staticmethod(recording)
    signal.signal(signal.SIGVTALRM, _alarm)


def _ir_coq(ir, st):
    from .ser import SerError
    k = ir[0]
    if k == "c":
        return "(BConst true)" if ir[1] else "(BConst false)"
    if k == "s":
        return f"(BSym {st.get(ir[1], True)})"
    if k == "n":
        return f"(BNot {_ir_coq(ir[1], st)})"
    if k in "aox":
        c = {"a": "BAnd", "o": "BOr", "x": "BXor"}[k]
        return "(%s %s)" % (c, c_list([_ir_coq(a, st) for a in ir[1]]))
    if k == "i":
        return "(BIte %s %s %s)" % tuple(_ir_coq(a, st) for a in ir[1:])
    if k == "m":
        return "(BImp %s %s)" % tuple(_ir_coq(a, st) for a in ir[1:])
    raise SerError(f"IR node {k}")


def _ir_size(ir):
    k = ir[0]
    if k in "cs":
        return 1
    if k == "n":
        return 1 + _ir_size(ir[1])
    if k in "aox":
        return 1 + sum(_ir_size(a) for a in ir[1])
    return 1 + sum(_ir_size(a) for a in ir[1:])


def _mul_sizing(nm):
    for c in (2, 4, 6, 8, 12, 16):
        if nm <= c:
            return c
    return 16


def model_cost(norm, iargs):
    """Crude bound on the width of the widest array multiplier the MODEL would have to walk as
    a tree (M_Types.array_mul builds an expression tree: feasible up to 4x4).  Only a cost
    heuristic: a wrong estimate costs time (a coqc timeout is reported), never a verdict."""
    def tw(t):
        return getattr(t, "BIT_SIZE", 16 if t is not bool else 1)
    widths = {a.name: tw(a.ttype) for a in iargs}
    worst = [0]

    def w(e):
        if isinstance(e, ast.Name):
            return widths.get(e.id, 16)
        if isinstance(e, ast.Constant):
            v = e.value
            if isinstance(v, bool):
                return 1
            if isinstance(v, int) and v >= 0:
                return next((c for c in (2, 4, 6, 8, 12, 16) if v < 2 ** c), 16)
            return 8
        if isinstance(e, ast.BinOp):
            a, b = w(e.left), w(e.right)
            if isinstance(e.op, ast.Mult):
                const = [x for x in (e.left, e.right) if isinstance(x, ast.Constant) and isinstance(x.value, int)
                         and not isinstance(x.value, bool)]
                if not (const and const[0].value % 2 == 0):
                    worst[0] = max(worst[0], max(a, b))
                return _mul_sizing(2 * max(a, b))
            if isinstance(e.op, (ast.LShift, ast.RShift)):
                return a
            return max(a, b)
        if isinstance(e, ast.IfExp):
            w(e.test)
            return max(w(e.body), w(e.orelse))
        if isinstance(e, ast.UnaryOp):
            return w(e.operand)
        if isinstance(e, ast.Call):
            ws = [w(x) for x in e.args]
            nm = getattr(e.func, "id", "")
            if nm.startswith("Qint") and nm[4:].isdigit():
                return int(nm[4:])
            return max(ws + [8])
        if isinstance(e, ast.Subscript):
            cur = e
            while isinstance(cur, ast.Subscript):
                cur = cur.value
            return 4 if isinstance(cur, ast.Name) and cur.id in sub_ok else 16
        for ch in ast.iter_child_nodes(e):
            if isinstance(ch, ast.expr):
                w(ch)
        return 1 if isinstance(e, (ast.Compare, ast.BoolOp)) else 16

    # a subscript of a tuple argument whose elements are all at most 4 bits wide is at most 4 bits wide
    from typing import get_args
    def max_elt(t):
        if hasattr(t, "BIT_SIZE") or t is bool:
            return tw(t)
        return max([max_elt(a) for a in get_args(t)] + [1])
    sub_ok = {a.name for a in iargs if max_elt(a.ttype) <= 4}
    for a in iargs:
        if not hasattr(a.ttype, "BIT_SIZE") and a.ttype is not bool:
            widths[a.name] = 16
    for st in norm.body:
        if isinstance(st, ast.Assign) and len(st.targets) == 1 and isinstance(st.targets[0], ast.Name):
            widths[st.targets[0].id] = w(st.value)
        elif isinstance(st, (ast.Return, ast.Expr)) and getattr(st, "value", None) is not None:
            w(st.value)
    return worst[0]


def do_prog(job):  # noqa: C901
    from . import shadow
    from .ser import SymTab, SerError, to_ir, ir_eval
    idx, origin, src = job
    out = dict(id=idx, origin=origin, src=src, status="ok", used={})
    tier = _W["tier"]
    signal.setitimer(signal.ITIMER_VIRTUAL, 20 if tier == "quick" else 60)
    try:
        import qlasskit
        from qlasskit import ast2ast
        from qlasskit.ast2logic import Env, translate_ast, translate_argument, translate_arguments
        try:
            tree = ast.parse(src).body[0]
        except SyntaxError:
            return dict(out, status="unmodelled", why="syntax error")
        if not isinstance(tree, ast.FunctionDef):
            return dict(out, status="unmodelled", why="not a function")
        try:
            norm = ast2ast(copy.deepcopy(tree))
        except _Timeout:
            raise
        except BaseException as e:
            return dict(out, status="unmodelled", why="ast2ast raises", detail=f"{type(e).__name__}: {e}"[:120])
        # argument and return types, resolved by the implementation's own translate_argument
        try:
            env = Env()
            iargs = translate_arguments(norm.args.args, env)
            if not norm.returns:
                return dict(out, status="unmodelled", why="no return annotation")
            iret = translate_argument(norm.returns, env, base="_ret")
        except _Timeout:
            raise
        except BaseException as e:
            return dict(out, status="unmodelled", why="argument annotation rejected", detail=f"{type(e).__name__}: {e}"[:120])
        if norm.args.vararg or norm.args.kwarg or norm.args.kwonlyargs or norm.args.posonlyargs:
            return dict(out, status="unmodelled", why="argument kinds")
        ids = Idents()
        try:
            for a in iargs:
                if a.name == "_ret":
                    raise Unmodelled("identifier _ret")
            args_coq = c_list([f"({ids.get(a.name)}, {c_ty(a.ttype)})" for a in iargs])
            ret_coq = c_ty(iret.ttype)
            conv = Converter(ids, _W["type_names"])
            body = [conv.stmt(s) for s in norm.body]
            for nm in list(ids.idx):
                if nm != "_ret" and nm.startswith("_ret"):
                    pass
            if any(isinstance(n, ast.Name) and n.id == "_ret" for n in ast.walk(norm)):
                raise Unmodelled("identifier _ret")
        except Unmodelled as e:
            return dict(out, status="unmodelled", why=str(e))
        out["used"] = dict(conv.used)
        # the implementation
        inputs = [b for a in iargs for b in a.bitvec]
        n = len(inputs)
        out["n"] = n
        _W["untyped"][0] = 0
        try:
            _, rargs, rret, exps = translate_ast(norm, [], [])
            raised = None
        except _Timeout:
            raise
        except BaseException as e:
            raised = f"{type(e).__name__}: {e}"[:160]
        if raised is None and _W["untyped"][0]:
            return dict(out, status="unmodelled", why="int() of a Qfixed whose integer part has no Qint type (typed None)")
        st = SymTab(inputs)
        try:
            if raised is None:
                irdefs = []
                for s_, e_ in exps:
                    irdefs.append((s_.name, to_ir(e_)))
                names = [nm for nm, _ in irdefs]
                size = sum(_ir_size(ir) for _, ir in irdefs)
                out["ir_size"] = size
                ds = c_list([f"({st.get(nm, True)}, {_ir_coq(ir, st)})" for nm, ir in irdefs])
                obs = "(IOk %s %s %s %s)" % (
                    c_list([f"({ids.get(a.name)}, {c_binding(a.ttype, a.bitvec, ids)})" for a in rargs]),
                    c_binding(rret.ttype, rret.bitvec, ids),
                    c_list([c_sname(sname_of(nm, ids)) for nm in names]), ds)
            else:
                obs = "IRaise"
                irdefs = None
        except (SerError, Unmodelled) as e:
            return dict(out, status="unmodelled", why=f"implementation output: {e}"[:100])
        out["raised"] = raised
        # numbering table: every symbol name met
        tab = c_list([f"({c_sname(sname_of(nm, ids))}, {k})" for nm, k in st.idx.items()])
        out["prog"] = f"(mkprog {n} {tab} {args_coq} {ret_coq} {c_list(body)})"
        out["obs"] = obs
        out["mul_width"] = model_cost(norm, iargs)
        out["heavy"] = out["mul_width"] > 4
        out["route"] = "trans" if (n <= MAX_TT_BITS and not out["heavy"]) else "shape"
        # samples: shadow execution of the ORIGINAL source, and the implementation's list in Python
        samples, impl_fail = [], None
        if raised is None:
            rng = random.Random(_W["seed"] * 1000003 + idx)
            k = 10 if tier == "quick" else 24
            xs = list(range(1 << n)) if (1 << n) <= k else sorted(set([0, (1 << n) - 1] + [rng.getrandbits(n) for _ in range(k - 2)]))
            arg_t = [a.ttype for a in iargs]
            for x in xs:
                bits = [bool((x >> i) & 1) for i in range(n)]
                try:
                    rb, _wr = shadow.run(src, tree.name, arg_t, iret.ttype, bits)
                    sh = "(Some %s)" % c_list(["true" if b else "false" for b in rb])
                except _Timeout:
                    raise
                except shadow.Unsupported:
                    rb, sh = None, "None"
                except BaseException:
                    rb, sh = None, "None"
                vals, pos = [], 0
                for t in arg_t:
                    v, m = c_value(t, bits[pos:])
                    vals.append(v)
                    pos += m
                samples.append(f"({c_list(vals)}, {sh})")
                if rb is not None and impl_fail is None:
                    env_ = dict(zip(inputs, bits))
                    try:
                        for nm, ir in irdefs:
                            try:
                                env_[nm] = ir_eval(ir, env_)
                            except KeyError:      # a (dead) definition mentioning an unbound symbol
                                env_.pop(nm, None)
                        ib = [bool(env_[r]) for r in rret.bitvec]
                    except KeyError as e:
                        impl_fail = dict(kind="a return bit depends on an unbound symbol", source=src, input=x, detail=str(e))
                    else:
                        if ib != rb:
                            impl_fail = dict(kind="pre-optimizer definitions differ from the shadow run", source=src, input=x,
                                             input_bits=dict(zip(inputs, [int(b) for b in bits])),
                                             implementation=[int(b) for b in ib], python=[int(b) for b in rb])
        out["samples"] = samples
        out["impl_fail"] = impl_fail
        return out
    except _Timeout:
        return dict(out, status="impl-timeout")
    except BaseException as e:  # noqa
        import traceback
        return dict(out, status="harness-error", error=f"{type(e).__name__}: {e}"[:300], tb=traceback.format_exc()[-800:])
    finally:
        signal.setitimer(signal.ITIMER_VIRTUAL, 0)


# --------------------------------------------------------------------------
# Coq side
# --------------------------------------------------------------------------
HDR = ("From Coq Require Import List Bool NArith ZArith Arith.\nImport ListNotations.\n"
       "From QV Require Import Bits Bexp BexpTT M_Codec M_Types M_Texp Chk_Texp.\n"
       "Local Open Scope nat_scope.\n")


def build_files(results):
    """Programs sorted by the size of the implementation's expressions, dealt round-robin
    into files of at most PER_FILE programs (big ones spread evenly)."""
    ok = [r for r in results if r["status"] == "ok"]
    ok.sort(key=lambda r: -(r.get("ir_size", 0) * (1 << min(r["n"], MAX_TT_BITS))))
    nfiles = max(16, (len(ok) + PER_FILE - 1) // PER_FILE)
    bins = [[] for _ in range(nfiles)]
    for i, r in enumerate(ok):
        bins[i % nfiles].append(r)
    files = []
    for fi, rs in enumerate(bins):
        if not rs:
            continue
        tr = [r for r in rs if r["route"] == "trans"]
        sh = [r for r in rs if r["route"] == "shape"]
        txt = HDR
        for r in rs:
            txt += f"Definition p_{r['id']} : prog := {r['prog']}.\nDefinition o_{r['id']} : iobs := {r['obs']}.\n"
        def cases(l):
            return c_list([f"({r['id']}%N, (p_{r['id']}, o_{r['id']}))" for r in l])
        txt += f"Definition cs_trans : list (N * (prog * iobs)) := {cases(tr)}.\n"
        txt += f"Definition cs_shape : list (N * (prog * iobs)) := {cases(sh)}.\n"
        txt += f"Definition cs_all : list (N * (prog * iobs)) := {cases([r for r in rs if not r['heavy']])}.\n"
        txt += f"Definition cs_ev : list (N * (prog * iobs)) := {cases(rs)}.\n"
        samp = c_list([f"({r['id']}%N, {c_list(r['samples'])})" for r in rs if r["samples"]])
        txt += f"Definition samples : list (N * list (list value * option (list bool))) := {samp}.\n"
        txt += "Eval vm_compute in (chk_trans cs_trans).\n"
        txt += "Eval vm_compute in (chk_shape cs_shape).\n"
        txt += "Eval vm_compute in (chk_guard cs_all).\n"
        txt += "Eval vm_compute in (chk_eval cs_ev samples).\n"
        txt += "Eval vm_compute in (chk_thm cs_all samples).\n"
        txt += "Eval vm_compute in (chk_mixed cs_all).\n"
        txt += "Eval vm_compute in (chk_side cs_all).\n"
        files.append((f"x{fi:04d}", txt, [r["id"] for r in rs]))
    return files


def ensure_vo():
    th = C.THEORIES
    log = ""
    with C._Lock():
        for f in ("M_Texp", "Chk_Texp"):
            v, vo = os.path.join(th, f + ".v"), os.path.join(th, f + ".vo")
            deps = [os.path.join(th, d + ".vo") for d in ("M_Texp", "M_Types", "M_Codec", "BexpTT", "Generated")]
            stale = (not os.path.exists(vo)) or os.path.getmtime(vo) < os.path.getmtime(v) or any(
                os.path.exists(d) and os.path.getmtime(d) > os.path.getmtime(vo) for d in deps if d != vo)
            if stale:
                r = subprocess.run(["timeout", "900", "coqc", "-Q", "theories", "QV", f"theories/{f}.v"],
                                   cwd=C.COQ, capture_output=True, text=True)
                if r.returncode != 0:
                    return False, (r.stdout + r.stderr)[-3000:]
                log += f"compiled {f}.v\n"
    return True, log


TRANS_CODES = {1: "model rejects, implementation accepts", 2: "model accepts, implementation raises",
               3: "argument / return binding differs", 4: "defined symbol names differ",
               5: "a definition has another truth table", 6: "numbering not injective"}


def collect(tier, seed, jobs=16, only=None, progs=None):
    t0 = time.time()
    progs = programs(tier, seed) if progs is None else progs
    if only is not None:
        progs = [p for p in progs if only(p)]
    jobs_l = [(i, o, s) for i, (o, s) in enumerate(progs)]
    ctx = mp.get_context("fork")
    with ctx.Pool(jobs, initializer=_winit, initargs=(tier, seed)) as pool:
        results = pool.map(do_prog, jobs_l, chunksize=4)
    t_impl = time.time() - t0
    by_id = {r["id"]: r for r in results}
    status = collections.Counter(r["status"] for r in results)
    unmodelled = collections.Counter(r.get("why", "") for r in results if r["status"] == "unmodelled")
    unmodelled_ex = {}
    for r in results:
        if r["status"] == "unmodelled":
            unmodelled_ex.setdefault(r["why"], r["src"])
    herr = [dict(source=r["src"], error=r.get("error"), tb=r.get("tb")) for r in results if r["status"] == "harness-error"]
    impl_failures = [r["impl_fail"] for r in results if r["status"] == "ok" and r.get("impl_fail")]
    used = collections.Counter()
    for r in results:
        if r["status"] == "ok":
            for k, v in r["used"].items():
                used[k] += 1
    ok_vo, log = ensure_vo()
    files = build_files(results)
    t1 = time.time()
    mismatches, coq_err = [], []
    guard_out, eval_codes, thm_codes = set(), collections.Counter(), collections.Counter()
    mixed, literal = set(), set()
    hyg_out, wf_out, class_out = set(), set(), set()
    eval_dis, thm_fail, eval_only_shadow, eval_dis_ids = [], [], [], []
    checked = set()
    if ok_vo:
        run_dir = f"{RUN_DIR}.{os.getpid()}"
        saved = C.COQC_TIMEOUT
        C.COQC_TIMEOUT = min(saved, 240 if tier == "quick" else 900)
        try:
            res = C.run_cases(run_dir, [(n, t) for n, t, _ in files])
        finally:
            C.COQC_TIMEOUT = saved
        for name, _, ids_ in files:
            rc, so, se = res[name]
            if rc != 0:
                coq_err.append(dict(file=name, programs=len(ids_), error=(so + se)[-600:] or f"coqc exit code {rc} (timeout?)"))
                continue
            vals = C.parse_results(so)
            if len(vals) != 7:
                coq_err.append(dict(file=name, error=f"7 evaluations expected, {len(vals)} printed"))
                continue
            try:
                lt, ls, lg, le, lth, lmx, lsd = [C.parse_N_list(v) for v in vals]
            except Exception:
                coq_err.append(dict(file=name, error="unparsable output: " + so[-300:]))
                continue
            checked.update(ids_)
            for code in lt + ls:
                r = by_id[code // 10]
                mismatches.append(dict(kind=TRANS_CODES.get(code % 10, str(code % 10)), source=r["src"], origin=r["origin"],
                                       implementation_raised=r.get("raised"), file=name))
            guard_out.update(lg)
            for code in lsd:
                if code % 10 & 1:
                    hyg_out.add(code // 10)
                if code % 10 & 2:
                    wf_out.add(code // 10)
                if code % 10 & 4:
                    class_out.add(code // 10)
            for code in lmx:
                if code % 10 in (1, 3):
                    mixed.add(code // 10)
                if code % 10 in (2, 3):
                    literal.add(code // 10)
            for code in le:
                eval_codes[code % 10] += 1
                if code % 10 == 1:
                    eval_dis.append(by_id[code // 10]["src"])
                    eval_dis_ids.append(code // 10)
                if code % 10 == 2:
                    eval_only_shadow.append(by_id[code // 10]["src"])
            for code in lth:
                thm_codes[code % 10] += 1
                if code % 10 == 1:
                    thm_fail.append((code // 10, by_id[code // 10]["src"]))
        if not coq_err and not mismatches and not os.environ.get("QV_KEEP_CASES"):
            shutil.rmtree(os.path.join(C.BUILD, run_dir), ignore_errors=True)
    else:
        coq_err.append(dict(file="(theories)", error=log))
    t_coq = time.time() - t1
    okr = [r for r in results if r["status"] == "ok"]
    # harness/shadow.py keeps CPython's dynamic width across control flow (a deliberate
    # simplification): a program with an if-expression whose branches have different translated
    # types is widened by the code and not by the shadow run.  Disagreements of the evaluator (and
    # of the implementation) with the shadow run on such programs are a MEASURED number, not a
    # failure; a disagreement on any other program is reported as unexplained.
    # (second class of the same kind: a name bound to a bare integer literal keeps the literal's
    # constant width in the code, and is an untyped Python int in the shadow run)
    dis_explained = {by_id[i]["src"] for i in eval_dis_ids if i in mixed or i in literal}
    dis_unexplained = sorted({by_id[i]["src"] for i in eval_dis_ids if i not in mixed and i not in literal})
    n_dis_explained = sum(1 for i in eval_dis_ids if i in mixed)
    n_dis_literal = sum(1 for i in eval_dis_ids if i not in mixed and i in literal)
    impl_vs_shadow_only = [f for f in impl_failures if f["source"] in dis_explained]
    impl_failures = [f for f in impl_failures if f["source"] not in dis_explained]
    accepted = [r for r in okr if r.get("raised") is None]
    # failures of the corollary's instance: inside the guards they would contradict the theorem
    thm_fail_in_guard = sorted({s for i, s in thm_fail if i not in guard_out})
    thm_fail_out_guard = sorted({s for i, s in thm_fail if i in guard_out})
    per_origin = collections.Counter(r["origin"] for r in okr)
    return dict(
        cases=len([r for r in okr if r["id"] in checked]), distinct=len({r["src"] for r in okr if r["id"] in checked}),
        mismatches=mismatches, impl_failures=impl_failures,
        unmodelled=dict(count=status.get("unmodelled", 0), reasons=dict(unmodelled.most_common()), examples=unmodelled_ex),
        distribution=dict(programs=len(progs), status=dict(status), modelled=len(okr), accepted_by_impl=len(accepted),
                          rejected_by_impl=len(okr) - len(accepted), per_origin=dict(per_origin),
                          truth_table_route=len([r for r in okr if r["route"] == "trans"]),
                          shape_route=len([r for r in okr if r["route"] == "shape"]),
                          heavy_multiplications=len([r for r in okr if r.get("heavy")]),
                          constructs=dict(used.most_common()), coq_files=len(files),
                          outside_theorem_guards=len(guard_out),
                          guard_is="every statement in the syntactic class (stmt_class), or seq_ok evaluated (body_guard2 of M_Texp.v)",
                          accepted_with_a_statement_outside_the_class=len(class_out),
                          outside_class_examples=[by_id[i]["src"] for i in sorted(class_out)[:8]],
                          numbering_table_fails_hygiene=len(hyg_out - guard_out),
                          outside_signature_hypotheses=len(wf_out),
                          outside_hypotheses_examples=[by_id[i]["src"] for i in sorted(wf_out | (hyg_out - guard_out))[:10]],
                          outside_guard_examples=[by_id[i]["src"] for i in sorted(guard_out)[:40]]),
        evaluator_vs_shadow=dict(agree=eval_codes[0], only_shadow=eval_codes[2], only_model=eval_codes[3], neither=eval_codes[4],
                                 disagree_explained_by_mixed_width_if=n_dis_explained,
                                 programs_with_mixed_width_if=len(mixed), disagreeing_programs_explained=len(dis_explained),
                                 disagree_explained_by_untyped_literal_name=n_dis_literal,
                                 programs_binding_a_literal=len(literal),
                                 DISAGREE_UNEXPLAINED=eval_codes[1] - n_dis_explained - n_dis_literal,
                                 unexplained_programs=dis_unexplained[:20],
                                 explained_examples=sorted(dis_explained)[:6],
                                 only_shadow_examples=sorted(set(eval_only_shadow))[:12],
                                 implementation_differs_from_shadow_on_explained_programs=len(impl_vs_shadow_only)),
        corollary_instances=dict(hold=thm_codes[0], FAIL=thm_codes[1], not_applicable=thm_codes[2],
                                 failing_inside_guards=thm_fail_in_guard[:10], failing_outside_guards=thm_fail_out_guard[:10]),
        harness_errors=herr, coq_errors=coq_err,
        timings=dict(implementation_s=round(t_impl, 1), coq_s=round(t_coq, 1), total_s=round(time.time() - t0, 1)),
    )


if __name__ == "__main__":
    import json
    tier = sys.argv[1] if len(sys.argv) > 1 else "quick"
    r = collect(tier, C.seed_from_env(0))
    r["mismatches"] = r["mismatches"][:25]
    r["impl_failures"] = r["impl_failures"][:15]
    print(json.dumps(r, indent=1, default=str))
