"""Verdict logic shared by the C02 / C03 / C06 checks (per-program decisions
come from compiled.collect)."""
import collections

from . import common as C
from . import compiled
from .ser import ir_str


def tuple_name_return(rec):
    """Signature of the recorded finding 'return of a tuple-typed name': the return
    expressions are named flat (_ret.0, _ret.1, ...) while the declared return bits
    are nested (_ret.0.0, ...)."""
    obs = rec["obs"]
    names = [n for n, _ in obs["exprs"] if n.startswith("_ret")]
    bitvec = obs["ret"][1]
    flat = [f"_ret.{i}" for i in range(len(bitvec))]
    return (obs["ret"][0].startswith("Tuple") and names[-len(bitvec):] == flat
            and any(b.count(".") >= 2 for b in bitvec))


def run(pid, kind, tier, seed, what):
    chk = C.Check(pid, tier, seed, level="proof")
    ok, log = C.coq_build()
    files = [f"Prop_{pid}.v"] + (["Prop_C02_model.v"] if pid in ("C02", "C03") else [])
    obl = C.prop_obligations(pid, files=files) if ok else dict(theorems=[], axioms={}, ok=False, log=log)
    if not ok or not obl["ok"]:
        chk.broken(f"theorems of Prop_{pid}.v do not check", (log + obl.get("log", ""))[-3000:])
        return chk.finish(obl)
    data = compiled.collect(tier, seed)
    recs = data["records"]
    known = C.known_findings(pid)
    if data["coq_errors"]:
        chk.broken("the verified checker could not be evaluated on some programs", data["coq_errors"][:3])
    decided = undecidable = skipped = 0
    per_origin = collections.Counter()
    status = collections.Counter()
    seen_src = set()
    nontrivial = set()
    for r in recs:
        status[r["status"]] += 1
        if r["status"] != "ok":
            continue
        if kind != "c02" and not r["uncompute"]:
            continue
        if kind == "c06" and r["obs"]["ret"][0] != "bool":
            continue
        cfg = dict(optimizer=r["optimizer"], uncompute=r["uncompute"])
        if r.get("unmapped") and kind in ("c02", "c06"):
            kf = [f for f in known if f.get("id") == "return-tuple-name"]
            if kf and tuple_name_return(r):
                if ("kf", r["src"]) not in seen_src:
                    seen_src.add(("kf", r["src"]))
                    chk.known(kf[0], f"return bits {r['unmapped']} are not mapped to any qubit: {r['src']!r}")
            else:
                chk.violation("a return bit is not mapped to a qubit", dict(source=r["src"], config=cfg, unmapped=r["unmapped"]))
            continue
        if kind == "c06" and r.get("out_on_input"):
            if (r["src"], "alias") not in seen_src:
                seen_src.add((r["src"], "alias"))
                chk.violation("the output qubit of a predicate is one of its argument qubits (no separate |y> register: not an xor-oracle)",
                              dict(source=r["src"], config=cfg, return_bits_on_input_qubits=r["out_on_input"], qubit_map=r["obs"]["qubit_map"]))
            continue
        if "verdict" not in r:
            skipped += 1
            if r.get("ser_error"):
                chk.violation("implementation artefact cannot be interpreted", dict(source=r["src"], config=cfg, error=r["ser_error"]))
            continue
        st, wit = r["verdict"][kind]
        if kind == "c06" and r["verdict"]["c06"][0] == 3:
            continue
        if st == 2:
            undecidable += 1
            continue
        decided += 1
        per_origin[r["origin"]] += 1
        if len(r["obs"]["gates"]) >= 2:
            nontrivial.add((r["src"], r["optimizer"], r["uncompute"]))
        if st == 1:
            conf = (r.get("confirmed") or {}).get(kind)
            if (r["src"], kind) in seen_src:
                continue
            seen_src.add((r["src"], kind))
            if conf is None:
                chk.broken("verified checker reports a failing input that the Python re-simulation does not reproduce",
                           dict(source=r["src"], config=cfg, witness=wit))
            else:
                chk.violation(what, dict(source=r["src"], config=cfg, expressions=[f"{n} = {ir_str(e)}" for n, e in r["obs"]["exprs"]][:40],
                                         gates=[(g[0], g[1]) for g in r["obs"]["gates"]][:200], qubit_map=r["obs"]["qubit_map"], **conf))
    model_cov = {}
    if kind == "c02":
        # exact correspondence of the synthesiser model (gate list, qubit count, qubit map)
        try:
            from . import c02_model
            mc = c02_model.collect(tier, seed)
            model_cov = {k: v for k, v in mc.items() if k not in ("mismatches",)}
            if mc.get("mismatches"):
                if chk.violations:
                    chk.notes.append(mc["mismatches"][:5])
                else:
                    chk.broken("synthesiser model (M_Compiler.v) and InternalCompiler produce different circuits", mc["mismatches"][:5])
        except Exception as e:  # noqa
            chk.broken("the synthesiser-model correspondence could not be run", repr(e)[:500])
    names_cov = {}
    if kind == "c02":
        # the name add_ancilla gives a new scratch qubit (M_Names.v): observed choices vs the model, and never a program symbol's name
        try:
            from . import c02_names
            nc = c02_names.collect(tier, seed)
            names_cov = {k: v for k, v in nc.items() if k not in ("mismatches", "direct")}
            for d in nc["direct"]:
                chk.violation("a scratch qubit took the name of a program symbol", d)
            if nc["mismatches"] and not nc["direct"]:
                chk.broken("model of the ancilla naming (M_Names.v) and QCircuitEnhanced.add_ancilla choose different names", nc["mismatches"][:5])
        except Exception as e:  # noqa
            chk.broken("the ancilla-naming correspondence could not be run", repr(e)[:500])
    chk.coverage.update(
        synthesiser_model=model_cov, ancilla_naming=names_cov,
        programs=decided, evaluations=decided, distinct_nontrivial=len(nontrivial),
        disagreements_checked=sum(1 for v in chk.violations),
        rule="corpus = function strings harvested from /repo/test + operator/width templates + boolean functions given by truth table "
             "+ seeded random boolean programs, each compiled under {default,fast} x {uncompute on,off}; every compiled program with <= "
             f"{compiled.MAX_IN_BITS} input bits is decided on ALL inputs by the Coq-verified checker; non-trivial = at least two gates; distinct = distinct (source, config)",
        per_origin=dict(per_origin), compile_status=dict(status), undecidable_non_classical=undecidable,
        skipped_too_large=skipped, exhaustive=False,
        traces_validated_against_impl=decided,
    )
    ex = [r for r in recs if r.get("verdict")][:1] + [r for r in recs if r.get("verdict") and r["origin"] == "rand-bool"][:2]
    chk.samples = [dict(source=r["src"], optimizer=r["optimizer"], uncompute=r["uncompute"], gates=len(r["obs"]["gates"]),
                        qubits=r["obs"]["num_qubits"], verdict=r["verdict"][kind]) for r in ex]
    chk.assumptions = ["input bit k of the flattened arguments sits on qubit k (QlassF.input_qubits)",
                       "programs containing non-classical (hybrid Q.*) gates are outside this check"]
    return chk.finish(obl)
