"""C14 — circuit composition operators compose (append, append_circuit, +=, +,
copy, repeat, remove_identities, qft/iqft).

Every case is plain data (replayable): operand circuits as gate lists with the
identity of every gate object, the operation and its arguments.  The
implementation is run on it; its result (gate list with object identities, or
the exception) is compared inside coqc with the model M_QCircuit.v
(Chk_QCircuit.verdict), the property is tested directly on the
implementation's result with an independent numpy simulation (composition =
product of the parts, iqft o qft = identity, remove_identities keeps the
unitary), and operands are fingerprinted before / after the call and again
after mutating the result."""
import cmath
import copy as _copy
import json
import math
import random

import numpy as np

from qlasskit.qcircuit import QCircuit, QCircuitEnhanced
from qlasskit.qcircuit import gates as G

from . import common as C
from .ser import SerError, gate_ir

PID = "C14"
TOL = 1e-9

# ------------------------------------------------------------------ gates
_BASE_CLS = {"I": G.I, "X": G.X, "Y": G.Y, "Z": G.Z, "H": G.H, "S": G.S, "T": G.T, "P": G.P, "Swap": G.Swap}
_SQ = 1 / math.sqrt(2)


def make_gate(kind):
    parts = kind.split(":")
    if parts[0] == "MCX":
        return G.MCX(int(parts[1]))
    if parts[0] == "MCtrl":
        return G.MCtrl(_BASE_CLS[parts[1]](), int(parts[2]))
    if kind in _BASE_CLS:
        return _BASE_CLS[kind]()
    return {"CX": G.CX, "CZ": G.CZ, "CP": G.CP, "CCX": G.CCX, "Barrier": G.Barrier, "Nop": G.NopGate}[kind]()


def kind_arity(kind):
    parts = kind.split(":")
    if parts[0] == "MCX":
        return int(parts[1]) + 1
    if parts[0] == "MCtrl":
        return int(parts[2]) + (2 if parts[1] == "Swap" else 1)
    if kind in ("Barrier", "Nop"):
        return 0
    return {"Swap": 2, "CX": 2, "CZ": 2, "CP": 2, "CCX": 3}.get(kind, 1)


def kind_decode(kind):
    """(number of controls, base name) — the declared meaning of each gate class."""
    parts = kind.split(":")
    if parts[0] == "MCX":
        return int(parts[1]), "X"
    if parts[0] == "MCtrl":
        return int(parts[2]), parts[1]
    if kind in ("Barrier", "Nop"):
        return 0, "I"
    return {"CX": (1, "X"), "CZ": (1, "Z"), "CP": (1, "P"), "CCX": (2, "X")}.get(kind, (0, kind))


def base_matrix(b, p):
    if b == "I":
        return np.eye(2, dtype=complex)
    if b == "X":
        return np.array([[0, 1], [1, 0]], dtype=complex)
    if b == "Y":
        return np.array([[0, -1j], [1j, 0]], dtype=complex)
    if b == "Z":
        return np.diag([1, -1]).astype(complex)
    if b == "H":
        return _SQ * np.array([[1, 1], [1, -1]], dtype=complex)
    if b == "S":
        return np.diag([1, 1j]).astype(complex)
    if b == "T":
        return np.diag([1, cmath.exp(1j * math.pi / 4)]).astype(complex)
    if b == "P":
        return np.diag([1, cmath.exp(1j * float(p or 0.0))]).astype(complex)
    if b == "Swap":
        m = np.zeros((4, 4), dtype=complex)
        for i in range(4):
            m[((i & 1) << 1) | (i >> 1), i] = 1
        return m
    raise SerError(f"base gate {b}")


def gate_matrix(kind, p):
    """Matrix on the gate's own qubits; bit j of a row/column index is the gate's j-th qubit."""
    nc, b = kind_decode(kind)
    B = base_matrix(b, p)
    bt = 2 if b == "Swap" else 1
    k = nc + bt
    M = np.eye(1 << k, dtype=complex)
    cm = (1 << nc) - 1
    for tin in range(1 << bt):
        for tout in range(1 << bt):
            M[(tout << nc) | cm, (tin << nc) | cm] = B[tout, tin]
    return M


def apply_matrix(T, M, qs, n):
    """T: array of shape (2,)*n + (cols,), axis n-1-q is qubit q.  Apply M on qubits qs."""
    k = len(qs)
    if k == 0:
        return T * M[0, 0]
    Mr = M.reshape([2] * (2 * k))
    in_axes = [k + (k - 1 - j) for j in range(k)]
    t_axes = [n - 1 - qs[j] for j in range(k)]
    R = np.tensordot(Mr, T, axes=(in_axes, t_axes))
    return np.moveaxis(R, list(range(k)), [n - 1 - qs[k - 1 - a] for a in range(k)])


def unitary(n, cir):
    """cir: [(kind, qubits, param)]; qubit i is bit i of the basis index."""
    d = 1 << n
    T = np.eye(d, dtype=complex).reshape([2] * n + [d])
    for kind, qs, p in cir:
        if kind in ("Barrier", "Nop") or len(qs) == 0:
            continue
        if len(set(qs)) != len(qs) or any(q < 0 or q >= n for q in qs) or len(qs) != kind_arity(kind):
            raise SerError(f"malformed gate {kind} {qs}")
        T = apply_matrix(T, gate_matrix(kind, p), qs, n)
    return T.reshape(d, d)


def unitary_slow(n, cir):
    """Independent loop-based reference for `unitary` (self-test only)."""
    d = 1 << n
    U = np.eye(d, dtype=complex)
    for kind, qs, p in cir:
        if kind in ("Barrier", "Nop"):
            continue
        M = gate_matrix(kind, p)
        Gf = np.zeros((d, d), dtype=complex)
        for x in range(d):
            loc = sum(((x >> q) & 1) << j for j, q in enumerate(qs))
            rest = x
            for q in qs:
                rest &= ~(1 << q)
            for out in range(1 << len(qs)):
                if M[out, loc] != 0:
                    y = rest | sum(((out >> j) & 1) << q for j, q in enumerate(qs))
                    Gf[y, x] += M[out, loc]
        U = Gf @ U
    return U


def embed(n, Uo, qs):
    """The k-qubit operator Uo acting on qubits qs of an n-qubit register."""
    d = 1 << n
    T = np.eye(d, dtype=complex).reshape([2] * n + [d])
    return apply_matrix(T, Uo, list(qs), n).reshape(d, d)


def close(A, B):
    return A.shape == B.shape and float(np.max(np.abs(A - B))) <= TOL if A.size else True


# ------------------------------------------------------------------ circuits as plain data
def build(spec, objs=None):
    """spec = dict(n, cls, gates=[(obj, kind, qs, param)]) -> circuit; objs: obj id -> gate object."""
    objs = {} if objs is None else objs
    qc = (QCircuitEnhanced if spec.get("cls") == "E" else QCircuit)(spec["n"])
    for obj, kind, qs, p in spec["gates"]:
        if obj not in objs:
            objs[obj] = make_gate(kind)
        g = objs[obj]
        w = list(qs)
        ok = (len(set(w)) == len(w) and all(0 <= q < spec["n"] for q in w) and len(w) == kind_arity(kind))
        if ok:
            qc.append(g, w, p)
        else:  # a state append would refuse: built directly
            qc.gates.append((g, w, p))
            if not isinstance(g, G.NopGate):
                qc.gates_computed.append((g, w, p))
    return qc


class Ids:
    """Small integers for Python object identities (operands first, then results)."""

    def __init__(self):
        self.m = {}
        self.keep = []

    def of(self, o):
        if id(o) not in self.m:
            self.m[id(o)] = len(self.m)
            self.keep.append(o)
        return self.m[id(o)]


def observe(qc, ids):
    out = []
    for a in qc.gates:
        k, qs, p = gate_ir(a)
        out.append((ids.of(a[0]), k, qs, p))
    return out


def fingerprint(qc):
    def ent(a):
        return (id(a[0]), type(a[0]).__name__, tuple(a[1]), a[2])
    return (type(qc).__name__, qc.num_qubits, qc.name, tuple(ent(a) for a in qc.gates),
            tuple(ent(a) for a in qc.gates_computed), tuple(qc.qubit_map.items()), _other_state(qc))


def _canon(v):
    if isinstance(v, (set, frozenset)):
        return ("set", tuple(sorted(v, key=repr)))
    if isinstance(v, dict):
        return ("dict", tuple((repr(k), _canon(x)) for k, x in v.items()))
    if isinstance(v, (list, tuple)):
        return ("seq", tuple(_canon(x) for x in v))
    return v if isinstance(v, (int, float, str, bool, type(None))) else type(v).__name__


def _other_state(qc):
    """Every other attribute of the circuit object (QCircuitEnhanced: the ancilla bookkeeping sets)."""
    skip = ("gates", "gates_computed", "qubit_map", "num_qubits", "name")
    return tuple((k, _canon(v)) for k, v in sorted(vars(qc).items()) if k not in skip)


def scribble(qc):
    """Mutate everything mutable reachable from a result circuit."""
    for a in qc.gates:
        if a[1]:
            a[1][0] = 99
        a[1].append(77)
    for a in qc.gates_computed:
        a[1].append(55)
    qc.gates.append((G.X(), [0], None))
    qc.gates_computed.clear()
    qc.qubit_map["_scribble"] = 0
    qc.num_qubits += 3
    # the ancilla bookkeeping of a QCircuitEnhanced, through its own operations, and every other container attribute
    if hasattr(qc, "add_ancilla"):
        a = qc.add_ancilla()
        qc.get_free_ancilla()
        qc.mark_ancilla(a)
    for k, v in vars(qc).items():
        if k in ("gates", "gates_computed", "qubit_map"):
            continue
        if isinstance(v, set):
            v.add(987)
        elif isinstance(v, dict):
            v["_scribble"] = 1
        elif isinstance(v, list):
            v.append("_scribble")


def exc_code(e):
    s = str(e)
    if isinstance(e, IndexError):
        return 6
    if "not present" in s:
        return 1
    if "duplicate qubit" in s:
        return 2
    if "expected" in s and "qubits" in s:
        return 3
    if "too many qubits" in s:
        return 4
    if "mismatch" in s:
        return 5
    return 98


def cir_of(obs_gates):
    return [(k, qs, p) for _, k, qs, p in obs_gates]


def well_formed(n, cir):
    return all(len(set(qs)) == len(qs) and all(0 <= q < n for q in qs) and len(qs) == kind_arity(k) for k, qs, _ in cir)


def run_case(case):
    """Run one case on the implementation.  Returns dict(obs=('ok', n, gates)|('err', code, text),
    ops=[operand observations], failures=[(defect_id or None, text)], numeric=bool)."""
    op = case["op"]
    ids = Ids()
    objs = {}
    c = build(case["c"], objs)
    o = build(case["o"], objs) if "o" in case else None
    ops_obs = observe(c, ids) + (observe(o, ids) if o is not None else [])
    g_obs = None
    if op == "append":
        obj, kind, qs, p = case["g"]
        if obj not in objs:
            objs[obj] = make_gate(kind)
        g_obs = (ids.of(objs[obj]), kind, list(qs), p)
    fp_c, fp_o = fingerprint(c), (fingerprint(o) if o is not None else None)
    inplace = op in ("append", "append_circuit", "iadd", "remove_identities", "qft", "iqft", "qft_iqft")
    failures = []
    res = None
    try:
        if op == "append":
            c.append(objs[case["g"][0]], list(case["g"][2]), case["g"][3])
            res = c
        elif op == "append_circuit":
            r = c.append_circuit(o, list(case["qs"]))
            res = c
            if r is not c:
                failures.append((None, "append_circuit does not return self"))
        elif op == "iadd":
            c0 = c
            c += o
            res = c
            if c is not c0:
                failures.append((None, "+= rebinds to a different circuit"))
        elif op == "add":
            res = c + o
        elif op == "copy":
            res = c.copy(vanilla=bool(case.get("vanilla")))
        elif op == "repeat":
            res = c.repeat(case["k"])
        elif op == "remove_identities":
            c.remove_identities()
            res = c
        elif op == "qft":
            c.qft(list(case["wl"]))
            res = c
        elif op == "iqft":
            c.iqft(list(case["wl"]))
            res = c
        elif op == "qft_iqft":
            c.qft(list(case["wl"]))
            c.iqft(list(case["wl"]))
            res = c
        else:
            raise SerError(f"op {op}")
    except SerError:
        raise
    except Exception as e:  # noqa
        obs = ("err", exc_code(e), f"{type(e).__name__}: {e}"[:200])
        if o is not None and fingerprint(o) != fp_o:
            failures.append((None, "the second operand was modified by a call that raised"))
        return dict(obs=obs, ops=ops_obs, g=g_obs, failures=failures + direct_on_error(case, obs), numeric=False)

    res_obs = observe(res, ids)
    obs = ("ok", res.num_qubits, res_obs)
    # ---- operands not modified
    if not inplace and fingerprint(c) != fp_c:
        failures.append((None, f"{op} modified its first operand"))
    if o is not None and fingerprint(o) != fp_o:
        failures.append((None, f"{op} modified its second operand"))
    if res.num_qubits != case["c"]["n"]:
        failures.append((None, f"{op} changed the number of qubits"))
    # ---- result independent of operands: scribble over a deep copy?  No: over the result itself,
    # after everything that is needed from it has been read.
    numeric = False
    try:
        failures += direct_check(case, res_obs, res)
        numeric = True
    except SerError:
        pass
    if op in ("add", "copy", "repeat"):
        if res is c:
            failures.append((None, f"{op} returns its operand, not a new circuit"))
        scribble(res)
        if fingerprint(c) != fp_c:
            failures.append((None, f"mutating the result of {op} changes its first operand"))
        if o is not None and fingerprint(o) != fp_o:
            failures.append((None, f"mutating the result of {op} changes its second operand"))
    elif op in ("append_circuit", "iadd"):
        scribble(res)
        if fingerprint(o) != fp_o:
            failures.append((None, f"mutating the circuit after {op} changes the appended circuit"))
    return dict(obs=obs, ops=ops_obs, g=g_obs, failures=failures, numeric=numeric)


def direct_on_error(case, obs):
    """The call raised: is that allowed by the property?"""
    op, code = case["op"], obs[1]
    cs, n = case["c"], case["c"]["n"]
    cir = [(k, qs, p) for _, k, qs, p in cs["gates"]]
    if op == "remove_identities":
        return [("remove-identities-index-error" if code == 6 else None,
                 f"remove_identities raised {obs[2]}")]
    if op in ("repeat", "add", "iadd", "copy") and well_formed(n, cir):
        os_ = case.get("o")
        if os_ is None or (os_["n"] <= n and well_formed(os_["n"], [(k, qs, p) for _, k, qs, p in os_["gates"]])):
            return [(None, f"{op} raised {obs[2]} on well-formed operands")]
    if op == "append_circuit" and well_formed(n, cir):
        os_ = case["o"]
        qs = case["qs"]
        if (os_["n"] <= n and len(qs) == os_["n"] and well_formed(os_["n"], [(k, w, p) for _, k, w, p in os_["gates"]])):
            return [(None, f"append_circuit raised {obs[2]} although the guards hold")]
    if op in ("qft", "iqft", "qft_iqft"):
        wl = case["wl"]
        if len(set(wl)) == len(wl) and all(0 <= q < n for q in wl):
            return [(None, f"{op} raised {obs[2]} on a duplicate-free in-range list")]
    if op == "append":
        _, kind, qs, _ = case["g"]
        if len(set(qs)) == len(qs) and all(0 <= q < n for q in qs) and len(qs) == kind_arity(kind):
            return [(None, f"append raised {obs[2]} on a valid gate")]
    return []


def direct_check(case, res_obs, res):
    """Property tests on the implementation's result (numpy, <= 6 qubits for unitaries)."""
    op = case["op"]
    cs = case["c"]
    n = cs["n"]
    c_cir = [(k, qs, p) for _, k, qs, p in cs["gates"]]
    r_cir = cir_of(res_obs)
    fails = []
    small = n <= 6
    if op == "append":
        _, kind, qs, p = case["g"]
        if any(q >= n for q in qs):
            fails.append(("append-index-eq-num-qubits", f"append accepted qubit {max(qs)} on a circuit of {n} qubits"))
            return fails
        if r_cir != c_cir + [(kind, list(qs), p)]:
            fails.append((None, "append did not add exactly the given gate at the end"))
        return fails
    if op in ("append_circuit", "iadd", "add"):
        os_ = case["o"]
        o_cir = [(k, qs, p) for _, k, qs, p in os_["gates"]]
        qs = list(case["qs"]) if op == "append_circuit" else list(range(os_["n"]))
        guards = (len(set(qs)) == len(qs) and all(0 <= q < n for q in qs) and well_formed(n, c_cir)
                  and well_formed(os_["n"], o_cir))
        if len(r_cir) != len(c_cir) + len(o_cir) or r_cir[:len(c_cir)] != c_cir:
            fails.append((None, f"{op}: the result does not start with the first operand followed by one gate per gate of the second"))
        if guards and small:
            Ur = unitary(n, r_cir)
            want = embed(n, unitary(os_["n"], o_cir), qs) @ unitary(n, c_cir)
            if not close(Ur, want):
                fails.append((None, f"{op}: unitary of the result is not (second operand on qubits {qs}) after (first operand)"))
        return fails
    if op == "copy":
        if r_cir != c_cir:
            fails.append((None, "copy has a different gate list"))
        if case.get("vanilla") and list(res.qubit_map.items()) != [(f"q{i}", i) for i in range(n)]:
            fails.append((None, "copy(vanilla=True) kept mapping information"))
        return fails
    if op == "repeat":
        k = case["k"]
        if not well_formed(n, c_cir):
            return fails
        if k == 0 and r_cir and [g for g in c_cir if g[0] not in ("Barrier", "Nop")]:
            bad = True
            if small:
                bad = not close(unitary(n, r_cir), np.eye(1 << n))
            if bad:
                fails.append(("repeat-zero", f"repeat(0) returned {len(r_cir)} gates: not the 0-fold composition"))
            return fails
        if k >= 1 and r_cir != c_cir * k:
            fails.append((None, f"repeat({k}) is not {k} copies of the gate list"))
        if small and k >= 1:
            if not close(unitary(n, r_cir), np.linalg.matrix_power(unitary(n, c_cir), k)):
                fails.append((None, f"repeat({k}): unitary is not the {k}-th power"))
        return fails
    if op == "remove_identities":
        if not well_formed(n, c_cir):
            return fails
        if len(r_cir) > len(c_cir):
            fails.append((None, "remove_identities added gates"))
        if small and not close(unitary(n, r_cir), unitary(n, c_cir)):
            fails.append(("remove-identities-non-self-inverse", "remove_identities changed the unitary of the circuit"))
        return fails
    if op in ("qft", "iqft", "qft_iqft"):
        wl = case["wl"]
        if any(q >= n for q in wl):
            fails.append(("append-index-eq-num-qubits", f"{op} accepted qubit {max(wl)} on a circuit of {n} qubits"))
            return fails
        if r_cir[:len(c_cir)] != c_cir:
            fails.append((None, f"{op} changed the gates already in the circuit"))
        if op == "qft_iqft" and small and well_formed(n, c_cir):
            if not close(unitary(n, r_cir), unitary(n, c_cir)):
                fails.append((None, f"iqft({wl}) after qft({wl}) is not the identity"))
        if op == "qft" and small and len(wl) >= 1 and well_formed(n, c_cir):
            # the transform itself (validation aid): amplitudes e^{2 pi i x y / 2^m} / sqrt(2^m)
            m = len(wl)
            F = np.array([[cmath.exp(2j * math.pi * x * y / (1 << m)) for x in range(1 << m)] for y in range(1 << m)]) / math.sqrt(1 << m)
            # the circuit treats wl[0] as the most significant bit of x and of y
            want = embed(n, F, list(reversed(wl))) @ unitary(n, c_cir)
            if not close(unitary(n, r_cir), want):
                fails.append((None, f"qft({wl}) is not the discrete Fourier transform on those qubits"))
        return fails
    raise SerError(op)


# ------------------------------------------------------------------ Coq terms
def phase_coq(p):
    if p is None:
        return "PhNone"
    p = float(p)
    for k in range(0, 80):
        if p == 2 * math.pi / (2 ** k):
            return f"(PhPi2 false {k}%nat)"
        if p == -2 * math.pi / (2 ** k):
            return f"(PhPi2 true {k}%nat)"
    num, den = p.as_integer_ratio()
    return f"(PhRat ({num})%Z {den}%N)"


def kind_coq(k):
    parts = k.split(":")
    if parts[0] == "MCX":
        return f"(KMCX {int(parts[1])}%nat)"
    if parts[0] == "MCtrl":
        return f"(KMCtrl B{parts[1]} {int(parts[2])}%nat)"
    if k in ("CX", "CZ", "CP", "CCX"):
        return "K" + k
    if k == "Barrier":
        return "KBarrier"
    if k == "Nop":
        return "KNop"
    return f"(K1 B{k})"


def qgate_coq(g):
    obj, k, qs, p = g
    return f"(mkq {int(obj)}%nat {kind_coq(k)} {C.clist([C.cnat(q) for q in qs])} {phase_coq(p)})"


def circ_coq(n, gates):
    return f"(mkc {int(n)}%nat {C.clist([qgate_coq(g) for g in gates])})"


def case_coq(i, case, r):
    """Operands are printed from what was OBSERVED on the built circuits (ids by object identity)."""
    nc = len(case["c"]["gates"])
    c = circ_coq(case["c"]["n"], r["ops"][:nc])
    o = circ_coq(case["o"]["n"], r["ops"][nc:]) if "o" in case else None
    op = case["op"]
    nl = lambda l: C.clist([C.cnat(q) for q in l])  # noqa
    if op == "append":
        t = f"OpAppend {c} {qgate_coq(r['g'])}"
    elif op == "append_circuit":
        t = f"OpAppendCircuit {c} {o} {nl(case['qs'])}"
    elif op == "iadd":
        t = f"OpIadd {c} {o}"
    elif op == "add":
        t = f"OpAdd {c} {o}"
    elif op == "copy":
        t = f"OpCopy {c}"
    elif op == "repeat":
        t = f"OpRepeat {int(case['k'])}%nat {c}"
    elif op == "remove_identities":
        t = f"OpRemoveId {c}"
    elif op == "qft":
        t = f"OpQft {c} {nl(case['wl'])}"
    elif op == "iqft":
        t = f"OpIqft {c} {nl(case['wl'])}"
    else:
        t = f"OpQftIqft {c} {nl(case['wl'])}"
    ob = r["obs"]
    obs = f"OErr {ob[1]}%N" if ob[0] == "err" else f"OOk {int(ob[1])}%nat {C.clist([qgate_coq(g) for g in ob[2]])}"
    return f"({i}%N, ({t}, {obs}))"


# ------------------------------------------------------------------ generators
ONE = ["I", "X", "Y", "Z", "H", "S", "T", "P"]
# no multiple of pi whose double is a multiple of 2 pi: a removed P,P / CP,CP pair must change the unitary
PHASES = [math.pi / 4, math.pi / 2, -math.pi / 8, 0.3, 1.0, -2.5, 2 * math.pi / 32, 0.1 + 0.2]


def rand_kind(rng, n, barriers=True):
    opts = ["1"] * 4
    if n >= 2:
        opts += ["CX", "CZ", "CP", "Swap", "MCX", "MCtrl"] * 1 + ["CX"]
    if n >= 3:
        opts += ["CCX", "MCX", "MCtrl"]
    if barriers:
        opts += ["Barrier"]
    t = rng.choice(opts)
    if t == "1":
        return rng.choice(ONE)
    if t == "MCX":
        return f"MCX:{rng.randint(0, min(n - 1, 6))}"
    if t == "MCtrl":
        b = rng.choice(["X", "Z", "Z", "S", "H", "Y", "P", "Swap"])
        lim = n - (2 if b == "Swap" else 1)
        if lim < 0:
            return "Z"
        return f"MCtrl:{b}:{rng.randint(0, min(lim, 5))}"
    return t


def kind_param(rng, kind):
    nc, b = kind_decode(kind)
    if b == "P":
        return rng.choice(PHASES)
    return None


def rand_spec(rng, n, depth, cls="Q", share=0.25, barriers=True, next_obj=None):
    """Random well-formed circuit; gate objects are re-used with probability `share`."""
    next_obj = next_obj if next_obj is not None else [0]
    gates = []
    for _ in range(depth):
        if gates and rng.random() < share:
            obj, kind, qs, p = rng.choice(gates)
            if rng.random() < 0.4 and kind_arity(kind) <= n:
                qs = rng.sample(range(n), kind_arity(kind))
            gates.append((obj, kind, list(qs), p))
            continue
        kind = rand_kind(rng, n, barriers)
        if kind_arity(kind) > n:
            kind = "X" if n >= 1 else "Barrier"
        qs = rng.sample(range(n), kind_arity(kind))
        gates.append((next_obj[0], kind, qs, kind_param(rng, kind)))
        next_obj[0] += 1
    return dict(n=n, cls=cls, gates=gates)


def gen_cases(tier, rng):
    mult = 1 if tier == "quick" else 20
    cases = []

    def add(**kw):
        cases.append(kw)

    # ---- append
    for i in range(70 * mult):
        n = rng.randint(0, 7)
        nxt = [0]
        c = rand_spec(rng, n, rng.randint(0, 6), next_obj=nxt) if n else dict(n=0, cls="Q", gates=[])
        kind = rand_kind(rng, max(n, 3))
        ar = kind_arity(kind)
        mode = rng.choice(["ok", "ok", "ok", "eq_n", "gt_n", "dup", "arity", "mixed"])
        pool = list(range(max(n, 1)))
        if mode == "ok" and ar <= n:
            qs = rng.sample(range(n), ar)
        elif mode == "eq_n":
            qs = (rng.sample(range(n), min(ar, n))[: max(ar - 1, 0)] + [n])[:max(ar, 1)]
            rng.shuffle(qs)
        elif mode == "gt_n":
            qs = [rng.choice(pool) for _ in range(max(ar - 1, 0))] + [n + rng.randint(1, 3)]
        elif mode == "dup":
            qs = [rng.choice(pool) for _ in range(max(ar, 2))]
            qs[-1] = qs[0]
        elif mode == "arity":
            qs = rng.sample(range(max(n, 1)), min(max(n, 1), max(0, ar + rng.choice([-1, 1, 2]))))
        else:
            qs = [rng.randint(0, n + 1) for _ in range(rng.randint(0, 4))]
        obj = rng.choice([g[0] for g in c["gates"] if g[1] == kind] or [nxt[0]])
        add(op="append", c=c, g=(obj, kind, qs, kind_param(rng, kind)))
    # ---- append_circuit
    for i in range(90 * mult):
        n = rng.randint(1, 7)
        k = rng.randint(0, n)
        nxt = [0]
        c = rand_spec(rng, n, rng.randint(0, 8), next_obj=nxt)
        o = rand_spec(rng, k, rng.randint(0, 8), next_obj=nxt) if k else dict(n=0, cls="Q", gates=[])
        if rng.random() < 0.3 and c["gates"] and o["gates"]:  # the two operands share a gate object
            g = rng.choice([x for x in c["gates"]])
            if kind_arity(g[1]) <= k:
                o["gates"].append((g[0], g[1], rng.sample(range(k), kind_arity(g[1])), g[3]))
        mode = rng.choice(["ok"] * 6 + ["len", "many", "dupqs", "rangeqs", "badgate"])
        qs = rng.sample(range(n), k)
        if mode == "len":
            qs = qs + [rng.randrange(n)] if rng.random() < 0.5 or not qs else qs[:-1]
        elif mode == "many":
            o = rand_spec(rng, n + rng.randint(1, 2), rng.randint(0, 3), next_obj=nxt)
            qs = list(range(o["n"]))
        elif mode == "dupqs" and k >= 2:
            qs[1] = qs[0]
        elif mode == "rangeqs" and k >= 1:
            qs[rng.randrange(k)] = n + rng.randint(0, 2)
        elif mode == "badgate" and k >= 1:
            o["gates"].insert(rng.randint(0, len(o["gates"])), (nxt[0], "X", [k], None))
        add(op="append_circuit", c=c, o=o, qs=qs)
    # ---- += and +
    for i in range(90 * mult):
        n = rng.randint(1, 6)
        k = rng.randint(0, n) if rng.random() < 0.85 else n + 1
        nxt = [0]
        c = rand_spec(rng, n, rng.randint(0, 8), cls=rng.choice("QE"), next_obj=nxt)
        o = rand_spec(rng, k, rng.randint(0, 8), next_obj=nxt) if k else dict(n=0, cls="Q", gates=[])
        if rng.random() < 0.1 and k >= 1:
            o["gates"].append((nxt[0], "X", [k], None))
        add(op=rng.choice(["iadd", "add"]), c=c, o=o)
    # ---- copy
    for i in range(30 * mult):
        n = rng.randint(0, 7)
        c = rand_spec(rng, n, rng.randint(0, 10), cls=rng.choice("QE")) if n else dict(n=0, cls="Q", gates=[])
        add(op="copy", c=c, vanilla=rng.random() < 0.4)
    # ---- repeat, n in 0..6
    for i in range(56 * mult):
        n = rng.randint(1, 5)
        c = rand_spec(rng, n, rng.randint(0, 6), cls=rng.choice("QE"))
        add(op="repeat", c=c, k=i % 7)
    # ---- remove_identities
    for i in range(150 * mult):
        n = rng.randint(1, 5)
        nxt = [0]
        base = rand_spec(rng, n, rng.randint(0, 5), cls="E", share=0.0, next_obj=nxt)["gates"]
        out = list(base)
        for _ in range(rng.randint(1, 4)):
            kind = rand_kind(rng, n, barriers=False)
            if kind_arity(kind) > n:
                kind = "X"
            qs = rng.sample(range(n), kind_arity(kind))
            p = kind_param(rng, kind)
            a = (nxt[0], kind, qs, p)
            nxt[0] += 1
            form = rng.choice(["same", "same", "same", "distinct", "barrier", "barrier2", "qs", "param", "triple", "bar_before",
                               "bar_before_sep", "sandwich", "sandwich", "perm", "perm"])
            if form == "perm" and n >= 3 and rng.random() < 0.6:
                # a gate that is symmetric in SOME of its qubits only (controlled swap, controlled Z / X with several controls)
                kind = rng.choice([f"MCtrl:Swap:{rng.randint(1, n - 2)}", f"MCtrl:Z:{rng.randint(1, n - 1)}", f"MCX:{rng.randint(1, n - 1)}"])
                qs = rng.sample(range(n), kind_arity(kind))
                p = kind_param(rng, kind)
                a = (a[0], kind, qs, p)
            if form == "same":
                ins = [a, a]
            elif form == "distinct":
                ins = [a, (nxt[0], kind, list(qs), p)]
                nxt[0] += 1
            elif form == "barrier":
                ins = [a, (nxt[0], "Barrier", [], None), a]
                nxt[0] += 1
            elif form == "barrier2":
                ins = [a, (nxt[0], "Barrier", [], None), (nxt[0] + 1, "Barrier", [], None), a]
                nxt[0] += 2
            elif form == "qs":
                ins = [a, (a[0], kind, rng.sample(range(n), kind_arity(kind)), p)]
            elif form == "param":
                ins = [a, (a[0], kind, list(qs), (p + 0.5) if p is not None else None)]
            elif form == "perm":
                # the same gate object on the same SET of qubits in another order (with or without a barrier between)
                pq = list(qs)
                if len(pq) >= 2:
                    while pq == list(qs):
                        rng.shuffle(pq)
                ins = [a, (a[0], kind, pq, p)]
                if rng.random() < 0.3:
                    ins = [a, (nxt[0], "Barrier", [], None), (a[0], kind, pq, p)]
                    nxt[0] += 1
            elif form == "triple":
                ins = [a, a, a]
            elif form == "sandwich":
                # the same gate object around ONE other gate (which may write one of its qubits)
                mk = rand_kind(rng, n, barriers=False)
                if kind_arity(mk) > n:
                    mk = rng.choice(["X", "H"])
                mqs = rng.sample(range(n), kind_arity(mk))
                if rng.random() < 0.6 and qs:
                    mqs[-1] = rng.choice(qs)      # act on a qubit of the outer gate
                    if len(set(mqs)) != len(mqs):
                        mqs = [mqs[-1]] if kind_arity(mk) == 1 else rng.sample(range(n), kind_arity(mk))
                if len(qs) >= 2 and rng.random() < 0.5:
                    mk, mqs = rng.choice(["X", "H"]), [rng.choice(qs[:-1])]   # writes a control of the outer gate
                ins = [a, (nxt[0], mk, mqs, kind_param(rng, mk)), a]
                nxt[0] += 1
            elif form == "bar_before_sep":
                ins = [(nxt[0], "Barrier", [], None), a, (nxt[0] + 1, "Barrier", [], None), a]
                nxt[0] += 2
            else:
                ins = [(nxt[0], "Barrier", [], None), a, a]
                nxt[0] += 1
            pos = rng.choice([0, len(out), len(out), rng.randint(0, len(out))])
            out[pos:pos] = ins
        if rng.random() < 0.1:  # the same barrier object twice
            b = (nxt[0], "Barrier", [], None)
            out += [b, b]
        add(op="remove_identities", c=dict(n=n, cls="E", gates=out))
    # ---- qft / iqft on qubit lists of length 0..8
    for i in range(100 * mult):
        m = i % 9
        n = max(m, 1) + rng.randint(0, 2) if rng.random() < 0.7 else max(m, 1)
        c = rand_spec(rng, n, rng.randint(0, 3)) if n <= 6 else dict(n=n, cls="Q", gates=[])
        wl = rng.sample(range(n), m)
        r = rng.random()
        if r < 0.06 and m >= 2:
            wl[-1] = wl[0]
        elif r < 0.10 and m >= 1:
            wl[rng.randrange(m)] = n
        elif r < 0.14 and m >= 1:
            wl[rng.randrange(m)] = n + 2
        add(op=["qft_iqft", "qft", "iqft", "qft_iqft"][i % 4], c=c, wl=wl)
    return cases


DEFECT_OF_CODE = {1: "append-index-eq-num-qubits", 2: "repeat-zero", 3: "remove-identities-non-self-inverse",
                  4: "remove-identities-index-error", 5: "remove-identities-today"}


def self_test(rng):
    """The two simulators agree with each other on random circuits (every gate kind)."""
    for _ in range(40):
        n = rng.randint(1, 5)
        s = rand_spec(rng, n, 8)
        cir = [(k, qs, p) for _, k, qs, p in s["gates"]]
        if not close(unitary(n, cir), unitary_slow(n, cir)):
            return f"simulators disagree on {cir}"
    return None


def run(tier, seed):
    chk = C.Check(PID, tier, seed, level="proof")
    rng = random.Random(seed)
    ok, log = C.coq_build()
    obl = C.prop_obligations(PID) if ok else dict(theorems=[], axioms={}, ok=False, log=log)
    if not ok or not obl["ok"]:
        chk.broken("theorems of Prop_C14.v do not check", (log + obl.get("log", ""))[-3000:])
        return chk.finish(obl)
    st = self_test(random.Random(seed + 1))
    if st:
        chk.broken("harness self-test", st)
        return chk.finish(obl)
    known = {f.get("id"): f for f in C.known_findings(PID)}
    cases = gen_cases(tier, rng)
    results = []
    ser_errors = []
    for i, case in enumerate(cases):
        try:
            results.append(run_case(case))
        except SerError as e:
            results.append(None)
            ser_errors.append(dict(case=i, error=str(e)))
    files = []
    hdr = C.COQ_HEADER + "From QV Require Import Circ M_QCircuit Chk_QCircuit.\n"
    live = [(i, c, r) for i, (c, r) in enumerate(zip(cases, results)) if r is not None]
    for ci in range(0, len(live), 400):
        chunk = live[ci:ci + 400]
        body = C.clist([case_coq(i, c, r) for i, c, r in chunk])
        files.append((f"cases_{ci}", hdr + f"Definition cases : list (N * (op * obs)) := {body}.\nEval vm_compute in (chk_cases cases).\n"))
    res = C.run_cases(PID, files)
    coq_err = []
    codes = {}
    for name, (rc, so, se) in res.items():
        if rc != 0:
            coq_err.append(dict(file=name, error=(so + se)[-1500:]))
            continue
        vals = C.parse_results(so)
        if len(vals) != 1:
            coq_err.append(dict(file=name, error="unexpected output " + so[:300]))
            continue
        for v in C.parse_N_list(vals[0]):
            codes[v // 100] = v % 100

    # ---- verdict
    seen_defects = {}
    silent = {}
    later_broken = []
    n_num = 0
    dist = {}
    distinct = set()
    for i, (case, r) in enumerate(zip(cases, results)):
        if r is None:
            continue
        dist[case["op"]] = dist.get(case["op"], 0) + 1
        distinct.add(json.dumps(case, sort_keys=True, default=str))
        n_num += bool(r["numeric"])
        code = codes.get(i, 0)
        fails = r["failures"]
        dids = set(d for d, _ in fails if d)
        replay = dict(case=case, implementation=(r["obs"] if r["obs"][0] == "err" else dict(num_qubits=r["obs"][1], gates=[g[1:] for g in r["obs"][2]])),
                      model_verdict=code)
        for d, text in fails:
            if d is None:
                chk.violation(text, replay)
            else:
                seen_defects.setdefault(d, []).append((text, replay))
        if code == 0:
            continue
        expl = DEFECT_OF_CODE.get(code)
        ok_expl = (expl in dids) or (code == 5 and dids & {"remove-identities-non-self-inverse", "remove-identities-index-error"})
        if not ok_expl:
            if code == 99:
                if not any(d is None for d, _ in fails):  # else already reported with its failing input
                    later_broken.append(dict(case=case, implementation=replay["implementation"], code=code))
            else:  # today's behaviour on an input where it does not change the action
                silent.setdefault(expl, []).append(dict(case=case, implementation=replay["implementation"], code=code))
    for d, lst in silent.items():
        explained = d in seen_defects or (d == "remove-identities-today" and
                                          {"remove-identities-non-self-inverse", "remove-identities-index-error"} & set(seen_defects))
        recorded = d in known or (d == "remove-identities-today" and
                                  {"remove-identities-non-self-inverse", "remove-identities-index-error"} <= set(known))
        if not explained and not recorded:
            chk.broken(f"implementation behaves like the unpatched model ({d}) and no input of this run shows a property failure", lst[0])
    for d, lst in seen_defects.items():
        if d in known:
            chk.known(known[d], f"{len(lst)} inputs, e.g. {lst[0][0]}")
        else:
            for text, replay in lst[:3]:
                chk.violation(f"[{d}] {text}", replay)
    # reported after the failing inputs, so that those come first
    for d in later_broken[:3]:
        chk.broken("model and implementation differ and no property failure explains it", d)
    if coq_err:
        chk.broken("Chk_QCircuit could not be evaluated", coq_err[:3])
    for e in ser_errors[:3]:
        chk.broken("implementation artefact cannot be serialised", e)

    chk.coverage.update(
        evaluations=len(live), distinct_nontrivial=len(distinct),
        rule="random operand circuits (0-7 qubits, every gate class incl. MCX/MCtrl/CP/barriers, shared gate objects) x "
             "{append valid/out-of-range/duplicate/arity, append_circuit with remaps onto wider circuits and failing guards, +=, +, "
             "copy, repeat n in 0..6, remove_identities with same-object / distinct-object / barrier-separated / leading / "
             "parameter- and qubit-differing pairs, qft / iqft / qft;iqft on lists of length 0..8 incl. duplicates and out-of-range}; "
             "every case: exact gate-list and object-sharing correspondence with the Coq model, numpy property test, operand "
             "fingerprints before/after and after mutating the result; distinct = distinct case data",
        distribution=dist, numeric_property_checks=n_num, model_files=len(files),
        model_disagreements={str(k): v for k, v in sorted(codes.items())[:40]},
        defects_seen={d: len(l) for d, l in seen_defects.items()},
        unpatched_behaviour_without_property_failure={d: len(l) for d, l in silent.items()},
        exhaustive=False, traces_validated_against_impl=len(live),
    )
    ex = [c for c in cases if c["op"] == "append_circuit"][:1] + [c for c in cases if c["op"] == "remove_identities"][:1] + \
         [c for c in cases if c["op"] == "qft_iqft" and len(c["wl"]) >= 3][:1]
    chk.samples = ex
    chk.assumptions = [
        "gate objects are immutable values: sharing one gate object between circuits is not counted as shared mutable structure "
        "(qubit lists, gate lists and the qubit map are)",
        "identity of gate objects is what Python's tuple == sees for classes without __eq__ (CPython semantics)",
        "unitaries are compared numerically (1e-9) only as the search for failing inputs; the theorems are exact",
    ]
    return chk.finish(obl)


def replay(path):
    d = json.load(open(path))
    case = d["case"]
    for key in ("c", "o"):
        if key in case:
            case[key]["gates"] = [tuple(g) for g in case[key]["gates"]]
    if "g" in case:
        case["g"] = tuple(case["g"])
    r = run_case(case)
    print("case:", json.dumps(case, default=str)[:2000])
    print("implementation:", r["obs"] if r["obs"][0] == "err" else [g[1:] for g in r["obs"][2]])
    print("failures:", r["failures"])
    print("VIOLATION reproduced" if r["failures"] else "not reproduced")
    return 1 if r["failures"] else 0
