"""Shared machinery of the /verif checks: Coq build, case evaluation, evidence,
verdict and replay files.  Runs under /venv/bin/python with PYTHONPATH=/repo."""
import ast
import fcntl
import hashlib
import json
import os
import re
import shutil
import subprocess
import sys
import time
from concurrent.futures import ThreadPoolExecutor

ROOT = os.path.dirname(os.path.dirname(os.path.abspath(__file__)))
COQ = os.path.join(ROOT, "coq")
THEORIES = os.path.join(COQ, "theories")
BUILD = os.path.join(ROOT, "build")
REPO = os.environ.get("QV_REPO", "/repo")
# runs against a scratch tree (seed tests) must not overwrite the evidence of /repo itself
EVIDENCE = os.path.join(ROOT, "evidence") if os.path.realpath(REPO) == "/repo" else os.path.join(ROOT, "build", "evidence_scratch")
KNOWN = os.path.join(ROOT, "known_findings.json")

COQC_TIMEOUT = int(os.environ.get("QV_COQC_TIMEOUT", "900"))


def seed_from_env(default=0):
    try:
        return int(os.environ.get("VERIF_SEED", default))
    except ValueError:
        return default


# --------------------------------------------------------------------------
# Generated.v: tables read from /repo's current source, rewritten on every run
# --------------------------------------------------------------------------
class TranslatorError(Exception):
    pass


def _const_widths_from_source():
    """The width list const_to_qtype searches, read from the source text
    (fail closed: anything unexpected raises)."""
    p = os.path.join(REPO, "qlasskit", "types", "__init__.py")
    tree = ast.parse(open(p).read())
    for node in ast.walk(tree):
        if isinstance(node, ast.FunctionDef) and node.name == "const_to_qtype":
            for sub in ast.walk(node):
                if (
                    isinstance(sub, ast.For)
                    and isinstance(sub.iter, ast.List)
                    and all(isinstance(e, ast.Name) and e.id.startswith("Qint") for e in sub.iter.elts)
                    and len(sub.iter.elts) > 0
                ):
                    ws = []
                    for e in sub.iter.elts:
                        m = re.fullmatch(r"Qint(\d+)", e.id)
                        if not m:
                            raise TranslatorError(f"const_to_qtype: unexpected type name {e.id}")
                        ws.append(int(m.group(1)))
                    return ws
    raise TranslatorError("const_to_qtype: width list not found")


def generated_text():
    import importlib

    types = importlib.import_module("qlasskit.types")
    lines = [
        "(* Generated.v — tables read from /repo on this run by harness/common.py. *)",
        "From Coq Require Import List NArith String.",
        "Import ListNotations.",
        "Local Open Scope string_scope.",
    ]
    qint = [t.BIT_SIZE for t in types.QINT_TYPES]
    for t in types.QINT_TYPES:
        if t.__name__ != f"Qint{t.BIT_SIZE}":
            raise TranslatorError(f"Qint type {t.__name__} has BIT_SIZE {t.BIT_SIZE}")
    qfix = []
    for t in types.QFIXED_TYPES:
        if t.BIT_SIZE != t.BIT_SIZE_INTEGER + t.BIT_SIZE_FRACTIONAL:
            raise TranslatorError(f"{t.__name__}: BIT_SIZE is not integer+fractional")
        qfix.append((t.BIT_SIZE_INTEGER, t.BIT_SIZE_FRACTIONAL))
    lines.append("Definition shipped_qint : list nat := [%s]%%nat." % ";".join(map(str, qint)))
    lines.append(
        "Definition shipped_qfixed : list (nat * nat) := [%s]%%nat."
        % ";".join("(%d,%d)" % p for p in qfix)
    )
    lines.append(
        "Definition src_const_widths : list nat := [%s]%%nat."
        % ";".join(map(str, _const_widths_from_source()))
    )
    for extra in _GENERATED_EXTRA:
        lines.extend(extra())
    return "\n".join(lines) + "\n"


_GENERATED_EXTRA = []


def register_generated(fn):
    _GENERATED_EXTRA.append(fn)
    return fn


def write_generated():
    txt = generated_text()
    p = os.path.join(THEORIES, "Generated.v")
    old = open(p).read() if os.path.exists(p) else None
    if old != txt:
        with open(p, "w") as f:
            f.write(txt)
    return txt


# --------------------------------------------------------------------------
# Coq build
# --------------------------------------------------------------------------
class _Lock:
    def __enter__(self):
        os.makedirs(BUILD, exist_ok=True)
        self.f = open(os.path.join(BUILD, ".coq.lock"), "w")
        fcntl.flock(self.f, fcntl.LOCK_EX)
        return self

    def __exit__(self, *a):
        fcntl.flock(self.f, fcntl.LOCK_UN)
        self.f.close()


def coq_build(jobs=16):
    """Regenerate Generated.v from /repo and bring every .vo up to date.
    Returns (ok, log)."""
    with _Lock():
        try:
            write_generated()
        except Exception as e:  # translator failed closed
            return False, f"Generated.v translator failed: {e!r}"
        if not os.path.exists(os.path.join(COQ, "Makefile")):
            r = subprocess.run(
                ["coq_makefile", "-f", "_CoqProject", "-o", "Makefile"],
                cwd=COQ, capture_output=True, text=True,
            )
            if r.returncode != 0:
                return False, r.stdout + r.stderr
        r = subprocess.run(
            ["timeout", "3000", "make", f"-j{jobs}"], cwd=COQ, capture_output=True, text=True
        )
        return r.returncode == 0, (r.stdout[-4000:] + r.stderr[-4000:])


def prop_obligations(pid, files=None):
    """Re-check the property file(s) of `pid` and read Print Assumptions.
    Returns dict(theorems=[...], axioms={thm: [...]}, ok=bool, log=str)."""
    files = files or [f"Prop_{pid}.v"]
    theorems, axioms, ok, log = [], {}, True, ""
    with _Lock():
        for fn in files:
            path = os.path.join(THEORIES, fn)
            src = open(path).read()
            names = re.findall(r"^(?:Theorem|Corollary)\s+(\w+)", src, re.M)
            theorems.extend(names)
            if re.search(r"\b(Admitted|admit|Axiom|Parameter|Conjecture)\b",
                         re.sub(r'"[^"]*"', '""', re.sub(r"\(\*.*?\*\)", "", src, flags=re.S))):   # string literals are data
                ok = False
                log += f"{fn}: forbidden keyword\n"
            r = subprocess.run(
                ["timeout", str(COQC_TIMEOUT), "coqc", "-Q", "theories", "QV",
                 "-w", "-notation-overridden,-deprecated-hint-without-locality,-deprecated-instance-without-locality",
                 os.path.join("theories", fn)],
                cwd=COQ, capture_output=True, text=True,
            )
            if r.returncode != 0:
                ok = False
                log += r.stdout[-3000:] + r.stderr[-3000:]
                continue
            # one Print Assumptions block per theorem, in order
            blocks = re.split(r"(?m)^(?=Closed under the global context|Axioms:)", r.stdout)
            blocks = [b for b in blocks if b.startswith("Closed") or b.startswith("Axioms:")]
            if len(blocks) != len(names):
                ok = False
                log += f"{fn}: {len(names)} theorems but {len(blocks)} Print Assumptions blocks\n"
            for n, b in zip(names, blocks):
                if b.startswith("Closed"):
                    axioms[n] = []
                else:
                    axioms[n] = re.findall(r"(?m)^(\S+)\s*:", b[len("Axioms:"):])
    return dict(theorems=theorems, axioms=axioms, ok=ok, log=log)


ALLOWED_AXIOMS = {
    # standard-library axioms that may appear (each named in DESIGN.md section 7)
    "functional_extensionality_dep",
    "FunctionalExtensionality.functional_extensionality_dep",
}


COQ_HEADER = """From Coq Require Import List Bool NArith ZArith Arith String.
Import ListNotations.
"""


def _run_coqc(path, factor=1):
    t0 = time.time()
    r = subprocess.run(
        ["timeout", str(COQC_TIMEOUT * factor), "coqc", "-Q", THEORIES, "QV",
         "-w", "-notation-overridden,-deprecated-hint-without-locality,-deprecated-instance-without-locality,-abstract-large-number",
         path],
        cwd=os.path.dirname(path), capture_output=True, text=True,
    )
    return path, r.returncode, r.stdout, r.stderr, time.time() - t0


def run_cases(pid, files, jobs=16):
    """files: list of (name, coq_text).  Writes build/<pid>/<name>.v, runs coqc on
    each in parallel; returns {name: (rc, stdout, stderr)}."""
    # one scratch directory per process, so that two runs of the same check (e.g. a
    # seeded-change trial next to a normal run) never touch each other's files
    d = os.path.join(BUILD, f"{pid}.{os.getpid()}")
    shutil.rmtree(d, ignore_errors=True)
    os.makedirs(d, exist_ok=True)
    paths = []
    for name, text in files:
        p = os.path.join(d, name + ".v")
        with open(p, "w") as f:
            f.write(text)
        paths.append((name, p))
    out = {}
    with ThreadPoolExecutor(max_workers=jobs) as ex:
        for (name, _), res in zip(paths, ex.map(_run_coqc, [p for _, p in paths])):
            _, rc, so, se, dt = res
            out[name] = (rc, so, se)
    # a case file that ran out of time (a loaded machine) is evaluated again, alone and with four
    # times the limit: a slow machine must not look like a broken correspondence
    for name, p in paths:
        if out[name][0] == 124:
            _, rc, so, se, dt = _run_coqc(p, factor=4)
            out[name] = (rc, so, se)
    if all(rc == 0 for rc, _, _ in out.values()) and not os.environ.get("QV_KEEP_CASES"):
        shutil.rmtree(d, ignore_errors=True)
    return out


def parse_results(stdout):
    """Every `Eval vm_compute in X.` prints `= value : type`; return the list of
    value strings (whitespace-normalised), in order."""
    txt = " ".join(stdout.split())
    vals = re.findall(r"= (.*?) : (?:list|bool|N|nat|option|\(|prod|Z|string)", txt)
    return vals


def parse_N_list(s):
    s = s.strip()
    if not (s.startswith("[") and s.endswith("]")):
        raise ValueError(f"not a list: {s[:80]}")
    body = s[1:-1].strip()
    if not body:
        return []
    return [int(x.strip().replace("%N", "").replace("%nat", "")) for x in body.split(";")]


# ---- Coq term printers ----
def cN(n):
    return str(int(n))


def cnat(n):
    return f"{int(n)}%nat"


def cbool(b):
    return "true" if b else "false"


def clist(items):
    return "[" + "; ".join(items) + "]"


def cbools(bs):
    return clist([cbool(b) for b in bs])


def copt(x):
    return "None" if x is None else f"(Some {x})"


# --------------------------------------------------------------------------
# known findings
# --------------------------------------------------------------------------
def known_findings(pid):
    if not os.path.exists(KNOWN):
        return []
    data = json.load(open(KNOWN))
    return [f for f in data.get("findings", []) if f.get("property") == pid]


# --------------------------------------------------------------------------
# result of a check
# --------------------------------------------------------------------------
class Check:
    def __init__(self, pid, tier, seed, level="proof"):
        self.pid, self.tier, self.seed, self.level = pid, tier, seed, level
        self.t0 = time.time()
        self.violations = []  # (replay_obj, no_input)
        self.known_hits = []
        self.coverage = {}
        self.assumptions = []
        self.samples = []
        self.notes = []

    # a concrete failing input against the implementation
    def violation(self, what, replay):
        # a replay object may carry its own `kind` / `what` fields: they are kept under another name
        rep = {(k + "_" if k in ("kind", "what") else k): v for k, v in dict(replay).items()}
        self.violations.append((dict(kind="failing-input", what=what, **rep), False))

    # proof obligation / correspondence broken, no failing input found
    def broken(self, what, detail):
        self.violations.append((dict(kind="no-failing-input-found", what=what, detail=detail), True))

    def known(self, finding, what):
        self.known_hits.append((finding, what))

    def finish(self, obligations=None):
        wall = time.time() - self.t0
        cov = dict(self.coverage)
        if obligations is not None:
            n = len(obligations["theorems"])
            cov["obligations"] = n
            cov["discharged"] = n if obligations["ok"] else 0
            cov["theorems"] = obligations["theorems"]
            cov["axioms_per_theorem"] = obligations["axioms"]
        cov.setdefault("checker_cmd", f"cd {COQ} && make && coqc -Q theories QV theories/Prop_{self.pid}.v")
        cov.setdefault("trusted_base", TRUSTED_BASE)
        if self.samples:
            cov["samples"] = self.samples[:12]
        ev = dict(
            property_id=self.pid, tier=self.tier, seed=self.seed, level=self.level,
            coverage=cov, assumptions=self.assumptions, wall_s=round(wall, 2),
            violations=len(self.violations),
        )
        os.makedirs(EVIDENCE, exist_ok=True)
        with open(os.path.join(EVIDENCE, f"{self.pid}.json"), "w") as f:
            json.dump(ev, f, indent=1, default=str)
        for finding, what in self.known_hits:
            print(f"KNOWN-FINDING: property={self.pid} {finding.get('id','')} {what}")
        if not self.violations:
            rd0 = os.path.join(BUILD, "replay")
            if os.path.isdir(rd0):
                for old in os.listdir(rd0):
                    if old.startswith(self.pid + "_"):
                        os.remove(os.path.join(rd0, old))
            print(f"OK property={self.pid} tier={self.tier} wall={wall:.1f}s "
                  f"obligations={cov.get('obligations')} discharged={cov.get('discharged')} "
                  f"cases={cov.get('evaluations')}")
            return 0
        rd = os.path.join(BUILD, "replay")
        os.makedirs(rd, exist_ok=True)
        for old in os.listdir(rd):
            if old.startswith(self.pid + "_"):
                os.remove(os.path.join(rd, old))
        for i, (obj, no_input) in enumerate(self.violations[:20]):
            p = os.path.join(rd, f"{self.pid}_{i}.json")
            obj = dict(property=self.pid, tier=self.tier, seed=self.seed, **obj)
            with open(p, "w") as f:
                json.dump(obj, f, indent=1, default=str)
            tail = " no-failing-input-found" if no_input else ""
            print(f"VIOLATION property={self.pid} replay={p}{tail}")
        return 1


TRUSTED_BASE = [
    "Coq 8.16.1 kernel and vm_compute (no native_compute)",
    "hand-written Gallina models under /verif/coq/theories/M_*.v, tied to /repo only by the correspondence run of this check",
    "harness serialisers (sympy tree / gate list / value -> Coq term), fail-closed on unknown nodes",
    "Generated.v writer (tables read from /repo by introspection and ast)",
    "CPython, sympy and the other libraries qlasskit itself runs on",
]


def is_ret_name(name):
    """The names the translator gives the return bits: `_ret` or `_ret.<index>...` (a user variable such as `_retval` is an ordinary intermediate)."""
    return name == "_ret" or name.startswith("_ret.")
