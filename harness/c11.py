"""C11 — decompiled expressions describe exactly what the gates do.

Random circuits over the whole gate set (<= 8 qubits, barriers in every position)
are pushed through Decompiler().decompile and through the Coq model
(M_Decompiler, evaluated inside coqc).  Index ranges and gate lists are compared
exactly, expressions semantically (truth tables over all entry states), and the
property itself is decided on the implementation's output by the verified
sec_check (all 2^nq basis states at once).  The same decision is made in Python
first (bit-parallel), which is the search for a failing input; a reported
witness is re-confirmed with the plain evaluators of ser.py."""
import collections
import random

from . import common as C
from .ser import (SerError, SymTab, circuit_coq, circuit_ir, ir_coq, ir_eval, ir_str, py_sim, to_ir,
                  x_controls)

PID = "C11"
MAXQ = 8


# ------------------------------------------------------------------ circuits as plain data
def build_qc(nq, cir):
    """gate IR list -> QCircuit (through QCircuit.append, as a user would)."""
    from qlasskit.qcircuit import QCircuit, gates as G

    base = {"I": G.I, "X": G.X, "Y": G.Y, "Z": G.Z, "H": G.H, "S": G.S, "T": G.T, "P": G.P, "Swap": G.Swap}
    qc = QCircuit(nq)
    for k, w, p in cir:
        parts = k.split(":")
        if k in base:
            g = base[k]()
        elif k == "CX":
            g = G.CX()
        elif k == "CZ":
            g = G.CZ()
        elif k == "CP":
            g = G.CP()
        elif k == "CCX":
            g = G.CCX()
        elif parts[0] == "MCX":
            g = G.MCX(int(parts[1]))
        elif parts[0] == "MCtrl":
            g = G.MCtrl(base[parts[1]](), int(parts[2]))
        elif k == "Barrier":
            g = G.Barrier()
        elif k == "Nop":
            g = G.NopGate()
        else:
            raise SerError(f"gate kind {k}")
        qc.append(g, list(w), p)
    return qc


def klass(kind):
    """How the statement classifies a gate: 'zb' (member of the library's ZB_GATES
    classes I, X, CX, CCX, MCX), 'nop' (barrier / NopGate), 'hard' (anything else,
    including Swap and the generic MCtrl wrapper)."""
    if kind in ("I", "X", "CX", "CCX") or kind.startswith("MCX:"):
        return "zb"
    if kind in ("Barrier", "Nop"):
        return "nop"
    return "hard"


def ref_runs(cir):
    """Maximal runs of classical gates: [(start, end, [gate IR])], barriers skipped."""
    runs, cur = [], None
    for i, g in enumerate(cir):
        c = klass(g[0])
        if c == "zb":
            if cur is None:
                cur = [i, i + 1, [g]]
            else:
                cur[1] = i + 1
                cur[2].append(g)
        elif c == "hard" and cur is not None:
            runs.append(tuple(cur))
            cur = None
    if cur is not None:
        runs.append(tuple(cur))
    return runs


# ------------------------------------------------------------------ generators
ANGLES = [0.5, 0.25, 1.0, 0.785398163397, 3.14159265359 / 2, -0.3, 2.0]


def rand_gate(rng, nq, kind):
    def pick(n):
        return rng.sample(range(nq), n)

    if kind in ("X", "I", "H", "Z", "Y", "S", "T"):
        return (kind, pick(1), None)
    if kind == "P":
        return ("P", pick(1), rng.choice(ANGLES))
    if kind in ("CX", "CZ", "Swap"):
        return (kind, pick(2), None)
    if kind == "CP":
        return ("CP", pick(2), rng.choice(ANGLES))
    if kind == "CCX":
        return ("CCX", pick(3), None)
    if kind == "MCX":
        n = rng.randint(0, min(nq - 1, 5))
        return (f"MCX:{n}", pick(n + 1), None)
    if kind == "MCtrlX":
        n = rng.randint(1, min(nq - 1, 3))
        return (f"MCtrl:X:{n}", pick(n + 1), None)
    if kind == "MCtrlZ":
        n = rng.randint(1, min(nq - 1, 3))
        return (f"MCtrl:Z:{n}", pick(n + 1), None)
    if kind == "Barrier":
        return ("Barrier", [], None)
    if kind == "Nop":
        return ("Nop", [], None)
    raise ValueError(kind)


def zb_kinds(nq, with_i=True):
    ks = ["X", "X", "CX", "CX", "CX"] if nq >= 2 else ["X"]
    if nq >= 3:
        ks += ["CCX", "CCX"]
    ks += ["MCX"]
    if with_i:
        ks += ["I"]
    return ks


def hard_kinds(nq):
    ks = ["H", "Z", "Y", "S", "T", "P"]
    if nq >= 2:
        ks += ["CZ", "CP", "Swap", "MCtrlX", "MCtrlZ"]
    return ks


def gen_circuit(rng, with_i=True):
    """A circuit built from segments: classical runs (barriers possibly inside),
    groups of 0-3 barriers, non-classical gates; or a flat random mix."""
    nq = rng.randint(1, MAXQ) if rng.random() < 0.15 else rng.randint(2, MAXQ)
    if rng.random() < 0.04:
        nq = rng.randint(11, 12)  # wide registers: two-digit qubit names
    zb, hard = zb_kinds(nq, with_i), hard_kinds(nq)
    cir = []
    style = rng.random()
    if style < 0.25:  # flat mix
        allk = zb * 2 + hard + ["Barrier"] * 4 + ["Nop"]
        for _ in range(rng.randint(0, 22)):
            cir.append(rand_gate(rng, nq, rng.choice(allk)))
        return nq, cir
    nseg = rng.randint(1, 7)
    for _ in range(nseg):
        r = rng.random()
        if r < 0.45:
            for j in range(rng.randint(1, 6)):
                cir.append(rand_gate(rng, nq, rng.choice(zb)))
                if rng.random() < 0.2:
                    for _ in range(rng.choice([1, 1, 2])):
                        cir.append(rand_gate(rng, nq, "Barrier" if rng.random() < 0.9 else "Nop"))
        elif r < 0.7:
            for _ in range(rng.choice([1, 1, 2, 2, 3])):
                cir.append(rand_gate(rng, nq, "Barrier" if rng.random() < 0.9 else "Nop"))
        else:
            for _ in range(rng.choice([1, 1, 2])):
                cir.append(rand_gate(rng, nq, rng.choice(hard)))
    return nq, cir


FIXED = [
    (3, [("X", [0], None), ("CX", [0, 1], None), ("Barrier", [], None), ("Barrier", [], None), ("H", [2], None)]),
    (3, [("X", [0], None), ("CX", [0, 1], None), ("Barrier", [], None), ("Barrier", [], None)]),
    (3, [("X", [0], None), ("CX", [0, 1], None), ("Barrier", [], None), ("H", [2], None)]),
    (3, [("Barrier", [], None), ("X", [0], None), ("Barrier", [], None), ("CX", [0, 1], None), ("H", [0], None)]),
    (3, [("Barrier", [], None), ("Barrier", [], None), ("H", [0], None), ("Barrier", [], None), ("CCX", [0, 1, 2], None),
         ("Barrier", [], None), ("Barrier", [], None), ("Barrier", [], None), ("Z", [1], None), ("Barrier", [], None),
         ("X", [2], None), ("Barrier", [], None)]),
    (2, [("I", [0], None), ("X", [1], None)]),
    (2, [("I", [0], None), ("H", [1], None)]),
    (2, [("X", [0], None), ("X", [0], None), ("CX", [0, 1], None), ("CX", [0, 1], None)]),
    (2, [("CX", [0, 1], None), ("CX", [1, 0], None), ("CX", [0, 1], None)]),
    (2, [("X", [0], None), ("Swap", [0, 1], None), ("X", [0], None)]),
    (3, [("X", [0], None), ("MCtrl:X:2", [0, 1, 2], None), ("X", [0], None)]),
    (4, [("MCX:3", [3, 1, 0, 2], None), ("MCX:0", [1], None), ("MCX:1", [2, 0], None), ("MCX:2", [0, 1, 3], None)]),
    (1, []),
    (2, [("Barrier", [], None)]),
    (2, [("H", [0], None), ("CP", [0, 1], 0.5)]),
]


def pattern_tags(cir):
    """Which boundary situations a circuit exercises (for the coverage report)."""
    tags = set()
    ks = [klass(g[0]) for g in cir]
    n = len(ks)
    if n and ks[0] == "nop":
        tags.add("barrier_at_start")
    if n and ks[-1] == "nop":
        tags.add("barrier_at_end")
    for i in range(n):
        if ks[i] != "zb":
            continue
        j = i + 1
        while j < n and ks[j] == "nop":
            j += 1
        t = j - i - 1
        nxt = ks[j] if j < n else "end"
        if t >= 1 and nxt == "zb":
            tags.add("barrier_inside_run")
        if t == 1 and nxt == "hard":
            tags.add("one_barrier_before_nonclassical")
        if t >= 2 and nxt == "hard":
            tags.add("two_or_more_barriers_before_nonclassical")
        if t >= 2 and nxt == "end":
            tags.add("two_or_more_barriers_before_end")
        if t == 0 and nxt == "hard":
            tags.add("run_then_nonclassical")
    for i in range(n - 1):
        if ks[i] == "hard" and ks[i + 1] == "nop":
            j = i + 1
            while j < n and ks[j] == "nop":
                j += 1
            if j < n and ks[j] == "zb":
                tags.add("barrier_between_nonclassical_and_run")
    if any(g[0] == "I" for g in cir):
        tags.add("identity_gate")
    if any(g[0].startswith("MCtrl:X") for g in cir):
        tags.add("mctrl_x_separator")
    if any(g[0] == "Swap" for g in cir):
        tags.add("swap_separator")
    if any(g[0].startswith("MCX") for g in cir):
        tags.add("mcx")
    return tags


# ------------------------------------------------------------------ running the implementation
def decompile_task(task):
    """task = (id, nq, cir).  Returns plain data: sections or the exception text."""
    cid, nq, cir = task
    try:
        from qlasskit.decompiler import Decompiler

        qc = build_qc(nq, cir)
        before = circuit_ir(qc.gates)
        res = Decompiler().decompile(qc)
        secs = []
        for sec in res:
            exps = []
            for s, e in sec.expressions:
                exps.append((str(s.name), to_ir(e)))
            secs.append(dict(index=[int(sec.index[0]), int(sec.index[1])] if sec.index[0] is not None else None,
                             gates=circuit_ir(sec.gates), exps=exps))
        return dict(id=cid, status="ok", sections=secs, input_unchanged=(circuit_ir(qc.gates) == before))
    except SerError as e:
        return dict(id=cid, status="ser", exc=str(e))
    except Exception as e:  # decompile raised
        return dict(id=cid, status="raise", exc=f"{type(e).__name__}: {e}"[:300])


# ------------------------------------------------------------------ bit-parallel evaluation (Python ints as truth tables)
def var_tables(nq):
    n = 1 << nq
    tabs = []
    for i in range(nq):
        t = 0
        for x in range(n):
            if (x >> i) & 1:
                t |= 1 << x
        tabs.append(t)
    return tabs, (1 << n) - 1


_VT = {}


def vt(nq):
    if nq not in _VT:
        _VT[nq] = var_tables(nq)
    return _VT[nq]


def ir_tt(ir, env, mask):
    k = ir[0]
    if k == "c":
        return mask if ir[1] else 0
    if k == "s":
        return env[ir[1]]
    if k == "n":
        return mask ^ ir_tt(ir[1], env, mask)
    if k == "a":
        r = mask
        for a in ir[1]:
            r &= ir_tt(a, env, mask)
        return r
    if k == "o":
        r = 0
        for a in ir[1]:
            r |= ir_tt(a, env, mask)
        return r
    if k == "x":
        r = 0
        for a in ir[1]:
            r ^= ir_tt(a, env, mask)
        return r
    raise SerError(f"IR node {k} in a decompiled expression")


def sim_tt(cir, nq):
    tabs, mask = vt(nq)
    s = list(tabs)
    for k, w, p in cir:
        if k in ("Barrier", "Nop", "I"):
            continue
        nc = x_controls(k)
        if nc is None or len(w) != nc + 1:
            return None
        c = mask
        for q in w[:-1]:
            c &= s[q]
        s[w[-1]] ^= c
    return s


def lowest_bit(d):
    return (d & -d).bit_length() - 1


def check_section_direct(nq, sec):
    """The property on one reported section, on all basis states.  Returns None or
    a dict describing a failing entry state (confirmed with ir_eval / py_sim)."""
    tabs, mask = vt(nq)
    env = {f"q{i}": tabs[i] for i in range(nq)}
    final = sim_tt(sec["gates"], nq)
    if final is None:
        return dict(reason="section holds a non-classical gate")
    listed = {}
    for name, ir in sec["exps"]:
        if not (name.startswith("q") and name[1:].isdigit() and int(name[1:]) < nq):
            return dict(reason=f"expression for unknown qubit {name}")
        if name in listed:
            return dict(reason=f"qubit {name} listed twice")
        listed[name] = ir
    for q in range(nq):
        name = f"q{q}"
        try:
            want = ir_tt(listed[name], env, mask) if name in listed else tabs[q]
        except KeyError as e:
            return dict(reason=f"expression of {name} mentions unknown symbol {e}")
        d = (want ^ final[q]) & mask
        if d:
            x = lowest_bit(d)
            entry = [bool((x >> i) & 1) for i in range(nq)]
            exit_ = py_sim(sec["gates"], entry)
            envb = {f"q{i}": entry[i] for i in range(nq)}
            val = ir_eval(listed[name], envb) if name in listed else entry[q]
            return dict(reason=("expression differs from the gates" if name in listed else "qubit without an expression is changed"),
                        qubit=q, entry_state=entry, exit_value=exit_[q], expression_value=val,
                        expression=(ir_str(listed[name]) if name in listed else None),
                        confirmed=bool(val != exit_[q]))
    return None


# ------------------------------------------------------------------ Coq case text
def emap_coq(exps, st):
    out = []
    for name, ir in exps:
        out.append("(%s, %s)" % (C.cnat(st.get(name, False)), ir_coq(ir, st, False)))
    return C.clist(out)


def case_coq(cid, nq, cir, obs):
    st = SymTab([f"q{i}" for i in range(nq)])
    if obs["status"] == "ok":
        secs = []
        for sec in obs["sections"]:
            s, e = sec["index"]
            secs.append("(%s, %s, %s, %s)" % (C.cnat(s), C.cnat(e), circuit_coq(sec["gates"]), emap_coq(sec["exps"], st)))
        impl = "(Some %s)" % C.clist(secs)
    else:
        impl = "None"
    return "(mkdcase %s %s %s %s)" % (C.cN(cid), C.cnat(nq), circuit_coq(cir), impl)


CODES = {1: "one side raised and the other returned", 2: "sections (index ranges / gate lists) differ",
         3: "expressions differ semantically from the model's", 4: "listed qubits are not a subsequence of the model's",
         5: "verified section check fails on the implementation's output", 6: "malformed expression list"}


def known_signature(cir, obs, run, sec):
    """Signatures of the two recorded-or-repaired defects, used only to match
    known_findings.json entries by the specific input."""
    if obs["status"] == "raise" and "Gate not handled for decompilation: I" in obs.get("exc", ""):
        return "identity-gate-raises"
    if sec is not None and run is not None and sec["index"] is not None:
        s, e = sec["index"]
        if s == run[0] and e > run[1] and sec["gates"] == list(run[2]) and all(klass(g[0]) == "nop" for g in cir[run[1]:e]) \
                and len(cir) >= run[1] + 2 and all(klass(g[0]) == "nop" for g in cir[run[1]:run[1] + 2]):
            return "end-index-two-barriers"
    return None


def run(tier, seed):
    chk = C.Check(PID, tier, seed, level="proof")
    rng = random.Random(seed)
    ok, log = C.coq_build()
    obl = C.prop_obligations(PID) if ok else dict(theorems=[], axioms={}, ok=False, log=log)
    if not ok or not obl["ok"]:
        chk.broken("theorems of Prop_C11.v do not check", (log + obl.get("log", ""))[-3000:])
        return chk.finish(obl)

    n = 500 if tier == "quick" else 20000
    cases = []
    seen = set()
    for nq, cir in FIXED:
        cases.append((len(cases), nq, [(k, list(w), p) for k, w, p in cir]))
    while len(cases) < n:
        nq, cir = gen_circuit(rng)
        key = (nq, repr(cir))
        if key in seen:
            continue
        seen.add(key)
        cases.append((len(cases), nq, cir))

    from .progs import run_pool
    observations = run_pool(decompile_task, cases) if len(cases) > 64 else [decompile_task(t) for t in cases]

    known = {f.get("id"): f for f in C.known_findings(PID)}
    direct = []          # failing inputs against the implementation
    known_ids = set()    # case ids explained by a recorded finding
    tags = collections.Counter()
    n_sections = n_states = 0
    nontrivial = set()
    files, chunk = [], []
    for (cid, nq, cir), obs in zip(cases, observations):
        for t in pattern_tags(cir):
            tags[t] += 1
        runs = ref_runs(cir)
        replay = dict(num_qubits=nq, gates=[list(g) for g in cir])
        fails = []
        if obs["status"] == "ser":
            fails.append(dict(reason="implementation artefact cannot be interpreted: " + obs["exc"]))
        elif obs["status"] == "raise":
            fails.append(dict(reason="decompile raised", exception=obs["exc"], signature=known_signature(cir, obs, None, None)))
        else:
            secs = obs["sections"]
            if not obs["input_unchanged"]:
                fails.append(dict(reason="decompile modified the gate list of its input"))
            if len(secs) != len(runs):
                fails.append(dict(reason="number of sections differs from the number of maximal classical runs",
                                  reported=[s["index"] for s in secs], expected=[[r[0], r[1]] for r in runs]))
            for k, (sec, r) in enumerate(zip(secs, runs)):
                if sec["index"] != [r[0], r[1]] or sec["gates"] != list(r[2]):
                    fails.append(dict(reason="section index range / gate list is not the maximal run", section=k,
                                      reported=sec["index"], expected=[r[0], r[1]], reported_gates=sec["gates"],
                                      signature=known_signature(cir, obs, r, sec)))
            for k, sec in enumerate(secs):
                n_sections += 1
                n_states += 1 << nq
                if len(sec["gates"]) >= 2:
                    nontrivial.add(cid)
                f = check_section_direct(nq, sec)
                if f is not None:
                    f["section"] = k
                    fails.append(f)
        for f in fails:
            sig = f.get("signature")
            if sig and sig in known:
                known_ids.add(cid)
                chk.known(known[sig], f"{f['reason']}: {replay['gates']}")
            else:
                direct.append(dict(failure=f, **replay))
        if obs["status"] != "ser":
            chunk.append(case_coq(cid, nq, cir, obs))
        if len(chunk) == 400:
            files.append(chunk)
            chunk = []
    if chunk:
        files.append(chunk)

    texts = []
    for i, ch in enumerate(files):
        texts.append((f"cases_{i}", C.COQ_HEADER
                      + "From QV Require Import Bexp BexpTT Circ M_Decompiler P_Decompiler Chk_Decompiler.\n"
                      + "Definition cases : list dcase := %s.\n" % C.clist(ch).replace("; (mkdcase", ";\n (mkdcase")
                      + "Eval vm_compute in (chk_dcases cases).\n"
                      + "Eval vm_compute in (map d_id (filter (fun d => match chk_dcase d with [] => false | _ => old_matches d end) cases)).\n"))
    res = C.run_cases(PID, texts)
    mismatches, old_like, coq_errors = [], set(), []
    for name, (rc, so, se) in sorted(res.items()):
        if rc != 0:
            coq_errors.append(dict(file=name, error=(so + se)[-1500:]))
            continue
        vals = C.parse_results(so)
        try:
            flat = C.parse_N_list(vals[0])
            old_like.update(C.parse_N_list(vals[1]))
        except (ValueError, IndexError):
            coq_errors.append(dict(file=name, error="unparsable output: " + so[:300]))
            continue
        for j in range(0, len(flat), 4):
            cid, code, k, w = flat[j:j + 4]
            mismatches.append(dict(case=cid, code=code, what=CODES.get(code, "?"), section=k, witness=w,
                                   matches_code_before_repairs=None))
    for m in mismatches:
        m["matches_code_before_repairs"] = m["case"] in old_like

    # ---------------- verdict ----------------
    direct_ids = set()
    for d in direct:
        direct_ids.add((d["num_qubits"], repr(d["gates"])))
    for d in direct[:20]:
        chk.violation("decompile output breaks the statement on a concrete circuit: " + d["failure"]["reason"], d)
    if coq_errors:
        chk.broken("the model could not be evaluated on some cases", coq_errors[:3])
    case_by_id = {c[0]: c for c in cases}
    unexplained = []
    for m in mismatches:
        cid = m["case"]
        _, nq, cir = case_by_id[cid]
        if cid in known_ids and m["matches_code_before_repairs"]:
            continue
        if (nq, repr([list(g) for g in cir])) in direct_ids:
            continue  # already reported with its failing input
        unexplained.append(dict(m, num_qubits=nq, gates=cir))
    if unexplained:
        chk.broken("model and implementation differ (Chk_Decompiler) and no failing input was found", unexplained[:10])

    chk.coverage.update(
        evaluations=len(cases), distinct_nontrivial=len(nontrivial), sections=n_sections,
        basis_states_decided=n_states, exhaustive=False,
        rule="seeded random circuits over X, CX, CCX, MCX(0..5 controls), MCtrl(X), MCtrl(Z), H, Z, Y, S, T, P, CP, CZ, Swap, I, "
             "Barrier, NopGate on 1..8 qubits, built from segments (classical runs with barriers inside, groups of 1-3 barriers, "
             "non-classical gates) or a flat mix, plus fixed boundary cases; every section is decided on ALL 2^nq entry states; "
             "distinct = distinct circuits; non-trivial = has a section of at least two gates",
        boundary_situations=dict(tags), model_mismatches=len(mismatches), impl_failures=len(direct),
        known_finding_hits=len(known_ids), model_files=len(texts), traces_validated_against_impl=len(cases) - len(coq_errors),
    )
    ex = [c for c in cases if c[0] in nontrivial][:3]
    chk.samples = [dict(num_qubits=c[1], gates=[(g[0], g[1]) for g in c[2]],
                        sections=[(s["index"], [f"{n} = {ir_str(e)}" for n, e in s["exps"]]) for s in observations[c[0]].get("sections", [])])
                   for c in ex]
    chk.assumptions = [
        "a gate counts as classical when its class is one of the library's ZB_GATES (I, X, CX, CCX, MCX); Swap and the generic "
        "MCtrl(X, n) wrapper end a run, as in the library",
        "circuits are built through QCircuit.append (arity enforced by gates.apply); qubit i is named q<i> by copy(vanilla=True)",
    ]
    return chk.finish(obl)


def replay(path):
    import json

    d = json.load(open(path))
    if "gates" not in d:  # a broken proof / correspondence, not a failing input
        print(json.dumps(d, indent=1)[:4000])
        return 1
    nq, cir = d["num_qubits"], [(g[0], list(g[1]), g[2]) for g in d["gates"]]
    obs = decompile_task((0, nq, cir))
    print("circuit:", cir)
    print("reference runs:", [(r[0], r[1]) for r in ref_runs(cir)])
    print("implementation:", obs)
    bad = obs["status"] != "ok"
    if not bad:
        runs = ref_runs(cir)
        secs = obs["sections"]
        bad = len(secs) != len(runs) or any(s["index"] != [r[0], r[1]] or s["gates"] != list(r[2]) for s, r in zip(secs, runs)) \
            or any(check_section_direct(nq, s) is not None for s in secs)
    print("VIOLATION reproduced" if bad else "not reproduced")
    return 1 if bad else 0
