"""Stub of the part of `pyqubo` that qlasskit/bqm.py uses.  pyqubo is not installed
in this environment; harness/c18.py injects this module as sys.modules['pyqubo']
INSIDE ITS OWN WORKER PROCESSES ONLY (/repo is never touched).

This is a MODELLED component (listed in the evidence's trusted base): it builds a
polynomial expression tree with pyqubo's published meaning

    Binary(label)            a 0/1 variable
    Not(a)      = 1 - a
    And(a, b)   = a*b
    Or(a, b)    = a + b - a*b
    Xor(a, b)   = a + b - 2*a*b
    NotConst(a, b, label)    = 2ab - a - b + 1                 (0 iff b = not a)
    AndConst(a, b, c, label) = ab - 2(a+b)c + 3c               (0 iff c = a and b)
    OrConst(a, b, c, label)  = ab + (a+b)(1-2c) + c            (0 iff c = a or b)
    XorConst(a, b, c, label) = 2ab - 2(a+b)c - 4(a+b)x + 4xc + a + b + c + 4x,
                               x = Binary("aux_" + label)      (min over x is 0 iff c = a xor b)

and `+ - *` with numbers.  The logical gates take exactly the arity of pyqubo's
documented signatures (Not: one bit, And/Or/Xor: two bits): any other arity raises
TypeError, as calling the real classes would.  `compile()` returns a model object
with to_bqm / to_ising / to_qubo / decode_sampleset / energy, enough for
qlasskit.bqm.to_bqm and decode_samples; every compiled tree is appended to
COMPILED so that the harness can read "the expression tree handed to the library".
"""
import itertools
import numbers

COMPILED = []  # trees handed to compile(), in order


class Express:
    __slots__ = ("kind", "a", "b", "label")

    def __init__(self, kind, a=None, b=None, label=None):
        self.kind, self.a, self.b, self.label = kind, a, b, label

    # ---- arithmetic builds tree nodes
    def __add__(self, o):
        return Express("+", self, _lift(o))

    def __radd__(self, o):
        return Express("+", _lift(o), self)

    def __sub__(self, o):
        return Express("-", self, _lift(o))

    def __rsub__(self, o):
        return Express("-", _lift(o), self)

    def __mul__(self, o):
        return Express("*", self, _lift(o))

    def __rmul__(self, o):
        return Express("*", _lift(o), self)

    def __neg__(self):
        return Express("-", _lift(0), self)

    # ---- meaning
    def evaluate(self, sample):
        """Value of the polynomial under a dict variable -> number (missing variables: 0)."""
        stack = [(self, 0)]
        vals = []
        while stack:
            node, state = stack.pop()
            k = node.kind
            if k == "num":
                vals.append(node.a)
            elif k == "bin":
                vals.append(sample.get(node.a, 0))
            elif k == "con":
                if state == 0:
                    stack.append((node, 1))
                    stack.append((node.a, 0))
            elif state == 0:
                stack.append((node, 1))
                stack.append((node.b, 0))
                stack.append((node.a, 0))
            else:
                y = vals.pop()
                x = vals.pop()
                vals.append(x + y if k == "+" else x - y if k == "-" else x * y)
        return vals[0]

    def variables(self):
        out, stack = set(), [self]
        while stack:
            n = stack.pop()
            if n.kind == "bin":
                out.add(n.a)
            elif n.kind == "con":
                stack.append(n.a)
            elif n.kind != "num":
                stack.append(n.a)
                stack.append(n.b)
        return out

    def constraint_labels(self):
        out, stack = [], [self]
        while stack:
            n = stack.pop()
            if n.kind == "con":
                out.append(n.label)
                stack.append(n.a)
            elif n.kind in "+-*":
                stack.append(n.a)
                stack.append(n.b)
        return out

    def to_ir(self):
        """('k', number) ('v', name) ('+', a, b) ('-', a, b) ('*', a, b); constraints are transparent."""
        k = self.kind
        if k == "num":
            return ("k", self.a)
        if k == "bin":
            return ("v", self.a)
        if k == "con":
            return self.a.to_ir()
        return (k, self.a.to_ir(), self.b.to_ir())

    def compile(self, strength=5.0):
        COMPILED.append(self)
        return Model(self, strength)


def _lift(x):
    if isinstance(x, Express):
        return x
    if isinstance(x, bool):
        return Express("num", int(x))
    if isinstance(x, numbers.Number):
        return Express("num", x)
    raise TypeError(f"unsupported operand for a pyqubo expression: {type(x).__name__}")


def Binary(label):
    if not isinstance(label, str):
        raise TypeError("Binary label must be a string")
    return Express("bin", label)


def Num(value):
    return _lift(value)


def Constraint(hamiltonian, label, condition=None):
    return Express("con", _lift(hamiltonian), None, label)


# ---- logical gates (pyqubo.Not / And / Or / Xor): fixed arity, positional
def Not(bit):
    return 1 - _lift(bit)


def And(bit_a, bit_b):
    return _lift(bit_a) * _lift(bit_b)


def Or(bit_a, bit_b):
    a, b = _lift(bit_a), _lift(bit_b)
    return a + b - a * b


def Xor(bit_a, bit_b):
    a, b = _lift(bit_a), _lift(bit_b)
    return a + b - 2 * (a * b)


# ---- logical constraints
def NotConst(a, b, label):
    a, b = _lift(a), _lift(b)
    return Constraint(2 * (a * b) - a - b + 1, label)


def AndConst(a, b, c, label):
    a, b, c = _lift(a), _lift(b), _lift(c)
    return Constraint(a * b - 2 * ((a + b) * c) + 3 * c, label)


def OrConst(a, b, c, label):
    a, b, c = _lift(a), _lift(b), _lift(c)
    return Constraint(a * b + (a + b) * (1 - 2 * c) + c, label)


def XorConst(a, b, c, label):
    a, b, c = _lift(a), _lift(b), _lift(c)
    x = Binary("aux_" + label)
    return Constraint(2 * (a * b) - 2 * ((a + b) * c) - 4 * ((a + b) * x) + 4 * (x * c) + a + b + c + 4 * x, label)


# ---- compiled model
class DecodedSample:
    def __init__(self, sample, energy, broken):
        self.sample, self.energy, self._broken = sample, energy, broken

    def constraints(self, only_broken=False):
        return dict(self._broken)

    def __repr__(self):
        return f"DecodedSample({self.energy}, {self.sample})"


class StubBQM:
    """What to_bqm() returns (stands for dimod.BinaryQuadraticModel)."""

    def __init__(self, qubo, offset, model):
        self.linear = {u: c for (u, v), c in qubo.items() if u == v}
        self.quadratic = {(u, v): c for (u, v), c in qubo.items() if u != v}
        self.offset, self.vartype, self.model = offset, "BINARY", model

    @property
    def variables(self):
        return sorted(set(self.linear) | {x for p in self.quadratic for x in p})

    def energy(self, sample):
        return (self.offset + sum(c * sample.get(u, 0) for u, c in self.linear.items())
                + sum(c * sample.get(u, 0) * sample.get(v, 0) for (u, v), c in self.quadratic.items()))


class Model:
    def __init__(self, expr, strength=5.0):
        self.expr, self.strength = expr, strength
        self.variables = sorted(expr.variables())

    def energy(self, sample, vartype="BINARY", feed_dict=None):
        return self.expr.evaluate(sample)

    # multilinear monomials {frozenset(vars): coeff} (x*x = x on binaries)
    def _monomials(self):
        def go(ir):
            k = ir[0]
            if k == "k":
                return {frozenset(): ir[1]} if ir[1] else {}
            if k == "v":
                return {frozenset([ir[1]]): 1}
            a, b = go(ir[1]), go(ir[2])
            if k in "+-":
                out = dict(a)
                for m, c in b.items():
                    out[m] = out.get(m, 0) + (c if k == "+" else -c)
                return {m: c for m, c in out.items() if c}
            out = {}
            for (m1, c1), (m2, c2) in itertools.product(a.items(), b.items()):
                m = m1 | m2
                out[m] = out.get(m, 0) + c1 * c2
            return {m: c for m, c in out.items() if c}
        return go(self.expr.to_ir())

    def to_qubo(self, index_label=False, feed_dict=None):
        """({(u, v): coeff}, offset).  Monomials of degree > 2 are reduced with product
        variables 'u * v' and the penalty strength*(uv - 2(u+v)w + 3w), as pyqubo does."""
        mono = self._monomials()
        while True:
            big = [m for m in mono if len(m) > 2]
            if not big:
                break
            cnt = {}
            for m in big:
                for p in itertools.combinations(sorted(m), 2):
                    cnt[p] = cnt.get(p, 0) + 1
            (u, v), _ = max(sorted(cnt.items()), key=lambda kv: kv[1])
            w = f"{u} * {v}"
            new = {}
            for m, c in mono.items():
                if len(m) > 2 and u in m and v in m:
                    m = (m - {u, v}) | {w}
                new[m] = new.get(m, 0) + c
            s = self.strength
            for m, c in ((frozenset([u, v]), s), (frozenset([u, w]), -2 * s), (frozenset([v, w]), -2 * s), (frozenset([w]), 3 * s)):
                new[m] = new.get(m, 0) + c
            mono = {m: c for m, c in new.items() if c}
        qubo, offset = {}, 0
        for m, c in mono.items():
            vs = sorted(m)
            if not vs:
                offset += c
            elif len(vs) == 1:
                qubo[(vs[0], vs[0])] = c
            else:
                qubo[(vs[0], vs[1])] = c
        return qubo, offset

    def to_ising(self, index_label=False, feed_dict=None):
        qubo, offset = self.to_qubo()
        lin, quad = {}, {}
        for (u, v), c in qubo.items():
            if u == v:  # c*x, x = (s+1)/2
                lin[u] = lin.get(u, 0) + c / 2
                offset += c / 2
            else:  # c*x*y
                quad[(u, v)] = quad.get((u, v), 0) + c / 4
                lin[u] = lin.get(u, 0) + c / 4
                lin[v] = lin.get(v, 0) + c / 4
                offset += c / 4
        return lin, quad, offset

    def to_bqm(self, index_label=False, feed_dict=None):
        qubo, offset = self.to_qubo()
        return StubBQM(qubo, offset, self)

    def decode_sample(self, sample, vartype="BINARY", feed_dict=None):
        sample = dict(sample)
        return DecodedSample(sample, self.expr.evaluate(sample), {})

    def decode_sampleset(self, sampleset, feed_dict=None):
        """sampleset: an iterable of dict samples (or of objects with a .sample dict)."""
        out = []
        for s in sampleset:
            out.append(self.decode_sample(getattr(s, "sample", s)))
        return out
