"""C15 — Grover search amplifies exactly the solutions of the predicate.

Every case builds the real `Grover(...)` object (default iteration count),
serialises its gate list and
 (a) compares it EXACTLY with M_Algo.grover_circuit applied to the oracle's own
     gate list (state preparation, oracle copy + `_ret_phased` + controlled Z from
     `_ret`, diffuser, repeat(n_iterations)) and the iteration count with
     ceil(pi/4 sqrt(N/M)) decided in integer arithmetic,
 (b) decides with the verified checker c06_check that the oracle is a clean
     xor-oracle for its expressions on all (x, y),
 (c) evaluates the whole circuit with the verified exact-amplitude evaluator
     (Amp.v) inside coqc and decides on exact integers:
     (i)   the marginal distribution of the search register is identical for all
           syntactic forms of the same solution set,
     (ii)  every solution is strictly more likely than every non-solution,
     (iii) total solution probability > 1/2 (search registers up to 6 qubits),
     (iv)  decode_output of a solution string is the solution in the argument type.
The worker also simulates the circuit in Python (numpy state vector + an exact
integer simulation) and tests (i)-(iv) directly: the search for a failing input."""
import itertools
import json
import random
from fractions import Fraction

from . import common as C
from . import progs
from .c16 import (COQ_IMPORTS, TOL, _Expect, _compile, _decode_report, bits_of, chunked, eval_defs, oracle_terms,
                  parse_case_results, parse_type, plain_result, simulate, src_anf, src_dnf, value_of, value_of_arg,
                  same_value)
from .ser import SerError, circuit_coq, circuit_ir

PID = "C15"

# 9.8696044010 < pi^2 < 9.8696044011
PI2_LO = Fraction(98696044010, 10 ** 10)
PI2_HI = Fraction(98696044011, 10 ** 10)


def default_iterations(N, M):
    """ceil(pi/4 * sqrt(N/M)) decided with rational bounds on pi^2 (None if they do not separate)."""
    for i in range(1, N + 2):
        if 16 * M * (i - 1) ** 2 < PI2_LO * N and PI2_HI * N <= 16 * M * i * i:
            return i
    return None


# ---------------------------------------------------------------- sources
def table_of(sols):
    return sum(1 << x for x in sols)


def src_eq(n, sols):
    return f"def test(k: Qint[{n}]) -> bool:\n    return " + " or ".join(f"k == {x}" for x in sols)


def src_search(n, sols):
    return (f"def test(k: Qint[{n}]) -> bool:\n    h = False\n    for i in {list(sols)}:\n        if i == k:\n            h = True\n    return h")


def src_g_xor(n, c):
    return f"def g(k: Qint[{n}]) -> Qint[{n}]:\n    return k ^ {c}"


def src_g_lookup(n, tab):
    return f"def g(k: Qint[{n}]) -> Qint[{n}]:\n    l = {list(tab)}\n    return l[k]"


def forms_for(n, sols, rng, which):
    """[(form name, task fields)] for the solution set sols over n search bits."""
    t = table_of(sols)
    out = []
    for w in which:
        if w == "eq":
            out.append(("eq", dict(src=src_eq(n, sols))))
        elif w == "dnf":
            out.append(("dnf", dict(src=src_dnf(n, t))))
        elif w == "anf":
            out.append(("anf", dict(src=src_anf(n, t))))
        elif w == "tuple":
            out.append(("dnf/tuple", dict(src=src_dnf(n, t, arg="tuple"))))
        elif w == "fast":
            out.append(("eq/fast", dict(src=src_eq(n, sols), opt="fast")))
        elif w == "search":
            out.append(("search", dict(src=src_search(n, sols))))
        elif w == "true":
            out.append(("eq==True", dict(src=src_eq(n, sols), element=("bool", True))))
        elif w == "false":
            # the predicate of the COMPLEMENT, searched for the value False: the solutions are sols again
            comp = [v for v in range(1 << n) if v not in sols]
            out.append(("eq==False", dict(src=src_eq(n, comp), element=("bool", False))))
        elif w == "oraclize":
            if len(sols) == 1 and rng.random() < 0.5:
                c = rng.randrange(1 << n)
                out.append(("g(x)==y/xor", dict(src=src_g_xor(n, c), element=("Qint", n, sols[0] ^ c))))
            else:
                y = rng.randrange(1 << n)
                others = [v for v in range(1 << n) if v != y]
                tab = [y if x in sols else rng.choice(others) for x in range(1 << n)]
                out.append(("g(x)==y/lookup", dict(src=src_g_lookup(n, tab), element=("Qint", n, y))))
    return out


def grover_cases(tier, rng):
    cases = []

    def add(n, sols, which):
        sols = sorted(sols)
        for form, fields in forms_for(n, sols, rng, which):
            cases.append({**dict(kind="grover", n=n, sols=sols, n_matching=len(sols), form=form, opt="default"), **fields})

    # exhaustive: every solution set on 2..3 search bits with 1 <= M <= N/4
    for n in (2, 3):
        N = 1 << n
        for M in range(1, N // 4 + 1):
            for sols in itertools.combinations(range(N), M):
                # eq and dnf on Qint compile to the same gate list more often than not: dnf only in the thorough tier
                add(n, sols, ["eq", "tuple", "oraclize"] + (["dnf"] if tier == "thorough" else []))
    # other syntactic routes on a sample of the small sets
    for n in (2, 3):
        N = 1 << n
        for M in range(1, N // 4 + 1):
            allsets = list(itertools.combinations(range(N), M))
            for sols in rng.sample(allsets, min(len(allsets), 3 if tier == "quick" else 12)):
                add(n, sols, ["dnf", "anf", "fast", "search", "true", "false"])
    # stratified samples on 4..5 bits: every M in 1..N/4
    per = 2 if tier == "quick" else 16
    for n in (4, 5):
        N = 1 << n
        for M in range(1, N // 4 + 1):
            seen = set()
            while len(seen) < per:
                seen.add(tuple(sorted(rng.sample(range(N), M))))
            for j, sols in enumerate(sorted(seen)):
                which = ["eq", "dnf", "oraclize"] if j % 2 == 0 else ["eq", "tuple", "fast" if M <= 3 else "dnf"]
                if tier == "quick":
                    which = which[:2] + ([which[2]] if (M + j) % 4 == 0 else [])
                add(n, sols, which)
    # conjunctions of positive literals: the oracle is one multi-controlled X without scratch qubits,
    # the other forms of the same set have ancillas
    for n, sols in ((4, [15]), (5, [31]), (5, [15, 31]), (4, [7, 15])):
        add(n, sols, ["eq", "oraclize", "search"] + (["false"] if n == 4 else []))
    # the test-suite's shape: a two-component argument (decoded as a tuple of Qints)
    cases.append(dict(kind="grover", n=4, sols=[3, 6, 9, 12], n_matching=4, form="tuple-of-qint", opt="default",
                      src="def test(k: Tuple[Qint[2], Qint[2]]) -> bool:\n    return k[0] + k[1] == 3"))
    cases.append(dict(kind="grover", n=4, sols=[3, 6, 9, 12], n_matching=4, form="g(x)==y/tuple-of-qint", opt="default",
                      src="def g(k: Tuple[Qint[2], Qint[2]]) -> Qint[2]:\n    return k[0] + k[1]", element=("Qint", 2, 3)))
    if tier == "thorough":
        for M in (1, 2, 3, 8, 16):
            for _ in range(2):
                add(6, rng.sample(range(64), M), ["eq", "dnf"])
    return cases


# ---------------------------------------------------------------- worker
def grover_task(task):
    import signal
    signal.signal(signal.SIGALRM, progs._alarm)
    signal.alarm(int(task.get("timeout", 120)))
    try:
        import qlasskit
        from qlasskit.algorithms import Grover
        qf = _compile(task)
        before = (circuit_ir(qf.circuit().gates), qf.circuit().num_qubits)
        element = None
        el = task.get("element")
        if el is not None:
            element = bool(el[1]) if el[0] == "bool" else getattr(qlasskit, f"Qint{el[1]}")(el[2])
        g = Grover(qf, element, n_matching=task["n_matching"])
        after = (circuit_ir(qf.circuit().gates), qf.circuit().num_qubits)
        oracle = g.oracle
        obs = progs.observe_qf(oracle)
        obs_again = (circuit_ir(oracle.circuit().gates), oracle.circuit().num_qubits)
        qc = g.circuit()
        cir = circuit_ir(qc.gates)
        nq = qc.num_qubits
        n = progs.n_input_bits(obs)
        out = dict(status="ok", oracle=obs, gates=cir, nq=nq, n=n, n_iterations=int(g.n_iterations),
                   declared_n_matching=int(g.n_matching), output_qubits=list(g.output_qubits),
                   oracle_mutated=(before != after) or (obs_again != (obs["gates"], obs["num_qubits"])))
        for k, w, p in cir:
            for q in w:
                if q >= nq:
                    raise SerError(f"Grover circuit: gate on qubit {q} of {nq}")
        sim = simulate(nq, cir, n)
        out.update(k=sim["k"], marg=sim["marg"], fprobs=sim["fprobs"], sim_method=sim["method"], support=len(sim["full"]))
        argt = parse_type(obs["args"][0][1])
        out["argtype"] = obs["args"][0][1]
        exp = _Expect(lambda y: value_of(argt, bits_of(y, n)),
                      lambda y, got: same_value(argt, got, value_of(argt, bits_of(y, n))))
        out["decode_bad"] = _decode_report(g, nq, n, argt, sim["full"], exp)
        # the decoded value of every register content, fed back to the Python function
        of = []
        try:
            for x in range(1 << n):
                dec = g.decode_output(format(x, f"0{n}b"))
                v = plain_result(qf.original_f(dec))
                of.append(v == plain_result(element) if element is not None else v)
        except Exception as ex:  # noqa
            of = None
            out["original_f_exc"] = repr(ex)[:200]
        out["original_f"] = of
        return out
    except progs._Timeout:
        return dict(status="timeout")
    except BaseException as e:  # noqa
        import traceback
        return dict(status="raise", exc=f"{type(e).__name__}: {e}"[:300], tb=traceback.format_exc()[-800:])
    finally:
        signal.alarm(0)


# ---------------------------------------------------------------- direct tests
def solutions_of(r):
    obs, n = r["oracle"], r["n"]
    ret = obs["ret"][1][0]
    return [x for x in range(1 << n) if eval_defs(obs, x)[ret]]


def direct_grover(case, r):
    n, k, marg = r["n"], r["k"], r["marg"]
    N = 1 << n
    bad = []
    sols = solutions_of(r)
    if sols != sorted(case["sols"]):
        bad.append(f"the oracle's expressions have solutions {sols}, the predicate as written has {sorted(case['sols'])}")
        return bad
    if r.get("original_f") is not None:
        of = [x for x in range(N) if r["original_f"][x] is True]
        if of != sols:
            bad.append(f"decode_output + the Python function select {of}, the oracle's expressions {sols}")
    if r["declared_n_matching"] != len(sols):
        bad.append(f"n_matching = {r['declared_n_matching']} but the predicate has {len(sols)} solutions")
    ps = [marg[x] for x in sols]
    pn = [marg[x] for x in range(N) if x not in sols]
    if not (min(ps) > max(pn)):
        xs = min(sols, key=lambda x: marg[x])
        xn = max((x for x in range(N) if x not in sols), key=lambda x: marg[x])
        bad.append(f"(ii) solution {xs} has probability {Fraction(marg[xs], 1 << k)} <= non-solution {xn} with {Fraction(marg[xn], 1 << k)}"
                   f" (N={N}, M={len(sols)}, {r['n_iterations']} iterations)")
    if n <= 6 and not (2 * sum(ps) > (1 << k)):
        bad.append(f"(iii) total solution probability {Fraction(sum(ps), 1 << k)} = {sum(ps) / (1 << k):.6f} is not above 1/2"
                   f" (N={N}, M={len(sols)}, {r['n_iterations']} iterations)")
    if sum(marg) != (1 << k):
        bad.append(f"probabilities sum to {Fraction(sum(marg), 1 << k)}")
    for y in range(N):
        if abs(r["fprobs"][y] - marg[y] / (1 << k)) > TOL:
            bad.append(f"float simulation P({y}) = {r['fprobs'][y]!r} differs from the exact {Fraction(marg[y], 1 << k)}")
            break
    return bad


def case_replay(case, r=None):
    d = {k: v for k, v in case.items() if k in ("kind", "n", "sols", "n_matching", "form", "src", "opt", "element")}
    if r is not None and r.get("status") == "ok":
        d["n_iterations"] = r["n_iterations"]
        d["num_qubits"] = r["nq"]
        d["k"] = r["k"]
        d["exact_marginal_over_2^k"] = [str(x) for x in r["marg"]][:64]
        d["gates"] = [(g[0], g[1]) for g in r["gates"]][:400]
    return d


def coq_case(cid, case, r):
    ot = oracle_terms(r["oracle"])
    n, nqo = ot["n"], ot["nq"]
    if r["nq"] != nqo + 1:
        raise SerError(f"Grover circuit has {r['nq']} qubits, the oracle {nqo}")
    if len(ot["rets"]) != 1:
        raise SerError("oracle does not have exactly one return bit")
    rs, ret = ot["rets"][0]
    if not (n <= ret < nqo):
        raise SerError(f"_ret on qubit {ret}: not in {n}..{nqo - 1}")
    return (f"Eval vm_compute in (chk_grover {cid} {C.cnat(n)} {C.cnat(nqo)} {ot['gates']} {ot['defs']} {C.cnat(rs)} {C.cnat(ret)} "
            f"{C.cnat(r['n_iterations'])} {r['declared_n_matching']} {circuit_coq(r['gates'])}).")


def interpret(nums):
    """Layout of Chk_Algo.chk_grover."""
    return dict(corr=nums[1], c06=(nums[2], nums[3]), amp_ok=nums[4] == 1, k=nums[5], n_solutions=nums[6],
                iters_ok=nums[7], more=nums[8], half=nums[9], ps=nums[10:])


def run(tier, seed):
    chk = C.Check(PID, tier, seed, level="proof")
    rng = random.Random(seed)
    ok, log = C.coq_build()
    obl = C.prop_obligations(PID) if ok else dict(theorems=[], axioms={}, ok=False, log=log)
    if not ok or not obl["ok"]:
        chk.broken("theorems of Prop_C15.v do not check", (log + obl.get("log", ""))[-3000:])
    known = {f.get("id"): f for f in C.known_findings(PID)}

    cases = grover_cases(tier, rng)
    for i, c in enumerate(cases):
        c["id"] = i
        c.setdefault("timeout", 150 if tier == "quick" else 400)
    results = progs.run_pool(grover_task, cases)

    coq_items, ser_errors = [], []
    for c, r in zip(cases, results):
        if r.get("status") != "ok":
            continue
        try:
            coq_items.append((c["id"], coq_case(c["id"], c, r)))
        except SerError as e:
            ser_errors.append((c, r, str(e)))
    per_file = 12 if tier == "quick" else 24
    files = [(f"cases_{i}", C.COQ_HEADER + COQ_IMPORTS + "\n".join(t for _, t in chunk) + "\n")
             for i, chunk in chunked(coq_items, per_file)]
    res = C.run_cases(PID, files) if ok else {}
    coq, coq_errors = parse_case_results(res)

    groups = {}  # (n, solution set) -> [(case, result, exact distribution)]
    distinct = set()
    strata = {}
    n_eval = 0
    corr_bad, model_bad = [], []
    for c, r in zip(cases, results):
        if r.get("status") != "ok":
            chk.violation(f"building Grover(...) failed ({r.get('status')}: {r.get('exc', '')})", dict(case=case_replay(c), traceback=r.get("tb")))
            continue
        n_eval += 1
        distinct.add(json.dumps(r["gates"]))
        strata[(c["n"], c["n_matching"])] = strata.get((c["n"], c["n_matching"]), 0) + 1
        bad = direct_grover(c, r)
        if bad:
            chk.violation("Grover: " + "; ".join(bad[:3]), dict(case=case_replay(c, r)))
        it = default_iterations(1 << r["n"], r["declared_n_matching"])
        if it is None or it != r["n_iterations"]:
            corr_bad.append(dict(case=case_replay(c, r), what=f"default n_iterations is {r['n_iterations']}, ceil(pi/4 sqrt(N/M)) = {it}"))
        if r["output_qubits"] != list(range(r["n"])):
            chk.violation(f"output_qubits is {r['output_qubits']}, not the search register", dict(case=case_replay(c, r)))
        if r["oracle_mutated"]:
            chk.violation("constructing Grover changed the circuit of the function / oracle it was given", dict(case=case_replay(c, r)))
        if r["decode_bad"]:
            chk.violation(f"(iv) decode_output / decode_counts do not give the register content in the argument type: {r['decode_bad'][0]}",
                          dict(case=case_replay(c, r), decode=r["decode_bad"][:5]))
        dist = [Fraction(x, 1 << r["k"]) for x in r["marg"]]
        groups.setdefault((c["n"], tuple(c["sols"])), []).append((c, r, dist))
        nums = coq.get(c["id"])
        if nums is None:
            continue
        v = interpret(nums)
        if v["corr"] != 1:
            corr_bad.append(dict(case=case_replay(c, r), what="gate list differs from M_Algo.grover_circuit applied to the oracle's gate list"))
        if v["iters_ok"] != 1:
            corr_bad.append(dict(case=case_replay(c, r), what=f"n_iterations {r['n_iterations']} is not M_Algo.grover_iters"))
        if v["c06"][0] != 0:
            chk.violation(f"the oracle is not a clean xor-oracle for its expressions (verified checker: status {v['c06'][0]}, witness {v['c06'][1]})",
                          dict(case=case_replay(c, r)))
        if not v["amp_ok"]:
            model_bad.append(dict(case=case_replay(c, r), what="Amp evaluator undefined on the circuit or final list not strictly sorted"))
            continue
        if v["k"] != r["k"] or v["ps"] != r["marg"]:
            model_bad.append(dict(case=case_replay(c, r), what="exact amplitudes of Amp.v differ from the exact Python simulation",
                                  coq=[str(x) for x in v["ps"]][:64], coq_k=v["k"]))
        for y, (a, b) in enumerate(zip(v["ps"], r["fprobs"])):
            if abs(a / (1 << v["k"]) - b) > TOL:
                model_bad.append(dict(case=case_replay(c, r), what=f"Amp.v probability of outcome {y} differs from the float simulation by more than 1e-9"))
                break
        if v["n_solutions"] != len(c["sols"]):
            model_bad.append(dict(case=case_replay(c, r), what=f"Coq counts {v['n_solutions']} solutions of the oracle's expressions"))
        if (v["more"] != 0 or (v["half"] != 0 and r["n"] <= 6)) and not bad:
            model_bad.append(dict(case=case_replay(c, r), what=f"Coq-side verdict (ii)={v['more']} (iii)={v['half']} but the Python test found nothing"))
    # (i) the distribution depends only on the solution set
    n_groups = 0
    for (n, sols), lst in groups.items():
        if len(lst) < 2:
            continue
        n_groups += 1
        c0, r0, d0 = lst[0]
        for c1, r1, d1 in lst[1:]:
            if d1 != d0:
                y = next(i for i in range(len(d0)) if d0[i] != d1[i])
                chk.violation(f"(i) two ways of writing the predicate with solutions {list(sols)} give different distributions: "
                              f"P({y}) = {d0[y]} ({c0['form']}) vs {d1[y]} ({c1['form']})",
                              dict(case=case_replay(c1, r1), other=case_replay(c0, r0)))
                break
    for c, r, e in ser_errors:
        chk.violation("implementation artefact cannot be interpreted: " + e, dict(case=case_replay(c, r)))
    if coq_errors:
        chk.broken("the Coq case files could not be evaluated", coq_errors[:3])
    missing = [c["id"] for c, r in zip(cases, results) if r.get("status") == "ok" and c["id"] not in coq
               and not any(c is cc for cc, _, _ in ser_errors)]
    if missing and ok and not coq_errors:
        chk.broken("no Coq result for some cases", missing[:20])
    if corr_bad:
        if chk.violations:
            chk.notes.append(corr_bad[:5])
        else:
            chk.broken("model / implementation correspondence: Grover's gate list or iteration count is not what M_Algo.v constructs", corr_bad[:5])
    if model_bad:
        if chk.violations:
            chk.notes.append(model_bad[:5])
        else:
            chk.broken("Coq-side evaluation disagrees with the Python-side observation", model_bad[:5])

    chk.coverage.update(
        evaluations=n_eval, distinct_nontrivial=len(distinct), solution_sets=len(groups), sets_with_several_forms=n_groups,
        circuits_per_stratum={f"n={n},M={m}": v for (n, m), v in sorted(strata.items())},
        coq_case_files=len(files), coq_cases_decided=len(coq),
        rule="every solution set on 2..3 search bits with 1 <= M <= N/4 (exhaustive: 4 + 8 + 28 sets), each written as equality "
             "disjunction on Qint, minterm DNF on Qint bits / on a tuple of bools, and as g(x) == y through element_to_search/oraclize "
             "(xor with a constant or a lookup list), plus ANF, fast-optimizer, for-loop list search and `== True` routes on a sample; "
             "stratified samples on 4..5 bits for every M in 1..N/4; tuple-of-Qint argument; default iteration count. Every circuit: "
             "gate list == M_Algo.grover_circuit(oracle gates), oracle decided by verified c06_check on all (x, y), whole circuit "
             "evaluated exactly by Amp.v in coqc; exact Python simulation and float state vector compared; distinct = distinct gate lists",
        exhaustive_small_sizes=True, impl_failures=sum(1 for v, ni in chk.violations if not ni),
        traces_validated_against_impl=len(coq),
    )
    chk.samples = [case_replay(c) for c in (cases[0], cases[len(cases) // 2], cases[-1])]
    chk.assumptions = ["input bit j of the single argument sits on qubit j (QlassF.input_qubits, checked per case)",
                       "measurement strings are those of measure_all(): qubit 0 is the last character",
                       "9.8696044010 < pi^2 < 9.8696044011 (iteration-count table)"]
    return chk.finish(obl)


def replay(path):
    d = json.load(open(path))
    case = d.get("case") or d
    case = {k: v for k, v in case.items() if k in ("kind", "n", "sols", "n_matching", "form", "src", "opt", "element")}
    if case.get("element") is not None:
        case["element"] = tuple(case["element"])
    r = grover_task(case)
    if r.get("status") != "ok":
        print("construction failed:", r)
        return 1
    bad = direct_grover(case, r)
    print(json.dumps(dict(case=case, n_iterations=r["n_iterations"], failures=bad, decode=r["decode_bad"][:3],
                          distribution=[str(Fraction(x, 1 << r["k"])) for x in r["marg"]]), indent=1, default=str))
    return 1 if (bad or r["decode_bad"]) else 0
