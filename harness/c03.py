"""C03 — see DESIGN.md section 5."""
from . import compiled_checks


def run(tier, seed):
    return compiled_checks.run("C03", "c03", tier, seed, "an input qubit is modified or a scratch qubit is left dirty")
