"""C10 — compilation is pure: no dependence on, or damage to, earlier work.

Random histories of public API operations over a pool of programs (same,
clashing and library-global names). After every operation the fingerprint of
every live object and of the library's module state is compared with what it
was before, and the operation's result is compared with the same operation run
alone in a pristine process."""
import collections
import multiprocessing as mp
import random
import signal

from . import common as C

PID = "C10"

POOL = {
    "and": "def test(a: bool, b: bool) -> bool:\n    return a and b",
    "eq2": "def test(a: Qint[2]) -> bool:\n    return a == 2",
    "if": "def test(a: bool, b: bool) -> bool:\n    c = a\n    if b:\n        c = not c\n    return c",
    "inc": "def inc(x: Qint[2]) -> Qint[2]:\n    return x + 1",
    "oracle": "def oracle(a: Qint[2]) -> bool:\n    return a > 1",
    "ast2ast": "def ast2ast(a: bool, b: bool) -> bool:\n    return not a or b",
    "f": "def f(a: bool, b: bool) -> bool:\n    return a ^ b",
    "types": "def types(a: Qint[2]) -> bool:\n    return a == 1",
    "copy": "def copy(a: Qint[2]) -> Qint[2]:\n    return a ^ 1",
    "par": "def test(c: Parameter[bool], a: bool, b: bool) -> bool:\n    return (a and c) or b",
    "parl": "def test(w: Parameter[List[int]], a: Qint[2]) -> Qint[4]:\n    return sum(w) + a + len(w)",
    "sec": "def sec(x: Qint[2]) -> bool:\n    return x[0] ^ x[1]",
    "sim": "def sim(x: Qint[2]) -> Qint[2]:\n    return x & 1",
    "const": "def cst(a: Qint[2]) -> bool:\n    return True",
    "caller": "def caller(a: Qint[2], b: Qint[2]) -> Qint[2]:\n    return inc(a) + b",
    # names that are also attributes of qiskit's QuantumCircuit (the gate export avoids shadowing them)
    "swap": "def swap(a: bool, b: bool) -> bool:\n    return a and not b",
    "reset": "def reset(a: Qint[2]) -> bool:\n    return a == 3",
    # definitions that share their NAME (and some of them their expressions) but not their signature / body
    "sub_ab": "def sub(a: bool, b: bool) -> bool:\n    return a and not b",
    "sub_ba": "def sub(b: bool, a: bool) -> bool:\n    return a and not b",
    "sub_or": "def sub(a: bool, b: bool) -> bool:\n    return a or not b",
    # sources that define an inner helper (same helper name, different bodies), and one with compile-time parameters
    "inner_not": "def prog(a: bool, b: bool) -> bool:\n    def flip(x: bool) -> bool:\n        return not x\n    return flip(a) and b",
    "inner_id": "def prog2(a: bool, b: bool) -> bool:\n    def flip(x: bool) -> bool:\n        return x\n    return flip(a) and b",
    "inner_free": "def prog3(a: bool, b: bool) -> bool:\n    return flip(a) and b",
    "parin": "def parin(k: Parameter[bool], a: bool) -> bool:\n    def flip(x: bool) -> bool:\n        return not x\n    return flip(a) if k else a",
    "subq_2": "def subq(a: Qint[2]) -> Qint[2]:\n    return a",
    "subq_4": "def subq(a: Qint[2]) -> Qint[4]:\n    return a",
    "call_sub": "def g(x: bool, y: bool) -> bool:\n    return sub(x, y)",
    "call_subq": "def g(x: Qint[2]) -> Qint[4]:\n    return subq(x) + 3",
}
SUBS = {"call_sub": ["sub_ab", "sub_ba", "sub_or"], "call_subq": ["subq_2", "subq_4"]}
PRED2 = ["eq2", "oracle", "types", "sec", "reset"]          # Qint[2] -> bool
BOOL2 = ["and", "if", "ast2ast", "f", "swap"]               # (bool, bool) -> bool
ANYQF = PRED2 + BOOL2 + ["inc", "copy", "sim", "const"]

OPS = ["compile", "compile_fast", "bind", "bindl", "compose", "oraclize", "grover", "grover_el", "dj", "bv", "simon",
       "qasm", "qiskit", "gate", "sympy", "decompile", "decopt", "truth_table", "recompile", "logicfun", "repr",
       "compose_with", "decompile_shared", "native", "from_function", "bindin"]


def fp_circuit(qc):
    from .ser import circuit_ir
    return dict(n=qc.num_qubits, gates=[(k, tuple(w), p) for k, w, p in circuit_ir(qc.gates)],
                gates_computed=len(qc.gates_computed), qmap=tuple(qc.qubit_map.items()), name=qc.name)


def drawing(qc):
    """What draw() of a circuit prints."""
    import contextlib
    import io
    buf = io.StringIO()
    with contextlib.redirect_stdout(buf):
        qc.draw()
    return buf.getvalue()


def fp_qf(qf):
    d = dict(name=qf.name, args=[(a.name, repr(a.ttype), tuple(a.bitvec)) for a in qf.args],
             ret=(repr(qf.returns.ttype), tuple(qf.returns.bitvec)), exprs=[(str(s), str(e)) for s, e in qf.expressions])
    if hasattr(qf, "_qcircuit"):
        d["circuit"] = fp_circuit(qf._qcircuit)
        d["inq"] = tuple(qf.input_qubits)
        try:
            d["outq"] = tuple(qf.output_qubits)
        except Exception as e:
            d["outq"] = "raise " + type(e).__name__
    return d


def fp_sections(r):
    return [(s.index, [(str(a), str(b)) for a, b in s.expressions], len(s.gates)) for s in r]


def fp_algo(al):
    return dict(circuit=fp_circuit(al.circuit()), outq=tuple(al.output_qubits))


def fp_module():
    """Observable state of the library itself."""
    import qlasskit
    import qlasskit.qlassfun as m
    import qlasskit.ast2logic.t_expression as te
    import qlasskit.decompiler.decompiler as dc
    import qlasskit.qcircuit.qcircuitenhanced as qe
    import importlib
    lib_a2a = importlib.import_module("qlasskit.ast2ast.ast2ast").ast2ast
    lib_tr = importlib.import_module("qlasskit.ast2logic.t_ast").translate_ast
    d = dict(keys=tuple(sorted(k for k in m.__dict__ if not k.startswith("__"))),
             ast2ast_is_lib=m.ast2ast is lib_a2a, translate_is_lib=m.translate_ast is lib_tr)
    defaults = {}
    for nm, fn in (("qlassf", m.qlassf), ("qlassfa", m.qlassfa), ("from_function", m.QlassF.from_function),
                   ("decompose_to_symbols", te.decompose_to_symbols), ("DecompilerResults", dc.DecompilerResults.__init__),
                   ("uncompute", qe.QCircuitEnhanced.uncompute), ("uncompute_all", qe.QCircuitEnhanced.uncompute_all)):
        defaults[nm] = tuple(repr(x) for x in (fn.__defaults__ or ()))
    d["defaults"] = defaults
    return d


class World:
    """Live objects of one process."""

    def __init__(self):
        self.qf = {}
        self.dec = None
        self.results = []
        self.nat = None

    def native(self):
        """A circuit that carries a native drawing (what the tweedledum back end attaches)."""
        from qlasskit.qcircuit import QCircuit
        if self.nat is None:
            self.nat = QCircuit(3, name="nat", native="NATIVE DRAWING")
            self.nat.x(0)
            self.nat.cx(0, 1)
            self.nat.ccx(0, 1, 2)
        return self.nat

    def get(self, key):
        from qlasskit import qlassf
        if key not in self.qf:
            if key == "caller":
                self.qf[key] = qlassf(POOL[key], defs=[self.get("inc")])
            else:
                self.qf[key] = qlassf(POOL[key])
        return self.qf[key]

    def apply(self, op):
        """Run one operation; returns the fingerprint of its result."""
        from qlasskit import qlassf
        from qlasskit.algorithms import BernsteinVazirani, DeutschJozsa, Grover, Simon
        from qlasskit.algorithms.qalgorithm import oraclize
        from qlasskit.boolopt import fastOptimizer
        from qlasskit.decompiler import Decompiler, circuit_boolean_optimizer
        kind, key = op[0], op[1]
        if kind == "compile":
            return fp_qf(qlassf(POOL[key]) if key != "caller" else qlassf(POOL[key], defs=[self.get("inc")]))
        if kind == "compile_fast":
            return fp_qf(qlassf(POOL[key], bool_optimizer=fastOptimizer, uncompute=False))
        if kind == "bind":
            u = self.qf.get("par") or qlassf(POOL["par"])
            self.qf["par"] = u
            return fp_qf(u.bind(c=op[2]))
        if kind == "from_function":
            from qlasskit import QlassF
            return fp_qf(QlassF.from_function(POOL[key]))
        if kind == "bindin":
            u = self.qf.get("parin") or qlassf(POOL["parin"])
            self.qf["parin"] = u
            return fp_qf(u.bind(k=op[2]))
        if kind == "bindl":
            u = self.qf.get("parl") or qlassf(POOL["parl"])
            self.qf["parl"] = u
            return fp_qf(u.bind(w=list(op[2])))
        if kind == "compose":
            return fp_qf(qlassf(POOL["caller"], defs=[self.get("inc")]))
        if kind == "oraclize":
            return fp_qf(oraclize(self.get(key), op[2]))
        if kind == "grover":
            return fp_algo(Grover(self.get(key)))
        if kind == "grover_el":
            return fp_algo(Grover(self.get(key), op[2]))
        if kind == "dj":
            return fp_algo(DeutschJozsa(self.get(key)))
        if kind == "bv":
            return fp_algo(BernsteinVazirani(self.get(key)))
        if kind == "simon":
            return fp_algo(Simon(self.get(key)))
        if kind == "qasm":
            return self.get(key).export("qasm")
        if kind == "qiskit":
            qc = self.get(key).export("qiskit")
            return [(i.operation.name, tuple(qc.find_bit(q).index for q in i.qubits)) for i in qc.data]
        if kind == "gate":
            g = self.get(key).gate("qiskit")
            return (g.name, g.num_qubits)
        if kind == "sympy":
            return str(self.get(key).export("sympy"))
        if kind == "decompile":
            r = Decompiler().decompile(self.get(key).circuit())
            return [(s.index, [(str(a), str(b)) for a, b in s.expressions], len(s.gates)) for s in r]
        if kind == "compose_with":
            # (kind, caller key, callee key): the callee is compiled afresh, only its NAME is shared with other callees
            return fp_qf(qlassf(POOL[key], defs=[qlassf(POOL[op[2]], to_compile=False)], to_compile=False))
        if kind == "decompile_shared":
            # one Decompiler instance for the whole history; earlier results stay alive and are re-fingerprinted
            if self.dec is None:
                self.dec = Decompiler()
            r = self.dec.decompile(self.get(key).circuit())
            self.results.append(r)
            return fp_sections(r)
        if kind == "decopt":
            return fp_circuit(circuit_boolean_optimizer(self.get(key).circuit()))
        if kind == "native":
            qc = self.native()
            if key == "draw":
                return drawing(qc)
            if key == "decompile":
                return fp_sections(Decompiler().decompile(qc))
            if key == "decopt":
                return fp_circuit(circuit_boolean_optimizer(qc))
            if key == "repeat":
                return fp_circuit(qc.repeat(2))
            if key == "copy":
                return fp_circuit(qc.copy())
            if key == "plus":
                return fp_circuit(qc + qc)
            raise ValueError(key)
        if kind == "truth_table":
            return [tuple(bool(x) for x in row) for row in self.get(key).truth_table()]
        if kind == "recompile":
            qf = self.get(key)
            qf.compile()
            return fp_qf(qf)
        if kind == "logicfun":
            lf = self.get(key).to_logicfun()
            return (lf[0], [(a.name, tuple(a.bitvec)) for a in lf[1]], tuple(lf[2].bitvec), [(str(s), str(e)) for s, e in lf[3]])
        if kind == "repr":
            return repr(self.get(key))
        raise ValueError(kind)

    def snapshot(self):
        snap = dict(("qf:" + k, fp_qf(v) if type(v).__name__ != "UnboundQlassf" else fp_unbound(v)) for k, v in self.qf.items())
        for i, r in enumerate(self.results):
            snap[f"decompiled:{i}"] = fp_sections(r)
        if self.nat is not None:
            snap["native-circuit"] = dict(fp_circuit(self.nat), gates_computed=0, drawing=drawing(self.nat))
        snap["module"] = fp_module()
        return snap


def fp_unbound(u):
    import ast
    return dict(ast=ast.dump(u.fun_ast), params=tuple(sorted((k, ast.dump(v)) for k, v in u.parameters.items())))


def random_op(rng):
    kind = rng.choice(OPS)
    if kind in ("compile", "compile_fast"):
        return (kind, rng.choice(list(k for k in POOL if k not in ("par", "parl", "parin", "inner_free", "caller", "call_sub", "call_subq"))))
    if kind == "bind":
        return (kind, "par", rng.random() < 0.5)
    if kind == "bindl":
        return (kind, "parl", rng.choice([(1, 0, 0), (1, 1, 0), (2,), (3, 1)]))
    if kind == "compose":
        return (kind, "caller")
    if kind == "oraclize":
        return rng.choice([(kind, "inc", 2), (kind, "copy", 1), (kind, "oracle", True), (kind, "sim", 1), (kind, "types", False)])
    if kind == "grover":
        return (kind, rng.choice(PRED2))
    if kind == "grover_el":
        return rng.choice([(kind, "inc", 2), (kind, "copy", 3), (kind, "sim", 1), (kind, "oracle", True), (kind, "eq2", True),
                           (kind, "types", False), (kind, "reset", True)])
    if kind in ("dj", "bv"):
        return (kind, rng.choice(PRED2 + ["const"]))
    if kind == "simon":
        return (kind, rng.choice(["sim", "inc", "copy"]))
    if kind == "recompile":
        return (kind, rng.choice(ANYQF))
    if kind == "compose_with":
        caller = rng.choice(list(SUBS))
        return (kind, caller, rng.choice(SUBS[caller]))
    if kind == "decompile_shared":
        return (kind, rng.choice(ANYQF))
    if kind == "from_function":
        return (kind, rng.choice(["inner_not", "inner_id", "inner_free", "and", "eq2"]))
    if kind == "bindin":
        return (kind, "parin", rng.random() < 0.5)
    if kind == "native":
        return (kind, rng.choice(["draw", "decompile", "decopt", "repeat", "copy", "plus"]))
    if kind == "gate":
        return (kind, rng.choice(["copy", "swap", "reset", "copy", "swap", "reset"] + ANYQF))
    return (kind, rng.choice(ANYQF + ["caller"]))


def _alarm(signum, frame):
    raise TimeoutError()


def reference_task(op):
    """The operation alone in a process that has done nothing else."""
    signal.signal(signal.SIGALRM, _alarm)
    signal.alarm(120)
    try:
        w = World()
        try:
            return ("ok", w.apply(op))
        except TimeoutError:
            raise
        except BaseException as e:
            return ("raise", type(e).__name__)
    except TimeoutError:
        return ("timeout", None)
    finally:
        signal.alarm(0)


def history_task(job):
    """One history in one process. Returns the list of problems found."""
    signal.signal(signal.SIGALRM, _alarm)
    signal.alarm(600)
    ops, refs = job["ops"], job["refs"]
    problems = []
    try:
        w = World()
        snap = w.snapshot()
        for i, op in enumerate(ops):
            try:
                r = ("ok", w.apply(op))
            except TimeoutError:
                raise
            except BaseException as e:
                r = ("raise", type(e).__name__)
            ref = refs[repr(op)]
            if ref[0] != "timeout" and r != ref:
                problems.append(dict(kind="an operation's result depends on the history", step=i, op=op,
                                     alone=_short(ref), in_history=_short(r), diff=_diff(ref, r)))
            new = w.snapshot()
            for k, v in snap.items():
                if k in new and new[k] != v and not (op[0] == "recompile" and k == "qf:" + op[1]):
                    problems.append(dict(kind="an operation changed the observable state of an existing object", step=i, op=op,
                                         object=k, diff=_diff(("ok", v), ("ok", new[k]))))
            snap = new
            if len(problems) >= 4:
                break
        return dict(status="ok", problems=problems, nops=len(ops))
    except TimeoutError:
        return dict(status="timeout", problems=problems)
    except BaseException as e:  # noqa
        return dict(status="harness-error", exc=f"{type(e).__name__}: {e}"[:300], problems=problems)
    finally:
        signal.alarm(0)


def _short(x):
    s = repr(x)
    return s if len(s) < 400 else s[:400] + "..."


def _diff(a, b):
    if a[0] != b[0]:
        return f"{a[0]} vs {b[0]}"
    x, y = a[1], b[1]
    if isinstance(x, dict) and isinstance(y, dict):
        for k in x:
            if x.get(k) != y.get(k):
                return f"field {k}: {_short(x.get(k))[:160]} -> {_short(y.get(k))[:160]}"
    return f"{_short(x)[:160]} -> {_short(y)[:160]}"


def shrink(ops, refs, pool):
    """Delta-debugging by dropping operations while the history still fails."""
    cur = list(ops)
    changed = True
    while changed and len(cur) > 1:
        changed = False
        for i in range(len(cur)):
            cand = cur[:i] + cur[i + 1:]
            r = pool.apply(history_task, (dict(ops=cand, refs=refs),))
            if r.get("problems"):
                cur = cand
                changed = True
                break
    return cur


def fixed_histories():
    """Histories aimed at the mechanisms the property names (aliasing of the
    compiled circuit, exec into the module namespace, name clashes, mutable defaults)."""
    return [
        [("grover", "eq2"), ("grover", "eq2"), ("qasm", "eq2"), ("dj", "eq2")],
        [("compile", "ast2ast"), ("compile", "if"), ("truth_table", "if")],
        [("compile", "f"), ("compile", "types"), ("compile", "copy"), ("compile", "and"), ("logicfun", "copy")],
        [("oraclize", "oracle", True), ("repr", "oracle"), ("grover", "oracle"), ("oraclize", "oracle", True)],
        [("bind", "par", True), ("bind", "par", False), ("bind", "par", True)],
        [("bindl", "parl", (1, 0, 0)), ("bindl", "parl", (1, 1, 0)), ("bindl", "parl", (2,)), ("bindl", "parl", (1, 0, 0))],
        [("compose", "caller"), ("logicfun", "inc"), ("compose", "caller"), ("oraclize", "inc", 2), ("compose", "caller")],
        [("decompile", "and"), ("decompile", "eq2"), ("decopt", "eq2"), ("qasm", "eq2"), ("decompile", "and")],
        [("dj", "sec"), ("bv", "sec"), ("grover", "sec"), ("simon", "sim"), ("qiskit", "sec"), ("qiskit", "sim")],
        [("grover_el", "inc", 2), ("grover_el", "inc", 2), ("compose", "caller"), ("simon", "inc")],
        [("recompile", "eq2"), ("grover", "eq2"), ("recompile", "eq2"), ("qasm", "eq2")],
        [("grover_el", "oracle", True), ("qasm", "oracle"), ("grover_el", "oracle", True), ("grover", "oracle")],
        [("qasm", "copy"), ("gate", "copy"), ("qasm", "copy"), ("gate", "copy"), ("gate", "swap"), ("qasm", "swap"), ("repr", "swap")],
        [("gate", "reset"), ("grover_el", "reset", True), ("qasm", "reset"), ("gate", "reset")],
        [("compile_fast", "if"), ("compile", "if"), ("compile_fast", "if"), ("truth_table", "if")],
        [("sympy", "and"), ("qiskit", "and"), ("qasm", "and"), ("decopt", "and"), ("sympy", "and")],
        [("compose_with", "call_sub", "sub_ab"), ("compose_with", "call_sub", "sub_ba"), ("compose_with", "call_sub", "sub_or"),
         ("compose_with", "call_sub", "sub_ab")],
        [("compose_with", "call_subq", "subq_2"), ("compose_with", "call_subq", "subq_4"), ("compose_with", "call_subq", "subq_2")],
        [("decompile_shared", "eq2"), ("decompile_shared", "and"), ("decompile", "eq2"), ("decompile_shared", "eq2"), ("decopt", "and")],
        [("from_function", "inner_not"), ("from_function", "inner_not"), ("from_function", "inner_id"), ("from_function", "inner_free"),
         ("from_function", "and")],
        [("bindin", "parin", True), ("bindin", "parin", False), ("bindin", "parin", True), ("from_function", "inner_free")],
        [("native", "draw"), ("native", "decompile"), ("native", "draw"), ("native", "repeat"), ("native", "decopt"), ("native", "copy"),
         ("native", "plus"), ("native", "draw")],
    ]


def run(tier, seed):
    chk = C.Check(PID, tier, seed, level="proof")
    rng = random.Random(seed)
    ok, log = C.coq_build()
    obl = C.prop_obligations(PID) if ok else dict(theorems=[], axioms={}, ok=False, log=log)
    if not ok or not obl["ok"]:
        chk.broken("theorems of Prop_C10.v do not check", (log + obl.get("log", ""))[-3000:])
        return chk.finish(obl)
    import qlasskit  # noqa: the parent imports the library and does nothing else, so forked children are pristine
    nh, maxlen = (30, 10) if tier == "quick" else (1500, 40)
    hist = fixed_histories()
    for _ in range(nh):
        hist.append([random_op(rng) for _ in range(rng.randint(3, maxlen))])
    distinct_ops = sorted(set(op for h in hist for op in h), key=repr)
    ctx = mp.get_context("fork")
    with ctx.Pool(16, maxtasksperchild=1) as pool:  # one operation per pristine process
        ref_list = pool.map(reference_task, distinct_ops, chunksize=1)
    refs = dict((repr(op), r) for op, r in zip(distinct_ops, ref_list))
    with ctx.Pool(16, maxtasksperchild=1) as pool:
        res = pool.map(history_task, [dict(ops=h, refs=refs) for h in hist], chunksize=1)
        failing = [(h, r) for h, r in zip(hist, res) if r.get("problems")]
        shrunk = []
        for h, r in failing[:3]:
            shrunk.append((shrink(h, refs, pool), r))
    known = C.known_findings(PID)
    status = collections.Counter(r["status"] for r in res)
    for h, r in zip(hist, res):
        if r["status"] == "harness-error":
            chk.broken("the harness failed on a history", dict(history=h, error=r.get("exc")))
    for mini, r in shrunk:
        rr = history_task(dict(ops=mini, refs=refs)) if False else r
        p = r["problems"][0]
        chk.violation(p["kind"], dict(history=[list(o) for o in mini], first_problem=dict((k, v) for k, v in p.items() if k != "kind"),
                                      sources=dict((o[1], POOL[o[1]]) for o in mini if o[1] in POOL)))
    nops = sum(len(h) for h in hist)
    opkinds = collections.Counter(op[0] for h in hist for op in h)
    chk.coverage.update(
        evaluations=nops, distinct_nontrivial=len(set(tuple(h) for h in hist if len(h) >= 2)),
        histories=len(hist), operations=nops, distinct_operations=len(distinct_ops), operation_kinds=dict(opkinds),
        reference_status=dict(collections.Counter(r[0] for r in ref_list)), history_status=dict(status),
        rule="histories = 12 fixed ones aimed at circuit aliasing, exec namespace, name clashes and re-binding + seeded random sequences of "
             f"3..{maxlen} operations over a pool of {len(POOL)} programs (incl. functions named test/test, oracle, ast2ast, f, types, copy); "
             "after every operation every live object and the library module state are re-fingerprinted and the result is compared with the "
             "same operation run alone in a pristine forked process; distinct = distinct histories of length >= 2",
        traces_validated_against_impl=nops, exhaustive=False)
    chk.samples = [dict(history=[list(o) for o in hist[0]]), dict(history=[list(o) for o in hist[-1]])]
    chk.assumptions = ["'fresh interpreter' = a process forked from a parent that has only imported qlasskit",
                       "fingerprints: name, args, return bits, expressions, gate list, qubit map, input/output qubits, "
                       "module namespace keys, identity of library functions, default-argument values",
                       "recompile is allowed to replace the circuit of the object it is called on"]
    return chk.finish(obl)
