"""Compile programs with the implementation (in worker processes) and return
plain-data observations of everything the checks look at."""
import json
import multiprocessing as mp
import os
import signal
import traceback

from . import common as C

CONFIGS = [("default", True), ("default", False), ("fast", True), ("fast", False)]


class _Timeout(Exception):
    pass


def _alarm(signum, frame):
    raise _Timeout()


def observe_qf(qf):
    """Plain-data view of a compiled QlassF."""
    from qlasskit.types import type_repr
    from .ser import circuit_ir, exprs_to_ir

    obs = dict(status="ok", name=qf.name)
    obs["args"] = [(a.name, _trepr(a.ttype), list(a.bitvec)) for a in qf.args]
    obs["ret"] = (_trepr(qf.returns.ttype), list(qf.returns.bitvec))
    obs["exprs"] = exprs_to_ir(qf.expressions)
    if hasattr(qf, "_qcircuit"):
        qc = qf.circuit()
        obs["gates"] = circuit_ir(qc.gates)
        obs["num_qubits"] = qc.num_qubits
        obs["qubit_map"] = [(k, v) for k, v in qc.qubit_map.items()]
        try:
            obs["input_qubits"] = list(qf.input_qubits)
        except Exception as e:
            obs["input_qubits_exc"] = repr(e)
        try:
            obs["output_qubits"] = list(qf.output_qubits)
        except Exception as e:
            obs["output_qubits_exc"] = repr(e)
    return obs


def _trepr(t):
    from qlasskit.types import type_repr
    try:
        return type_repr(t)
    except Exception:
        return repr(t)


def compile_task(task):
    """task = dict(src=..., optimizer='default'|'fast', uncompute=bool, timeout=s, compile=bool)."""
    import qlasskit
    from qlasskit import qlassf
    from qlasskit.boolopt import defaultOptimizer, fastOptimizer

    signal.signal(signal.SIGALRM, _alarm)
    signal.alarm(int(task.get("timeout", 30)))
    try:
        opt = defaultOptimizer if task.get("optimizer", "default") == "default" else fastOptimizer
        qf = qlassf(task["src"], to_compile=task.get("compile", True), bool_optimizer=opt,
                    uncompute=task.get("uncompute", True))
        if not hasattr(qf, "expressions") or type(qf).__name__ == "UnboundQlassf":
            return dict(status="unbound")
        obs = observe_qf(qf)
        if task.get("truth_table"):
            try:
                obs["truth_table"] = [[bool(x) for x in row] for row in qf.truth_table()]
                obs["truth_header"] = qf.truth_table_header()
            except Exception as e:
                obs["truth_table_exc"] = repr(e)
        return obs
    except _Timeout:
        return dict(status="timeout")
    except BaseException as e:  # noqa
        return dict(status="raise", exc=f"{type(e).__name__}: {e}"[:300])
    finally:
        signal.alarm(0)


def run_pool(fn, tasks, procs=16):
    if not tasks:
        return []
    ctx = mp.get_context("fork")
    with ctx.Pool(min(procs, max(1, len(tasks))), maxtasksperchild=200) as pool:
        return pool.map(fn, tasks, chunksize=max(1, min(8, len(tasks) // (procs * 4) or 1)))


def suite_programs():
    p = os.path.join(C.ROOT, "corpus", "suite_programs.json")
    return [d["src"] for d in json.load(open(p))]


def n_input_bits(obs):
    return sum(len(a[2]) for a in obs["args"])
