"""C01, bridge layer — ties the two Python serialisers of C01 together, per program.

harness/c01_a2a.py serialises Python trees into M_A2A's datatype (strings, untyped);
harness/c01_texp.py serialises the NORMALISED tree into M_Texp's datatype (numbered names,
types resolved by the implementation's own translate_argument).  The end-to-end theorem
Prop_C01_e2e.C01e_end_to_end talks about BOTH through M_Bridge.conv; this check makes sure the two
serialisations describe the same program.

For every program of the corpus:
  * the source is parsed; the ORIGINAL function is serialised for M_A2A (c01_a2a.Ser; argument
    annotations after the real ConstantFolder + ReplaceTypeAnn);
  * the real qlasskit.ast2ast.ast2ast runs on a deep copy; its output body is serialised for M_A2A
    (c01_a2a.Ser) AND for M_Texp (c01_texp.Converter, with the argument / return types of the
    implementation's translate_arguments / translate_argument);
  * the list of names is the one c01_texp interned, in its order (so M_Bridge.idn reproduces its
    numbering; `_ret` is 0 on both sides);
  * inside coqc (Chk_Bridge.v):
      chk_conv  conv_body ns (a2a-serialised normal form) == Some (texp-serialised body), and
                conv_sig ns (source function) == Some (texp-serialised signature); or conv declines
                (the program is outside the bridge fragment: counted, with the construct);
      chk_e2e   per sample of typed argument values: typed value tv + exact  =>  the normal form
                (instance of bridge_fun) and the source (instance of e2e (i), inside a2a_guard)
                return erase tv under the untyped evaluator; the share of exact samples;
      chk_side  which programs fail a2a_guard / a2a f == implementation / ret_last.

collect(tier, seed) -> dict(cases, distinct, mismatches, impl_failures, unmodelled,
                            distribution, coq_errors, harness_errors, timings, ...)
mismatches: conv gives another term than c01_texp (kinds 1, 4), conv declines a body that the
texp serialisation shows to be inside the fragment, or a theorem instance fails (e2e 1, 6).
"""
import ast
import collections
import copy
import multiprocessing as mp
import os
import random
import shutil
import signal
import subprocess
import sys
import time

from . import common as C
from . import c01_a2a as A2A
from . import c01_texp as TX

if C.REPO not in sys.path[:1]:
    sys.path.insert(0, C.REPO)

RUN_DIR = "C01_bridge"
PER_FILE = 60

_W = {}


class _Timeout(Exception):
    pass


def _alarm(signum, frame):
    raise _Timeout()


def programs(tier, seed):
    """the normaliser corpus (if / for / augmented assignments ...) and the translator corpus"""
    out = list(A2A.programs(tier, seed)) + list(TX.programs(tier, seed))
    seen, res = set(), []
    for o, s in out:
        if s not in seen:
            seen.add(s)
            res.append((o, s))
    return res


def _winit(tier, seed):
    A2A._winit(tier, seed)
    TX._winit(tier, seed)
    _W.update(tier=tier, seed=seed)
    signal.signal(signal.SIGVTALRM, _alarm)


def do_prog(job):  # noqa: C901
    idx, origin, src = job
    out = dict(id=idx, origin=origin, src=src, status="ok", used={})
    tier = _W["tier"]
    signal.setitimer(signal.ITIMER_VIRTUAL, 20 if tier == "quick" else 60)
    try:
        from qlasskit.ast2logic import Env, translate_argument, translate_arguments
        try:
            tree = ast.parse(src).body[0]
        except SyntaxError:
            return dict(out, status="unmodelled", why="syntax error")
        if not isinstance(tree, ast.FunctionDef):
            return dict(out, status="unmodelled", why="not a function")
        a = tree.args
        if a.vararg or a.kwarg or a.kwonlyargs or a.posonlyargs or a.defaults or a.kw_defaults:
            return dict(out, status="unmodelled", why="argument kinds / defaults")
        # ---- the SOURCE, for M_A2A
        ser = A2A.Ser()
        try:
            body0 = ser.stmts(tree.body)
        except A2A.Unmodelled as e:
            return dict(out, status="unmodelled", why=f"a2a serialiser: {e}")
        try:
            t2 = A2A._W["rta"].ReplaceTypeAnn().visit(A2A._W["cf"].ConstantFolder().visit(copy.deepcopy(tree)))
            anns = [(x.arg, x.annotation) for x in t2.args.args]
            rann = t2.returns
        except (_Timeout, A2A._Timeout, TX._Timeout):
            raise
        except BaseException:
            return dict(out, status="unmodelled", why="ConstantFolder / ReplaceTypeAnn raises")
        sa = A2A.Ser()
        try:
            args_a = A2A.c_list([f"({A2A.c_str(n)}, {'None' if an is None else '(Some %s)' % sa.exp(an)})"
                                 for n, an in anns])
            ret_a = "None" if rann is None else f"(Some {sa.exp(rann)})"
        except A2A.Unmodelled as e:
            return dict(out, status="unmodelled", why=f"a2a serialiser, annotation: {e}")
        fun_a = f"(mkfun {args_a} {ret_a} {body0})"
        # ---- the implementation's normal form
        try:
            norm = A2A._W["a2a"].ast2ast(copy.deepcopy(tree))
        except (_Timeout, A2A._Timeout, TX._Timeout):
            raise
        except BaseException as e:
            return dict(out, status="unmodelled", why="ast2ast raises", detail=f"{type(e).__name__}: {e}"[:120])
        try:
            norm_a = A2A.Ser().stmts(norm.body)
        except A2A.Unmodelled as e:
            return dict(out, status="unmodelled", why=f"a2a serialiser, normal form: {e}")
        # ---- the same normal form, for M_Texp
        try:
            env = Env()
            iargs = translate_arguments(norm.args.args, env)
            if not norm.returns:
                return dict(out, status="unmodelled", why="no return annotation")
            iret = translate_argument(norm.returns, env, base="_ret")
        except (_Timeout, A2A._Timeout, TX._Timeout):
            raise
        except BaseException as e:
            return dict(out, status="unmodelled", why="argument annotation rejected",
                        detail=f"{type(e).__name__}: {e}"[:120])
        ids = TX.Idents()
        try:
            for x in iargs:
                if x.name == "_ret":
                    raise TX.Unmodelled("identifier _ret")
            args_t = TX.c_list([f"({ids.get(x.name)}, {TX.c_ty(x.ttype)})" for x in iargs])
            ret_t = TX.c_ty(iret.ttype)
            conv = TX.Converter(ids, TX._W["type_names"])
            body_t = TX.c_list([conv.stmt(s) for s in norm.body])
            if any(isinstance(n, ast.Name) and n.id == "_ret" for n in ast.walk(norm)):
                raise TX.Unmodelled("identifier _ret")
        except TX.Unmodelled as e:
            return dict(out, status="unmodelled", why=f"texp serialiser: {e}")
        out["used"] = dict(conv.used)
        names = [n for n, _ in sorted(ids.idx.items(), key=lambda kv: kv[1]) if n != "_ret"]
        assert [ids.idx[n] for n in names] == list(range(1, len(names) + 1))
        try:
            ns = A2A.c_list([A2A.c_str(n) for n in names])
        except A2A.Unmodelled as e:
            return dict(out, status="unmodelled", why=f"a2a serialiser, name: {e}")
        out.update(fun_a=fun_a, norm_a=norm_a, ns=ns, args_t=args_t, ret_t=ret_t, body_t=body_t)
        out["norm_src"] = "\n".join(A2A._unparse(s) for s in norm.body)
        out["size"] = len(fun_a) + len(norm_a) + len(body_t)
        # ---- samples: typed argument values
        arg_t = [x.ttype for x in iargs]
        sizes = []
        for t in arg_t:
            _, m = TX.c_value(t, [False] * 4096)
            sizes.append(m)
        n = sum(sizes)
        rng = random.Random(_W["seed"] * 1000003 + idx)
        k = 8 if tier == "quick" else 20
        low = 0
        pos = 0
        for m in sizes:
            if m:
                low |= 1 << pos
            pos += m
        if (1 << n) <= k:
            xs = list(range(1 << n))
        else:
            xs = [0, low, (1 << n) - 1]
            # small values (exact more often) and arbitrary ones
            for j in range(k - 3):
                x = rng.getrandbits(n)
                if j % 2 == 0:
                    msk, pos = 0, 0
                    for m in sizes:
                        msk |= ((1 << min(m, 2)) - 1) << pos
                        pos += m
                    x &= msk
                xs.append(x)
            xs = sorted(set(xs))
        samples = []
        for x in xs:
            bits = [bool((x >> i) & 1) for i in range(n)]
            vals, pos = [], 0
            for t in arg_t:
                v, m = TX.c_value(t, bits[pos:] + [False])
                vals.append(v)
                pos += m
            samples.append(TX.c_list(vals))
        out["samples"] = samples
        return out
    except (_Timeout, A2A._Timeout, TX._Timeout):
        return dict(out, status="impl-timeout")
    except BaseException as e:  # noqa
        import traceback
        return dict(out, status="harness-error", error=f"{type(e).__name__}: {e}"[:300], tb=traceback.format_exc()[-800:])
    finally:
        signal.setitimer(signal.ITIMER_VIRTUAL, 0)


# --------------------------------------------------------------------------
# Coq side
# --------------------------------------------------------------------------
HDR_A = ("From Coq Require Import List Bool NArith ZArith Arith String.\nImport ListNotations.\n"
         "From QV Require Import M_A2A.\n"
         "Local Open Scope string_scope.\nLocal Open Scope list_scope.\n")
HDR_T = ("From QV Require Import Bits Bexp BexpTT M_Codec M_Types M_Texp M_Bridge Chk_Bridge.\n"
         "Local Open Scope nat_scope.\n")


def build_files(results):
    ok = [r for r in results if r["status"] == "ok"]
    ok.sort(key=lambda r: -r["size"])
    nfiles = max(16, (len(ok) + PER_FILE - 1) // PER_FILE)
    bins = [[] for _ in range(nfiles)]
    for i, r in enumerate(ok):
        bins[i % nfiles].append(r)
    files = []
    for fi, rs in enumerate(bins):
        if not rs:
            continue
        txt = HDR_A
        for r in rs:
            i = r["id"]
            txt += (f"Definition f_{i} : fundef := {r['fun_a']}.\n"
                    f"Definition n_{i} : list stmt := {r['norm_a']}.\n"
                    f"Definition ns_{i} : list string := {r['ns']}.\n")
        txt += HDR_T
        for r in rs:
            i = r["id"]
            txt += f"Definition c_{i} : bcase := mkb ns_{i} f_{i} n_{i} {r['args_t']} {r['ret_t']} {r['body_t']}.\n"
        txt += "Definition cs : list (N * bcase) := %s.\n" % TX.c_list([f"({r['id']}%N, c_{r['id']})" for r in rs])
        txt += "Definition ss : list (N * list (list value)) := %s.\n" % TX.c_list(
            [f"({r['id']}%N, {TX.c_list(r['samples'])})" for r in rs])
        txt += "Eval vm_compute in (chk_conv cs).\n"
        txt += "Eval vm_compute in (chk_e2e cs ss).\n"
        txt += "Eval vm_compute in (chk_side cs).\n"
        files.append((f"b{fi:04d}", txt, [r["id"] for r in rs]))
    return files


def ensure_vo():
    th = C.THEORIES
    log = ""
    with C._Lock():
        for f in ("M_Bridge", "Chk_Bridge"):
            v, vo = os.path.join(th, f + ".v"), os.path.join(th, f + ".vo")
            deps = [os.path.join(th, d + ".vo") for d in ("M_Bridge", "M_Texp", "M_A2A", "M_Types", "M_Codec")]
            stale = (not os.path.exists(vo)) or os.path.getmtime(vo) < os.path.getmtime(v) or any(
                os.path.exists(d) and os.path.getmtime(d) > os.path.getmtime(vo) for d in deps if d != vo)
            if stale:
                r = subprocess.run(["timeout", "900", "coqc", "-Q", "theories", "QV", f"theories/{f}.v"],
                                   cwd=C.COQ, capture_output=True, text=True)
                if r.returncode != 0:
                    return False, (r.stdout + r.stderr)[-3000:]
                log += f"compiled {f}.v\n"
    return True, log


CONV_KIND = {1: "conv(a2a-serialised normal form) differs from the term c01_texp serialises",
             4: "conv_sig(source annotations) differs from the types translate_argument resolves"}
E2E_KIND = {1: "exact typed value, inside the guards, but the SOURCE returns something else (contradicts e2e)",
            6: "exact typed value, but the NORMAL FORM returns something else (contradicts bridge_fun)"}


def _outside_reason(r):
    """the first construct of the texp serialisation that conv does not convert (a label)"""
    b = r["body_t"]
    for k, lab in (("ERaise", "a node the translator rejects (ERaise)"), ("SRaise", "a statement the translator rejects"),
                   ("ECast", "cast"), ("EInt", "int()"), ("EFloat", "float()"), ("CFloat", "float constant"),
                   ("CStr", "str constant"), ("COther", "other constant"), ("EConstTup", "constant tuple"),
                   ("UoInvert", "~ (the two evaluators differ)"), ("UoOther", "unary + / -"),
                   ("AoOther", "/ // ** @"), ("CoOther", "is / in"), ("AoShl", "shift by a non-constant"),
                   ("AoShr", "shift by a non-constant")):
        if k in b:
            return lab
    return "other"


def collect(tier, seed, jobs=16, only=None, progs=None):
    t0 = time.time()
    progs = programs(tier, seed) if progs is None else progs
    if only is not None:
        progs = [p for p in progs if only(p)]
    jobs_l = [(i, o, s) for i, (o, s) in enumerate(progs)]
    ctx = mp.get_context("fork")
    with ctx.Pool(jobs, initializer=_winit, initargs=(tier, seed)) as pool:
        results = pool.map(do_prog, jobs_l, chunksize=4)
    t_impl = time.time() - t0
    by_id = {r["id"]: r for r in results}
    status = collections.Counter(r["status"] for r in results)
    unmodelled = collections.Counter(r.get("why", "") for r in results if r["status"] == "unmodelled")
    unmodelled_ex = {}
    for r in results:
        if r["status"] == "unmodelled":
            unmodelled_ex.setdefault(r["why"], r["src"])
    herr = [dict(source=r["src"], error=r.get("error"), tb=r.get("tb")) for r in results if r["status"] == "harness-error"]
    ok_vo, log = ensure_vo()
    files = build_files(results)
    t1 = time.time()
    mismatches, coq_err = [], []
    conv_codes, e2e_codes, side_codes = {}, collections.Counter(), {}
    e2e_by_prog = collections.defaultdict(collections.Counter)
    checked = set()
    if ok_vo:
        run_dir = f"{RUN_DIR}.{os.getpid()}"
        saved = C.COQC_TIMEOUT
        C.COQC_TIMEOUT = min(saved, 240 if tier == "quick" else 900)
        try:
            res = C.run_cases(run_dir, [(n, t) for n, t, _ in files])
        finally:
            C.COQC_TIMEOUT = saved
        for name, _, ids_ in files:
            rc, so, se = res[name]
            if rc != 0:
                coq_err.append(dict(file=name, programs=len(ids_), error=(so + se)[-600:] or f"coqc exit code {rc} (timeout?)"))
                continue
            vals = C.parse_results(so)
            if len(vals) != 3:
                coq_err.append(dict(file=name, error=f"3 evaluations expected, {len(vals)} printed"))
                continue
            try:
                lc, le, ls = [C.parse_N_list(v) for v in vals]
            except Exception:
                coq_err.append(dict(file=name, error="unparsable output: " + so[-300:]))
                continue
            checked.update(ids_)
            for code in lc:
                conv_codes[code // 10] = code % 10
                if code % 10 in CONV_KIND:
                    r = by_id[code // 10]
                    mismatches.append(dict(kind=CONV_KIND[code % 10], source=r["src"], normalised=r.get("norm_src"),
                                           origin=r["origin"], file=name))
            for code in le:
                e2e_codes[code % 10] += 1
                e2e_by_prog[code // 10][code % 10] += 1
                if code % 10 in E2E_KIND:
                    r = by_id[code // 10]
                    mismatches.append(dict(kind=E2E_KIND[code % 10], source=r["src"], normalised=r.get("norm_src"),
                                           origin=r["origin"], file=name))
            for code in ls:
                side_codes[code // 10] = code % 10
        if not coq_err and not mismatches and not os.environ.get("QV_KEEP_CASES"):
            shutil.rmtree(os.path.join(C.BUILD, run_dir), ignore_errors=True)
    else:
        coq_err.append(dict(file="(theories)", error=log))
    t_coq = time.time() - t1
    okr = [r for r in results if r["status"] == "ok"]
    cc = collections.Counter(conv_codes.values())
    outside = collections.Counter(_outside_reason(by_id[i]) for i, k in conv_codes.items() if k == 2)
    outside_ex = {}
    for i, k in sorted(conv_codes.items()):
        if k == 2:
            outside_ex.setdefault(_outside_reason(by_id[i]), by_id[i]["src"])
    for i, k in sorted(conv_codes.items()):
        if k == 2 and _outside_reason(by_id[i]) == "other":
            r = by_id[i]
            mismatches.append(dict(kind="conv declines a body in which c01_texp serialised only constructs of the fragment",
                                   source=r["src"], normalised=r.get("norm_src"), origin=r["origin"]))
    sig_out_ex = [by_id[i]["src"] for i, k in sorted(conv_codes.items()) if k == 3][:6]
    used = collections.Counter()
    for i, k in conv_codes.items():
        if k == 0:
            for c in by_id[i]["used"]:
                used[c] += 1
    seen_m, mm = set(), []
    for m in mismatches:
        key = (m["kind"], m["source"])
        if key not in seen_m:
            seen_m.add(key)
            mm.append(m)
    progs_all_exact = sum(1 for i, c in e2e_by_prog.items() if c and all(k == 0 for k in c))
    progs_some_exact = sum(1 for i, c in e2e_by_prog.items() if c[0] > 0)
    return dict(
        cases=len([r for r in okr if r["id"] in checked]), distinct=len({r["src"] for r in okr if r["id"] in checked}),
        mismatches=mm, impl_failures=[],
        unmodelled=dict(count=status.get("unmodelled", 0), reasons=dict(unmodelled.most_common()), examples=unmodelled_ex),
        distribution=dict(
            programs=len(progs), status=dict(status), serialised_both_ways=len(okr),
            per_origin=dict(collections.Counter(r["origin"] for r in okr)),
            conv=dict(agrees=cc[0], differs=cc[1], declines_body=cc[2], declines_signature=cc[3], signature_differs=cc[4]),
            outside_fragment_reasons=dict(outside.most_common()), outside_fragment_examples=outside_ex,
            signature_outside_examples=sig_out_ex,
            constructs_in_bridged_programs=dict(used.most_common()),
            samples=dict(total=sum(e2e_codes.values()), exact_and_agree=e2e_codes[0], exact_source_differs_in_guard=e2e_codes[1],
                         wrapped_but_agree=e2e_codes[2], wrapped_and_differ=e2e_codes[3], typed_no_value=e2e_codes[4],
                         exact_source_differs_outside_guard=e2e_codes[5], exact_normal_form_differs=e2e_codes[6]),
            bridged_programs_with_an_exact_sample=progs_some_exact,
            bridged_programs_exact_on_every_sample=progs_all_exact,
            normaliser_side=dict(outside_a2a_guard=sum(1 for k in side_codes.values() if k & 1),
                                 model_a2a_differs_from_implementation=sum(1 for k in side_codes.values() if k & 2),
                                 return_not_last=sum(1 for k in side_codes.values() if k & 4)),
            exact_source_differs_outside_guard_examples=[by_id[i]["src"] for i, c in sorted(e2e_by_prog.items()) if c[5]][:8],
            wrapped_but_agree_examples=[by_id[i]["src"] for i, c in sorted(e2e_by_prog.items()) if c[2]][:12],
            model_a2a_differs_examples=[by_id[i]["src"] for i, k in sorted(side_codes.items()) if k & 2][:8],
            return_not_last_examples=[by_id[i]["src"] for i, k in sorted(side_codes.items()) if k & 4][:4],
            coq_files=len(files)),
        coq_errors=coq_err, harness_errors=herr,
        timings=dict(implementation=round(t_impl, 1), coq=round(t_coq, 1), total=round(time.time() - t0, 1)),
    )
