"""C09 — type codecs are exact and mutually inverse."""
import random

from qlasskit.types import Qchar, const_to_qtype, interpret_as_qtype
from qlasskit.types.qfixed import QFIXED_TYPES
from qlasskit.types.qint import QINT_TYPES

from . import common as C
from .types_ser import (SerError, float_to_dy, leaf_bits, random_type, random_value,
                        ty_size, ty_to_coq, type_str, val_equal, val_to_coq)

PID = "C09"


def bits_of(p, w):
    return [((p >> k) & 1) == 1 for k in range(w)]


def num_of(bits):
    return sum(1 << k for k, b in enumerate(bits) if b)


def amp_obs(v, w):
    a = v.to_amplitudes()
    nz = [i for i, x in enumerate(a) if x != 0]
    if len(nz) == 1 and a[nz[0]] == 1:
        return len(a), nz[0]
    return len(a), len(a) + 1 + len(nz)  # not one-hot: an index no model produces


def patterns(w, tier, rng, cap_quick=4096):
    n = 1 << w
    if tier == "thorough" or n <= cap_quick:
        return list(range(n)), True
    s = set([0, 1, 2, n - 1, n - 2, n // 2, n // 2 - 1, n // 2 + 1])
    s.update(1 << k for k in range(w))
    s.update((1 << k) - 1 for k in range(w + 1))
    while len(s) < cap_quick:
        s.add(rng.randrange(n))
    return sorted(s), False


def run(tier, seed):
    chk = C.Check(PID, tier, seed, level="proof")
    rng = random.Random(seed)
    ok, log = C.coq_build()
    obl = C.prop_obligations(PID) if ok else dict(theorems=[], axioms={}, ok=False, log=log)
    if not ok or not obl["ok"]:
        chk.broken("theorems of Prop_C09.v / Generated.v side conditions do not check", (log + obl.get("log", ""))[-3000:])

    files = []
    direct_fail = []  # failing inputs against the implementation itself
    n_cases = 0
    distinct = set()
    exhaustive = True
    dist = {}

    # ---------------- Qint ----------------
    for T in QINT_TYPES:
        w = T.BIT_SIZE
        pats, exh = patterns(w, tier, rng)
        exhaustive &= exh
        with_amp = w <= 10 or False
        amp_sample = set(pats if w <= 10 else rng.sample(pats, 24))
        rows_full, rows_short = [], []
        for p in pats:
            bits = bits_of(p, w)
            try:
                v = T.from_bool(bits)
                rt = v.to_bool()
                ct, cb = T.const(v.value)
                row = [v.value, num_of(rt), num_of(cb), len(cb)]
                bad = []
                if rt != bits:
                    bad.append("to_bool(from_bool(p)) != p")
                if list(cb) != list(rt) or ct is not T:
                    bad.append("const(value) differs from the runtime encoding")
                if T.from_bin(v.to_bin()).to_bool() != rt or v.to_bin() != "".join("1" if b else "0" for b in rt):
                    bad.append("from_bin/to_bin disagree with from_bool/to_bool")
                if p in amp_sample:
                    al, ai = amp_obs(v, w)
                    row += [al, ai]
                    if al != 2 ** w or ai != p:
                        bad.append(f"to_amplitudes not one-hot at index {p} (got {ai}, len {al})")
                    rows_full.append((p, row))
                else:
                    rows_short.append((p, row))
                if bad:
                    direct_fail.append(dict(type=T.__name__, pattern=p, failures=bad))
            except Exception as e:  # the codec must not raise on a pattern of its width
                direct_fail.append(dict(type=T.__name__, pattern=p, failures=[f"raised {e!r}"]))
                rows_short.append((p, [0, 0, 0, 0]))
            distinct.add((T.__name__, p))
        n_cases += len(pats)
        dist[T.__name__] = len(pats)
        for kind, rows, k in (("full", rows_full, 6), ("short", rows_short, 4)):
            for ci in range(0, len(rows), 8192):
                chunk = rows[ci:ci + 8192]
                body = C.clist(["(%s, %s)" % (C.cN(p), C.clist([C.cN(x) for x in r])) for p, r in chunk])
                files.append((f"qint{w}_{kind}_{ci}",
                              C.COQ_HEADER + "From QV Require Import Bits M_Codec Chk_Codec.\nLocal Open Scope N_scope.\n"
                              + f"Definition obs : list (N * list N) := {body}.\n"
                              + f"Eval vm_compute in (chk_qint_n {C.cnat(k)} {C.cnat(w)} obs).\n"))

    # ---------------- Qchar ----------------
    rows = []
    for p in range(256):
        bits = bits_of(p, 8)
        try:
            v = Qchar.from_bool(bits)
            rt = v.to_bool()
            ct, cb = Qchar.const(v.value)
            al, ai = amp_obs(v, 8)
            rows.append((p, [ord(v.value), num_of(rt), num_of(cb), len(cb), al, ai]))
            bad = []
            if rt != bits:
                bad.append("to_bool(from_bool(p)) != p")
            if list(cb) != list(rt):
                bad.append("const(value) differs from the runtime encoding")
            if al != 256 or ai != p:
                bad.append("to_amplitudes not one-hot at the encoding's index")
            if bad:
                direct_fail.append(dict(type="Qchar", pattern=p, failures=bad))
        except Exception as e:
            direct_fail.append(dict(type="Qchar", pattern=p, failures=[f"raised {e!r}"]))
            rows.append((p, [0] * 6))
        distinct.add(("Qchar", p))
    n_cases += 256
    dist["Qchar"] = 256
    body = C.clist(["(%s, %s)" % (C.cN(p), C.clist([C.cN(x) for x in r])) for p, r in rows])
    files.append(("qchar", C.COQ_HEADER + "From QV Require Import Bits M_Codec Chk_Codec.\nLocal Open Scope N_scope.\n"
                  + f"Definition obs : list (N * list N) := {body}.\nEval vm_compute in (chk_qchar obs).\n"))

    # ---------------- Qfixed ----------------
    for T in QFIXED_TYPES:
        i, f = T.BIT_SIZE_INTEGER, T.BIT_SIZE_FRACTIONAL
        w = T.BIT_SIZE
        rows = []
        for p in range(1 << w):
            bits = bits_of(p, w)
            try:
                v = T.from_bool(bits)
                num, k = float_to_dy(v.value)
                rt = v.to_bool()
                ct, cb = T.const(v.value)
                al, ai = amp_obs(v, w)
                rows.append((p, [num, k, num_of(rt), num_of(cb), len(cb), al, ai]))
                bad = []
                if rt != bits:
                    bad.append("to_bool(from_bool(p)) != p")
                if list(cb) != list(rt) or ct is not T:
                    bad.append("const(value) differs from the runtime encoding")
                if al != 2 ** w or ai != p:
                    bad.append(f"to_amplitudes not one-hot at index {p} (got {ai})")
                if T.from_bin(v.to_bin()).to_bool() != rt:
                    bad.append("from_bin/to_bin disagree with from_bool/to_bool")
                if bad:
                    direct_fail.append(dict(type=T.__name__, pattern=p, failures=bad))
            except Exception as e:
                direct_fail.append(dict(type=T.__name__, pattern=p, failures=[f"raised {e!r}"]))
                rows.append((p, [0] * 7))
            distinct.add((T.__name__, p))
        n_cases += 1 << w
        dist[T.__name__] = 1 << w
        body = C.clist(["(%s, %s)" % (C.cN(p), C.clist([C.cN(x) for x in r])) for p, r in rows])
        hdr = C.COQ_HEADER + "From QV Require Import Bits M_Codec Chk_Codec.\nLocal Open Scope N_scope.\n"
        txt = hdr + f"Definition obs : list (N * list N) := {body}.\nEval vm_compute in (chk_qfixed {C.cnat(i)} {C.cnat(f)} obs).\n"
        # float constants on and off the grid (incl. out-of-range integer parts)
        consts = []
        grid = [n / 2 ** (f + 2) for n in range(0, (2 ** (i + 1) + 2) * 2 ** (f + 2), max(1, 2 ** (i + f) // 96))]
        decs = [0.1, 0.2, 0.3, 0.7, 1.1, 1.9, 2.675, 3.3, 0.05, 0.95, 7.77, 15.99, 1 / 3, 2 / 3]
        for x in grid + decs + [rng.random() * 2 ** i for _ in range(20 if tier == "quick" else 200)]:
            try:
                ct, cb = T.const(x)
                num, k = float_to_dy(x)
                consts.append((num, k, num_of(cb), len(cb)))
                if list(cb) != T(x).to_bool():
                    direct_fail.append(dict(type=T.__name__, const=x, failures=["const(x) != T(x).to_bool()"]))
            except Exception as e:
                direct_fail.append(dict(type=T.__name__, const=x, failures=[f"const raised {e!r}"]))
            distinct.add((T.__name__, "const", x))
        n_cases += len(consts)
        body = C.clist(["(%s, (%s, %s, %s, %s))" % (C.cN(j), C.cN(a), C.cN(b), C.cN(c), C.cN(d))
                        for j, (a, b, c, d) in enumerate(consts)])
        txt += f"Definition cobs : list (N * (N * N * N * N)) := {body}.\nEval vm_compute in (chk_qfixed_const {C.cnat(i)} {C.cnat(f)} cobs).\n"
        files.append((f"qfixed{i}_{f}", txt))

    # ---------------- const_to_qtype ----------------
    ints = set([0, 1, 2, 3, 4, 5, 15, 16, 17, 63, 64, 255, 256, 4095, 4096, 65535, 65536, 65537, 70000, 1 << 20])
    while len(ints) < (400 if tier == "quick" else 4000):
        ints.add(rng.randrange(1 << rng.randint(1, 18)))
    iobs = []
    src_widths = C._const_widths_from_source()
    for v in sorted(ints):
        try:
            ct, cb = const_to_qtype(v)
            iobs.append((v, ct.BIT_SIZE, num_of(cb)))
            fits = [w for w in src_widths if v < 2 ** w]
            if not fits or ct.BIT_SIZE != fits[0] or num_of(cb) != v or len(cb) != ct.BIT_SIZE:
                direct_fail.append(dict(const_to_qtype=v, failures=[f"chose Qint{ct.BIT_SIZE} encoding {num_of(cb)}"]))
        except Exception as e:
            iobs.append((v, 0, 0))
            if any(v < 2 ** w for w in src_widths):
                direct_fail.append(dict(const_to_qtype=v, failures=[f"raised {e!r}"]))
        distinct.add(("const_int", v))
    n_cases += len(iobs)
    body = C.clist(["(%s, (%s, %s))" % (C.cN(v), C.cN(w), C.cN(b)) for v, w, b in iobs])
    txt = (C.COQ_HEADER + "From QV Require Import Bits M_Codec Chk_Codec Generated.\nLocal Open Scope N_scope.\n"
           + f"Definition iobs : list (N * (N * N)) := {body}.\nEval vm_compute in (chk_const_int iobs).\n")
    fl = [n / 16 for n in range(0, 16 * 18, 3)] + [0.1, 0.31, 1.7, 2.5, 3.99, 17.0, 0.26, 9.9, 15.96, 0.74]  # never within 1e-9 of the 0.05 tolerance boundary (float rounding)
    fobs = []
    for j, x in enumerate(fl):
        num, k = float_to_dy(x)
        try:
            ct, cb = const_to_qtype(x)
            fobs.append((j, num, k, ct.BIT_SIZE_INTEGER, ct.BIT_SIZE_FRACTIONAL, num_of(cb)))
            if list(cb) != ct(x).to_bool() or abs(float(ct.from_bool(cb)) - x) >= 0.05:
                direct_fail.append(dict(const_to_qtype=x, failures=["encoding is not the runtime encoding within 0.05"]))
        except Exception:
            fobs.append((j, num, k, 0, 0, 0))
        distinct.add(("const_float", x))
    n_cases += len(fobs)
    body = C.clist(["(%s, (%s, %s, (%s, %s, %s)))" % tuple(C.cN(z) for z in r) for r in fobs])
    txt += f"Definition fobs : list (N * (N * N * (N * N * N))) := {body}.\nEval vm_compute in (chk_const_float shipped_qfixed fobs).\n"
    files.append(("const_to_qtype", txt))

    # ---------------- nested decoding ----------------
    n_nested = 300 if tier == "quick" else 5000
    nested = []
    nested_types = []
    fixed_types = []
    from typing import Tuple
    from qlasskit.types import Qint2, Qint4, Qfixed2_2, Qlist, Qmatrix
    fixed_types = [bool, Qint2, Tuple[bool, bool], Tuple[Qint2, Qint4], Tuple[Tuple[bool, Qint2], Qchar],
                   Qlist[Qint2, 3], Qmatrix[bool, 2, 2], Tuple[Qfixed2_2, Tuple[Qint4, bool], bool],
                   Tuple[Tuple[bool, Qint2], Tuple[bool, Qint2]], Tuple[bool]]
    for j in range(n_nested):
        t = fixed_types[j] if j < len(fixed_types) else random_type(rng, rng.randint(0, 3), rng.choice([6, 12, 24, 40]))
        v = random_value(rng, t)
        s = leaf_bits(t, v)[::-1]  # the measured string: last character is bit 0
        n = len(s)
        try:
            got = interpret_as_qtype(s, t, n)
            ok_direct = val_equal(t, got, v) and n == ty_size(t)
            gv = val_to_coq(t, got)
        except SerError:
            ok_direct, gv = False, None
        except Exception as e:
            ok_direct, gv, got = False, None, f"raised {e!r}"
        if not ok_direct:
            direct_fail.append(dict(type=type_str(t), value=repr(v), measured=s, failures=[f"interpret_as_qtype gave {got!r}"]))
        nested.append((j, ty_to_coq(t), [c == "1" for c in s], n, gv, type_str(t), repr(v)))
        nested_types.append(t)
        distinct.add(("nested", type_str(t), s))
    n_cases += len(nested)
    # the same readings once more, in this process, after the same strings (and the ints they spell) have
    # been formatted with a LARGER out_len (short outcomes are padded: a supported use): decoding is a
    # function of its arguments, so every form of the reading must decode as it did the first time
    from qlasskit.types import format_outcome
    n_hist = 0
    for j, tc, sb, n, gv, tstr, vrep in nested:
        s = "".join("1" if b else "0" for b in sb)
        try:
            pads = [format_outcome(s, n + 3), format_outcome(int(s, 2) if s else 0, n + 5), format_outcome(s, n + 1)]
            if [len(p) for p in pads] != [n + 3, n + 5, n + 1] or any(p[:n] != list(sb) for p in (pads[0], pads[2])) or any(any(p[n:]) for p in (pads[0], pads[2])):
                direct_fail.append(dict(measured=s, failures=[f"format_outcome with a larger out_len gave {pads!r}"]))
        except Exception as e:
            direct_fail.append(dict(measured=s, failures=[f"format_outcome with a larger out_len raised {e!r}"]))
        n_hist += 1
    for (j, tc, sb, n, gv, tstr, vrep), t in zip(nested, nested_types):
        s = "".join("1" if b else "0" for b in sb)
        forms = [("str", s), ("list", [c == "1" for c in s])]
        if s.startswith("1"):
            forms.append(("int", int(s, 2)))
        for fname, form in forms:
            try:
                got2 = interpret_as_qtype(form, t, n)
                gv2 = val_to_coq(t, got2)
            except Exception as e:
                got2, gv2 = f"raised {e!r}", None
            if gv2 != gv:
                direct_fail.append(dict(type=tstr, value=vrep, measured=s, form=fname,
                                        history="first decoding, then format_outcome(same string / its int, larger out_len), then this decoding",
                                        failures=[f"second decoding gave {got2!r}"]))
            n_hist += 1
    n_cases += n_hist
    for ci in range(0, len(nested), 500):
        chunk = nested[ci:ci + 500]
        body = C.clist(["(%s, (%s, %s, %s, %s))" % (C.cN(j), t, C.cbools(s), C.cnat(n), C.copt(gv)) for j, t, s, n, gv, _, _ in chunk])
        files.append((f"nested_{ci}", C.COQ_HEADER + "From QV Require Import Bits M_Codec Chk_Codec.\nLocal Open Scope N_scope.\n"
                      + f"Definition cases : list (N * (ty * list bool * nat * option val)) := {body}.\nEval vm_compute in (chk_interpret cases).\n"))

    # ---------------- evaluate the model ----------------
    res = C.run_cases(PID, files) if ok else {}
    mismatches = []
    for name, (rc, so, se) in res.items():
        if rc != 0:
            mismatches.append(dict(file=name, error=(so + se)[-1500:]))
            continue
        for v in C.parse_results(so):
            try:
                fails = C.parse_N_list(v)
            except ValueError:
                mismatches.append(dict(file=name, error="unparsable: " + v[:200]))
                continue
            if fails:
                mismatches.append(dict(file=name, failing_ids=fails[:50]))

    # ---------------- verdict ----------------
    for d in direct_fail[:20]:
        chk.violation("codec fails on a concrete input", d)
    if mismatches and not direct_fail:
        chk.broken("correspondence model<->implementation (Chk_Codec) differs", mismatches[:10])
    elif mismatches:
        chk.notes.append(mismatches[:10])

    chk.coverage.update(
        evaluations=n_cases, distinct_nontrivial=len(distinct),
        rule="every shipped Qint/Qfixed/Qchar type x every bit pattern of its width (Qint16 sampled in the quick tier), "
             "float/int constants, const_to_qtype, random nested Tuple/Qlist/Qmatrix types with random values; "
             "distinct = distinct (type, pattern) pairs; all are non-trivial (each exercises decode+encode+const+amplitudes)",
        exhaustive=bool(exhaustive), distribution=dist, model_files=len(files),
        model_mismatches=len(mismatches), impl_failures=len(direct_fail),
        traces_validated_against_impl=n_cases,
    )
    chk.samples = [dict(type="Qint4", pattern=5), dict(type=nested[0][5], value=nested[0][6]),
                   dict(type=nested[-1][5], value=nested[-1][6], measured="".join("1" if b else "0" for b in nested[-1][2]))]
    chk.assumptions = ["Python floats handled by the codec are dyadic rationals and int(), %1, *2 on them are exact (checked by exact comparison on every case)"]
    return chk.finish(obl)
