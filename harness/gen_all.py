"""Importing this module registers every Generated.v section (each property
module that contributes tables registers a writer with common.register_generated)."""
