"""C02 — see DESIGN.md section 5."""
from . import compiled_checks


def run(tier, seed):
    return compiled_checks.run("C02", "c02", tier, seed, "an output qubit does not hold the value of its return expression")
