"""C01, types layer — operator-level correspondence between the REAL methods of
qlasskit/types (QintImp, QfixedImp, Qchar, Qbool, Qtype) and the Coq model
M_Types.v, and a direct search for inputs on which the implementation's
expressions do not mean what the operator means.

For every case (method x ordered type pair x operand shape) the real method is
called on (type, [Symbol...]) / T.const(v) operands.  Then
  * model route  — Chk_Types.chk_model: the model's result, computed by vm_compute
    on the same operands, has the same type, the same number of bits and every
    bit has the same truth table (all assignments when the symbolic operands have
    <= LIMIT bits in total; otherwise on 512 structured+random assignments whose
    columns are sent to Coq);
  * spec route   — Chk_Types.chk_spec: the implementation's bits equal the
    arithmetic meaning proved for the model in P_Types ((x+y) mod 2^w, x<y, ...),
    evaluated numerically in Coq; used where the model's expression TREE is too
    large to walk (array multiplier, max width > 4/5) and on a sample elsewhere;
  * shape route  — Chk_Types.chk_shape: type and width of the model's result for
    every case, including those too large for the two routes above;
  * direct check — in Python, bit-parallel: the implementation's expressions are
    evaluated on the same assignments and compared with the operator's meaning on
    plain integers / rationals (this is the search for a failing input).

collect(tier, seed) -> dict(cases, distinct, mismatches, impl_failures, distribution, ...)
run(tier, seed)     -> exit code (own testing; verdict through common.Check, pid C01)
"""
import multiprocessing as mp
import os
import random
import shutil
import signal
import subprocess
import sys
import time

from . import common as C

PID = "C01"
RUN_DIR = "C01_types"          # build/<RUN_DIR>.<pid>: case files of this layer, one directory per run
NSAMP = 512                    # sampled assignments for wide operands

QINT_OPS = ["eq", "neq", "gt", "lt", "lte", "gte", "add", "sub", "mul", "mod",
            "bitwise_and", "bitwise_or", "bitwise_xor"]
QFIXED_OPS = ["eq", "neq", "gt", "lt", "lte", "gte", "add", "sub"]
CMP = {"eq", "neq", "gt", "lt", "lte", "gte"}
COQ_BINOP = dict(eq="OEq", neq="ONeq", gt="OGt", lt="OLt", lte="OLte", gte="OGte", add="OAdd",
                 sub="OSub", mul="OMul", mod="OMod", bitwise_and="OAnd", bitwise_or="OOr",
                 bitwise_xor="OXor")


def tier_params(tier):
    if tier == "thorough":
        return dict(limit=16, impl_timeout=150, mul_ss_max=8, model_mul_max=5, spec_every=1,
                    nconst=7, ncs=7, cc_ops=("mul", "add", "sub", "gt", "mod"), mul_dense_max=7, qf_sc=4, qf_cs=3)
    return dict(limit=14, impl_timeout=12, mul_ss_max=6, model_mul_max=4, spec_every=7,
                nconst=4, ncs=3, cc_ops=("mul", "sub", "gt"), mul_dense_max=6, qf_sc=1, qf_cs=1)


# --------------------------------------------------------------------------
# case enumeration (plain tuples; type names resolved in the workers)
# --------------------------------------------------------------------------
def qint_consts(w, n, rng):
    top = (1 << w) - 1
    base = [top, (top // 3) * 2 or 2, 0, ((top // 3) * 2 + 1) & top, 1]   # max, even, 0, odd, 1
    extra = [2, 3, top - 1, 1 << (w - 1), 6 & top, 10 & top]
    out = []
    for v in base + extra:
        if v not in out:
            out.append(v)
    out = out[:n]
    while len(out) < n and len(out) < (1 << w):
        v = rng.randrange(1 << w)
        if v not in out:
            out.append(v)
    return out


def enumerate_cases(tier, seed):
    from qlasskit.types.qfixed import QFIXED_TYPES
    from qlasskit.types.qint import QINT_TYPES
    P = tier_params(tier)
    rng = random.Random(seed)
    cases = []
    qi = [t.__name__ for t in QINT_TYPES]
    wd = {t.__name__: t.BIT_SIZE for t in QINT_TYPES}
    consts = {n: qint_consts(wd[n], P["nconst"], rng) for n in qi}
    # ---- Qint x Qint, every ordered pair, three operand shapes
    for t1 in qi:
        for t2 in qi:
            w = max(wd[t1], wd[t2])
            for op in QINT_OPS:
                if not (op == "mul" and w > P["mul_ss_max"]):
                    cases.append(("qint", op, t1, t2, "SS", None, None))
                # sympy needs minutes to multiply a wide operand by a constant with many set bits
                # (array multiplier rows / nested shift-adds): sparse constants there
                dense = lambda v: op == "mul" and bin(v).count("1") > 2 and w > P["mul_dense_max"]
                c2 = [v for v in consts[t2] if not dense(v)]
                c1 = [v for v in consts[t1][:P["ncs"]] if not dense(v)]
                if op == "mul" and w > P["mul_dense_max"]:
                    c2 += [v for v in (6 % (1 << wd[t2]), 5 % (1 << wd[t2])) if v not in c2]
                    c1 += [v for v in (6 % (1 << wd[t1]), 5 % (1 << wd[t1])) if v not in c1]
                for v in c2:
                    cases.append(("qint", op, t1, t2, "SC", None, v))
                for v in c1:
                    cases.append(("qint", op, t1, t2, "CS", v, None))
            # both constant: a few
            for op in P["cc_ops"]:
                for (v1, v2) in ((consts[t1][1], consts[t2][3]), (consts[t1][3], consts[t2][1])):   # (even, odd), (odd, even)
                    cases.append(("qint", op, t1, t2, "CC", v1, v2))
    # ---- unary
    for t1 in qi:
        cases.append(("unary", "bitwise_not", t1, None, "S", None, None))
        for k in sorted({0, 1, 2, wd[t1] - 1, wd[t1], wd[t1] + 1}):
            cases.append(("unary", "shift_left", t1, None, "S", None, k))
            cases.append(("unary", "shift_right", t1, None, "S", None, k))
        for v in consts[t1]:
            cases.append(("unary", "bitwise_not", t1, None, "C", v, None))
            cases.append(("unary", "shift_left", t1, None, "C", v, 1))
            cases.append(("unary", "shift_right", t1, None, "C", v, 1))
    # ---- const
    for t1 in qi:
        w = wd[t1]
        for v in sorted(set(consts[t1] + [1 << w, (1 << w) + 1, 3 * (1 << w) + 2, (1 << w) - 2])):
            cases.append(("const", "const", t1, None, "C", v, None))
    # ---- fill / crop of a list typed t2 by class t1
    for t1 in qi:
        for t2 in qi:
            cases.append(("fillcrop", "fill", t1, t2, "S", None, None))
            cases.append(("fillcrop", "crop", t1, t2, "S", None, None))
    # ---- Qfixed x Qfixed
    qf = [t.__name__ for t in QFIXED_TYPES]
    fd = {t.__name__: (t.BIT_SIZE_INTEGER, t.BIT_SIZE_FRACTIONAL) for t in QFIXED_TYPES}
    for t1 in qf:
        for t2 in qf:
            for op in QFIXED_OPS:
                cases.append(("qfixed", op, t1, t2, "SS", None, None))
                i2, f2 = fd[t2]
                i1, f1 = fd[t1]
                for raw in ((1 << (i2 + f2)) - 1, 5 % (1 << (i2 + f2)), 0, 1)[:P["qf_sc"]]:
                    cases.append(("qfixed", op, t1, t2, "SC", None, raw))
                for raw in (6 % (1 << (i1 + f1)), (1 << (i1 + f1)) - 1, 0)[:P["qf_cs"]]:
                    cases.append(("qfixed", op, t1, t2, "CS", raw, None))
    # Qfixed * integer constant (any Qint type for the constant)
    for t1 in qf:
        for t2, vs in (("Qint2", (0, 1, 2, 3)), ("Qint4", (0, 5, 6)), ("Qint8", (7,))):
            for v in vs:
                cases.append(("qfixed", "mul", t1, t2, "SC", None, v))
    # the constant on the left, the method looked up on the Qfixed type (translate_expression
    # dispatches `3 * a` to the Qfixed operand's mul), and non-constant multipliers (rejected)
    for t1 in qf:
        for t2, vs in (("Qint2", (0, 3)), ("Qint4", (5,))):
            for v in vs:
                cases.append(("qfixed", "rmul", t2, t1, "CS", v, None))
        cases.append(("qfixed", "rmul", "Qint2", t1, "SS", None, None))
        cases.append(("qfixed", "mul", t1, "Qint2", "SS", None, None))
    # ---- Qchar
    for op in ("eq", "neq"):
        cases.append(("qchar", op, "Qchar", "Qchar", "SS", None, None))
        for v in (0, 97, 255, 65):
            cases.append(("qchar", op, "Qchar", "Qchar", "SC", None, v))
            cases.append(("qchar", op, "Qchar", "Qchar", "CS", v, None))
        for t2 in qi:   # accepted by comparable(): Qchar on the left, Qint on the right
            cases.append(("qchar", op, "Qchar", t2, "SS", None, None))
    # ---- Qbool
    for op in ("eq", "neq"):
        cases.append(("qbool", op, "bool", "bool", "SS", None, None))
    # ---- operands whose list length differs from their type's BIT_SIZE (fill pads to the TYPE's
    # size, zip truncates, mul may index out of range): model <-> implementation only
    for (t1, k1, t2, k2) in (("Qint4", 2, "Qint2", 2), ("Qint2", 4, "Qint4", 3), ("Qint4", 6, "Qint6", 4),
                             ("Qint6", 3, "Qint4", 5), ("Qint2", 3, "Qint2", 1), ("Qint8", 2, "Qint3", 5),
                             ("Qint3", 5, "Qint8", 2), ("Qint4", 4, "Qint2", 5)):
        for op in QINT_OPS:
            cases.append(("nonwf", op, t1, t2, "SS", k1, k2))
    # ---- type combinations the methods accept although no meaning is documented (Qint op Qfixed,
    # Qint op Qchar, Qfixed op Qint, Qfixed * non-constant): model <-> implementation only
    for (t1, t2) in (("Qint4", "Qfixed2_2"), ("Qint2", "Qfixed2_3"), ("Qint8", "Qchar"), ("Qint4", "Qchar"),
                     ("Qfixed2_2", "Qint4"), ("Qfixed1_3", "Qint2"), ("Qfixed2_2", "Qchar")):
        for op in QINT_OPS:
            cases.append(("mixed", op, t1, t2, "SS", None, None))
    for (t1, k1) in (("Qint4", 2), ("Qint4", 6), ("Qint2", 5)):
        for op, k in (("shift_left", 1), ("shift_left", 3), ("shift_right", 1), ("shift_right", 4), ("bitwise_not", None)):
            cases.append(("nonwf1", op, t1, None, "S", k1, k))
    return cases


# --------------------------------------------------------------------------
# worker side
# --------------------------------------------------------------------------
class _Timeout(Exception):
    pass


def _alarm(signum, frame):
    raise _Timeout()


_W = {}


def _winit(tier, seed):
    sys.setrecursionlimit(20000)
    import qlasskit.types as QT
    from qlasskit.types import Qchar
    from qlasskit.types.qfixed import QFIXED_TYPES
    from qlasskit.types.qint import QINT_TYPES
    names = {t.__name__: t for t in list(QINT_TYPES) + list(QFIXED_TYPES)}
    names["Qchar"] = Qchar
    names["bool"] = bool
    _W.update(types=names, P=tier_params(tier), seed=seed, QT=QT)
    signal.signal(signal.SIGVTALRM, _alarm)   # CPU time of the worker, not wall time


def _ty_coq(T):
    from .types_ser import ty_to_coq
    return ty_to_coq(T)


def _is_true(e):
    from sympy.logic.boolalg import BooleanTrue
    return e is True or isinstance(e, BooleanTrue)


def _is_false(e):
    from sympy.logic.boolalg import BooleanFalse
    return e is False or isinstance(e, BooleanFalse)


class Dag:
    """sympy expression DAG -> Coq `defs` (one fresh symbol per distinct inner
    node) + references, and its bit-parallel evaluation on integer tables."""

    def __init__(self, inputs):
        self.idx = {n: i for i, n in enumerate(inputs)}
        self.n = len(inputs)
        self.next = self.n + 1
        self.memo = {}
        self.defs = []

    def ref(self, e):
        from sympy import Symbol
        from sympy.logic.boolalg import And, Not, Or, Xor
        if _is_true(e):
            return "(BConst true)"
        if _is_false(e):
            return "(BConst false)"
        if isinstance(e, Symbol):
            if e.name not in self.idx:
                raise ValueError(f"free symbol {e.name}")
            return f"(BSym {self.idx[e.name]}%nat)"
        r = self.memo.get(e)
        if r is not None:
            return r
        args = [self.ref(a) for a in e.args]
        if isinstance(e, Not):
            node = f"(BNot {args[0]})"
        elif isinstance(e, And):
            node = "(BAnd [%s])" % "; ".join(args)
        elif isinstance(e, Or):
            node = "(BOr [%s])" % "; ".join(args)
        elif isinstance(e, Xor):
            node = "(BXor [%s])" % "; ".join(args)
        else:
            raise ValueError(f"expression node {type(e).__name__}")
        k = self.next
        self.next += 1
        self.defs.append(f"({k}%nat, {node})")
        r = f"(BSym {k}%nat)"
        self.memo[e] = r
        return r


def eval_tables(exprs, env, mask):
    """bit-parallel evaluation: env name -> int table; returns one int per expression"""
    from sympy import Symbol
    from sympy.logic.boolalg import And, Not, Or, Xor
    memo = {}

    def go(e):
        if _is_true(e):
            return mask
        if _is_false(e):
            return 0
        if isinstance(e, Symbol):
            return env[e.name]
        r = memo.get(e)
        if r is not None:
            return r
        vs = [go(a) for a in e.args]
        if isinstance(e, Not):
            r = mask & ~vs[0]
        elif isinstance(e, And):
            r = mask
            for v in vs:
                r &= v
        elif isinstance(e, Or):
            r = 0
            for v in vs:
                r |= v
        elif isinstance(e, Xor):
            r = 0
            for v in vs:
                r ^= v
        else:
            raise ValueError(f"expression node {type(e).__name__}")
        memo[e] = r
        return r

    return [go(e) for e in exprs]


def pack(bits):
    """list of 0/1 (slot 0 first) -> int table"""
    return int("".join("1" if b else "0" for b in reversed(bits)), 2) if bits else 0


def sample_slots(nvars, seed):
    """NSAMP assignments of nvars input bits: structured first, then random."""
    rng = random.Random(seed * 1000003 + nvars)
    full = (1 << nvars) - 1
    s = [0, full]
    s += [1 << i for i in range(nvars)]
    s += [full ^ (1 << i) for i in range(nvars)]
    s += [(1 << i) - 1 for i in range(1, nvars)]
    for p in (2, 3, 4, 5, 6, 7, 8, 10, 12, 16):
        if p < nvars:
            lo = (1 << p) - 1
            s += [lo, full ^ lo, 1 << p, (1 << p) | 1]
            for _ in range(6):           # equal / adjacent operands when the split is at p
                r = rng.randrange(1 << p)
                s += [(r | (r << p)) & full, (r | (((r + 1) & lo) << p)) & full, (((r + 1) & lo) | (r << p)) & full]
    s = s[:NSAMP]
    while len(s) < NSAMP:
        s.append(rng.randrange(1 << nvars))
    return s


def _mk_operand(T, shape_char, prefix, v, fam):
    """returns (texp, symbol names)"""
    from sympy import Symbol
    if T is bool:
        s = Symbol(prefix)
        return (bool, s), [prefix]
    w = T.BIT_SIZE
    if shape_char == "S":
        names = [f"{prefix}.{i}" for i in range(w)]
        return (T, [Symbol(n) for n in names]), names
    if fam == "qfixed" and hasattr(T, "BIT_SIZE_FRACTIONAL") :
        # constant given by its raw bit pattern; built through the real const()
        bits = [((v >> k) & 1) == 1 for k in range(w)]
        val = T.from_bool(bits)
        return T.const(val.value), []
    if T.__name__ == "Qchar":
        return T.const(chr(v)), []
    return T.const(v), []


def _bexp_list(bits, dag):
    return "[" + "; ".join(dag.ref(b) for b in bits) + "]"


def _texp_coq(t, dag):
    """(type, list) -> Coq texp; compact forms for all-symbol / all-constant lists"""
    from sympy import Symbol
    T, bits = t
    bits = list(bits)
    if bits and all(isinstance(b, Symbol) for b in bits):
        idx = [dag.idx.get(b.name) for b in bits]
        if None not in idx and idx == list(range(idx[0], idx[0] + len(idx))):
            return f"(sy {_ty_coq(T)} {idx[0]}%nat {len(idx)}%nat)"
    if bits and all(_is_true(b) or _is_false(b) for b in bits):
        v = sum(1 << k for k, b in enumerate(bits) if _is_true(b))
        return f"(cv {_ty_coq(T)} {len(bits)}%nat {v})"
    return f"({_ty_coq(T)}, {_bexp_list(bits, dag)})"


def _raw_value(bits_tables_or_vals):
    return bits_tables_or_vals


def _qrepr(lst, i):
    return list(reversed(lst[i:])) + list(lst[:i])


def _column_values(tabs, nslots):
    """per-slot integer of a little-endian list of int tables"""
    vals = [0] * nslots
    for j, t in enumerate(tabs):
        if t:
            bs = bin(t)[2:][::-1]
            for s, ch in enumerate(bs):
                if ch == "1":
                    vals[s] |= 1 << j
    return vals


def mul_sizing(nm):
    for s in (2, 4, 6, 8, 12):
        if nm <= s:
            return s
    return 16


def _expected(fam, op, T1, T2, k):
    """the operator's meaning.  Returns (fun(x, y) -> value or None(no requirement),
    expected result type name or None, coq sop string or None, readings (rl, rr, ro), wout, class tag)"""
    if fam == "qbool":
        f = (lambda x, y: int(x == y)) if op == "eq" else (lambda x, y: int(x != y))
        return f, "bool", ("SEq" if op == "eq" else "SNeq"), ("RInt", "RInt", "RInt"), 1, "qbool"
    if fam in ("qint", "qchar") or (fam == "qchar"):
        w1, w2 = T1.BIT_SIZE, T2.BIT_SIZE
        w = max(w1, w2)
        wider = T2 if w1 < w2 else T1
        rd = ("RInt", "RInt", "RInt")
        tag = "qint" if fam == "qint" else ("qchar" if T2.__name__ == "Qchar" else "qchar-qint")
        if op in CMP:
            f = dict(eq=lambda x, y: int(x == y), neq=lambda x, y: int(x != y), gt=lambda x, y: int(x > y),
                     lt=lambda x, y: int(x < y), lte=lambda x, y: int(x <= y), gte=lambda x, y: int(x >= y))[op]
            sop = dict(eq="SEq", neq="SNeq", gt="SGt", lt="SLt", lte="SLte", gte="SGte")[op]
            return f, "bool", sop, rd, 1, tag
        if op == "add":
            return (lambda x, y: (x + y) % (1 << w)), wider.__name__, f"(SAdd {w}%nat)", rd, w, tag
        if op == "sub":
            return (lambda x, y: (x - y) % (1 << w)), wider.__name__, f"(SSub {w}%nat)", rd, w, tag
        if op == "mul":
            s = mul_sizing(2 * w)
            return (lambda x, y: (x * y) % (1 << s)), f"Qint{s}", f"(SMul {s}%nat)", rd, s, tag
        if op == "mod":
            # documented for a power-of-two right operand; otherwise the code's x & (y - 1)
            def f(x, y):
                if y != 0 and (y & (y - 1)) == 0:
                    return x % y
                return x & ((y - 1) % (1 << w2))
            rt = T1 if w2 < w1 else T2
            return f, rt.__name__, f"(SModAnd {w2}%nat)", rd, w, tag
        bop = dict(bitwise_and=(lambda x, y: x & y, "SAnd"), bitwise_or=(lambda x, y: x | y, "SOr"),
                   bitwise_xor=(lambda x, y: x ^ y, "SXor"))[op]
        rt = T1 if w2 < w1 else T2
        return bop[0], rt.__name__, bop[1], rd, w, tag
    if fam == "qfixed" and op == "rmul":
        i2, f2 = T2.BIT_SIZE_INTEGER, T2.BIT_SIZE_FRACTIONAL
        w = i2 + f2
        rf = f"(RFix {i2}%nat 0%nat)"
        return (lambda x, y: (x * y) % (1 << w)), T2.__name__, f"(SMul {w}%nat)", ("RInt", rf, rf), w, "qfixed-same"
    if fam == "qfixed":
        i1, f1 = T1.BIT_SIZE_INTEGER, T1.BIT_SIZE_FRACTIONAL
        if op == "mul":
            w = i1 + f1
            rf = f"(RFix {i1}%nat 0%nat)"
            return (lambda x, y: (x * y) % (1 << w)), T1.__name__, f"(SMul {w}%nat)", (rf, "RInt", rf), w, "qfixed-same"
        i2, f2 = T2.BIT_SIZE_INTEGER, T2.BIT_SIZE_FRACTIONAL
        # operands of different Qfixed types are aligned to the shipped type (max i, max f);
        # the meaning is stated on the values at the common scale 2^max(f1, f2)
        ir, fr = max(i1, i2), max(f1, f2)
        s1, s2 = fr - f1, fr - f2
        w = ir + fr
        from qlasskit.types.qfixed import QFIXED_TYPES
        common = [t for t in QFIXED_TYPES if t.BIT_SIZE_INTEGER == ir and t.BIT_SIZE_FRACTIONAL == fr]
        rt_name = common[-1].__name__ if common else None
        tag = "qfixed-same" if T1 is T2 else "qfixed-mixed"
        rl, rr, ro = f"(RFix {i1}%nat {s1}%nat)", f"(RFix {i2}%nat {s2}%nat)", f"(RFix {ir}%nat 0%nat)"
        if op in CMP:
            cmpf = dict(eq=lambda a, b: a == b, neq=lambda a, b: a != b, gt=lambda a, b: a > b,
                        lt=lambda a, b: a < b, lte=lambda a, b: a <= b, gte=lambda a, b: a >= b)[op]
            sop = dict(eq="SEq", neq="SNeq", gt="SGt", lt="SLt", lte="SLte", gte="SGte")[op]
            # x, y are read at the common scale (the readings carry the shifts)
            return (lambda x, y: int(cmpf(x, y))), "bool", sop, (rl, rr, "RInt"), 1, tag
        if op == "add":
            return (lambda x, y: (x + y) % (1 << w)), rt_name, f"(SAdd {w}%nat)", (rl, rr, ro), w, tag
        return (lambda x, y: (x - y) % (1 << w)), rt_name, f"(SSub {w}%nat)", (rl, rr, ro), w, tag
    raise ValueError(fam)


def do_case(args):
    ci, case = args
    fam, op, t1, t2, shape, v1, v2 = case
    P = _W["P"]
    TY = _W["types"]
    T1 = TY[t1]
    T2 = TY[t2] if t2 else None
    out = dict(id=ci, case=case, status="ok", direct=None, routes=[], t_impl=0.0)
    try:
        # ---------------- operands and the call
        if fam == "nonwf":
            from sympy import Symbol
            ln = [f"a.{i}" for i in range(v1)]
            rn = [f"b.{i}" for i in range(v2)]
            tl, tr = (T1, [Symbol(n) for n in ln]), (T2, [Symbol(n) for n in rn])
            call = lambda: getattr(T1, op)(tl, tr)
            opc = f"(OpBin {_ty_coq(T1)} {COQ_BINOP[op]})"
        elif fam == "nonwf1":
            from sympy import Symbol
            ln, rn = [f"a.{i}" for i in range(v1)], []
            tl, tr = (T1, [Symbol(n) for n in ln]), (T1, [])
            if op == "bitwise_not":
                call = lambda: T1.bitwise_not(tl)
                opc = "(OpUn UNot)"
            elif op == "shift_left":
                call = lambda: T1.shift_left(tl, v2)
                opc = f"(OpUn (UShl {v2}%nat))"
            else:
                call = lambda: T1.shift_right(tl, v2)
                opc = f"(OpUn (UShr {v2}%nat))"
        elif fam in ("qint", "qfixed", "qchar", "qbool", "mixed"):
            tl, ln = _mk_operand(T1, shape[0], "a", v1, "qint" if (fam == "qfixed" and op == "rmul") else fam)
            tr, rn = _mk_operand(T2, shape[1], "b", v2, "qint" if (fam == "qfixed" and op == "mul") else fam)
            if fam == "qbool":
                from qlasskit.types import Qbool
                call = lambda: getattr(Qbool, op)(tl, tr)
                opc = "OpBoolEq" if op == "eq" else "OpBoolNeq"
            elif op == "rmul":     # T2.mul(tl, tr): the Qfixed class with the Qint operand on the left
                call = lambda: T2.mul(tl, tr)
                opc = f"(OpBin {_ty_coq(T2)} OMul)"
            else:
                call = lambda: getattr(T1, op)(tl, tr)
                opc = f"(OpBin {_ty_coq(T1)} {COQ_BINOP[op]})"
        elif fam == "unary":
            tl, ln = _mk_operand(T1, shape[0], "a", v1, fam)
            tr, rn = (T1, []), []
            if op == "bitwise_not":
                call = lambda: T1.bitwise_not(tl)
                opc = "(OpUn UNot)"
            elif op == "shift_left":
                call = lambda: T1.shift_left(tl, v2)
                opc = f"(OpUn (UShl {v2}%nat))"
            else:
                call = lambda: T1.shift_right(tl, v2)
                opc = f"(OpUn (UShr {v2}%nat))"
        elif fam == "const":
            tl, ln, tr, rn = (T1, []), [], (T1, []), []
            call = lambda: T1.const(v1)
            opc = f"(OpConst {T1.BIT_SIZE}%nat {v1})"
        elif fam == "fillcrop":
            tl, ln = _mk_operand(T2, "S", "a", None, fam)
            tr, rn = (T1, []), []
            call = (lambda: T1.fill(tl)) if op == "fill" else (lambda: T1.crop(tl))
            opc = f"({'OpFill' if op == 'fill' else 'OpCrop'} {_ty_coq(T1)})"
        else:
            raise ValueError(fam)
        inputs = ln + rn
        nvars = len(inputs)
        t0 = time.time()
        res, raised = None, None
        signal.setitimer(signal.ITIMER_VIRTUAL, P["impl_timeout"])
        try:
            res = call()
        except _Timeout:
            out["status"] = "impl-timeout"
            return out
        except Exception as e:    # the method raised
            raised = repr(e)[:200]
        finally:
            signal.setitimer(signal.ITIMER_VIRTUAL, 0)
        out["t_impl"] = time.time() - t0

        # ---------------- serialise
        dag = Dag(inputs)
        if fam == "qbool":
            tl_c = f"(TBool, [{dag.ref(tl[1])}])"
            tr_c = f"(TBool, [{dag.ref(tr[1])}])"
        else:
            tl_c = _texp_coq(tl, dag)
            tr_c = _texp_coq(tr, dag)
        if raised is not None:
            obs_c, shape_c, outs, rtype = "None", "None", None, None
        else:
            rtype = res[0]
            outs = [res[1]] if (rtype is bool and not isinstance(res[1], list)) else list(res[1])
            dag.defs = []
            refs = [dag.ref(e) for e in outs]
            obs_c = "(Some (%s, [%s], [%s]))" % (_ty_coq(rtype), "; ".join(dag.defs), "; ".join(refs))
            shape_c = f"(Some ({_ty_coq(rtype)}, {len(outs)}%nat))"
        out.update(nvars=nvars, opc=opc, tl=tl_c, tr=tr_c, obs=obs_c, shape=shape_c, raised=raised,
                   rtype=(rtype.__name__ if rtype is not None else None), nout=(len(outs) if outs else 0))

        # ---------------- assignments
        exhaustive = nvars <= P["limit"]
        if exhaustive:
            nslots = 1 << nvars
            slots = None
        else:
            slots = sample_slots(nvars, _W["seed"])
            nslots = NSAMP
        out["exhaustive"] = exhaustive
        mask = (1 << nslots) - 1
        env = {}
        for i, name in enumerate(inputs):
            if exhaustive:
                blk = ((1 << (1 << i)) - 1) << (1 << i)
                env[name] = blk * (((1 << (1 << nvars)) - 1) // ((1 << (1 << (i + 1))) - 1)) if nvars > i else 0
            else:
                env[name] = pack([(s >> i) & 1 for s in slots])

        # ---------------- routes
        w1 = T1.BIT_SIZE if T1 is not bool else 1
        wmax = max(w1, (T2.BIT_SIZE if (T2 is not None and T2 is not bool) else 0))
        model_ok = True
        if fam == "qint" and op == "mul":
            cv = v1 if shape[0] == "C" else (v2 if shape[1] == "C" else None)
            uses_array = shape == "SS" or (cv is not None and cv % 2 == 1) or shape == "CC" and v1 % 2 == 1
            if uses_array and wmax > P["model_mul_max"]:
                model_ok = False
        # nested ripple adders (shift-and-add terms, repeated addition): the model's TREE doubles
        # with every further addition, more than two of them are not walked
        if fam == "qint" and op == "mul" and shape != "SS":
            cv = v1 if shape[0] == "C" else v2
            if cv % 2 == 0 and bin(cv).count("1") > 3:
                model_ok = False
        if fam == "qfixed" and op in ("mul", "rmul") and shape != "SS" and (v2 if op == "mul" else v1) > 3:
            model_ok = False
        if fam == "nonwf" and op == "mul" and max(v1, v2, T1.BIT_SIZE, T2.BIT_SIZE) > P["model_mul_max"]:
            model_ok = False
        if fam == "mixed" and op == "mul" and wmax > P["model_mul_max"]:
            model_ok = False
        out["routes"].append("model" if model_ok else "shape")

        # ---------------- direct check against the operator's meaning
        if raised is None and fam in ("qint", "qfixed", "qchar", "qbool"):
            f, exp_t, sop, (rl, rr, ro), wout, tag = _expected(fam, op, T1, T2, None)
            out["tag"] = tag
            tabs = eval_tables(outs, env, mask)

            def opvals(t, names, reading):
                if t[0] is bool:
                    return _column_values([eval_tables([t[1]], env, mask)[0]], nslots)
                lst = list(t[1])
                shift = 0
                if reading.startswith("(RFix"):
                    lst = _qrepr(lst, t[0].BIT_SIZE_INTEGER)
                    shift = int(reading.split()[2].replace("%nat)", "").replace("%nat", ""))
                return [v << shift for v in _column_values(eval_tables(lst, env, mask), nslots)]
            xs = opvals(tl, ln, rl)
            ys = opvals(tr, rn, rr)
            otabs = tabs
            if ro.startswith("(RFix"):
                otabs = _qrepr(tabs, rtype.BIT_SIZE_INTEGER) if hasattr(rtype, "BIT_SIZE_INTEGER") else tabs
            got = _column_values(otabs, nslots)
            bad = None
            for s in range(nslots):
                e = f(xs[s], ys[s])
                if e is not None and e != got[s]:
                    bad = dict(slot=s, x=xs[s], y=ys[s], got=got[s], expected=e)
                    break
            tbad = None
            if exp_t is not None and rtype.__name__ != exp_t:
                tbad = dict(returned_type=rtype.__name__, expected_type=exp_t)
            if len(outs) != wout and tbad is None and exp_t is not None:
                tbad = dict(returned_bits=len(outs), expected_bits=wout)
            if bad or tbad:
                out["direct"] = dict(cls=tag + (":" + op if tag != "qint" else ":" + op + ":" + shape),
                                     family=fam, op=op, left=t1, right=t2, shape=shape, consts=[v1, v2],
                                     value=bad, type=tbad)
            if sop is not None and (not model_ok or ci % P["spec_every"] == 0):
                out["routes"].append("spec")
                out["spec"] = f"({sop}, {rl}, {rr}, {ro}, {wout}%nat, {tl_c}, {tr_c}, {obs_c})"
        elif raised is None and fam == "unary":
            tabs = eval_tables(outs, env, mask)
            xs = _column_values(eval_tables(list(tl[1]), env, mask), nslots)
            w = T1.BIT_SIZE
            g = dict(bitwise_not=lambda x: (1 << w) - 1 - x, shift_left=lambda x: (x << (v2 or 0)) % (1 << w),
                     shift_right=lambda x: x >> (v2 or 0))[op]
            got = _column_values(tabs, nslots)
            for s in range(nslots):
                if g(xs[s]) != got[s] or rtype is not T1 or len(outs) != w:
                    out["direct"] = dict(cls="unary:" + op, family=fam, op=op, left=t1, shape=shape, consts=[v1, v2],
                                         value=dict(x=xs[s], got=got[s], expected=g(xs[s])),
                                         type=dict(returned_type=rtype.__name__, bits=len(outs)))
                    break
            sop = dict(bitwise_not=f"(SNot {w}%nat)", shift_left=f"(SShl {v2 or 0}%nat {w}%nat)", shift_right=f"(SShr {v2 or 0}%nat)")[op]
            if ci % P["spec_every"] == 0:
                out["routes"].append("spec")
                out["spec"] = f"({sop}, RInt, RInt, RInt, {w}%nat, {tl_c}, {tr_c}, {obs_c})"
        elif raised is None and fam == "const":
            w = T1.BIT_SIZE
            got = sum(1 << k for k, b in enumerate(outs) if _is_true(b))
            if got != v1 % (1 << w) or len(outs) != w or rtype is not T1:
                out["direct"] = dict(cls="const", family=fam, op=op, left=t1, consts=[v1],
                                     value=dict(got=got, expected=v1 % (1 << w)), type=dict(bits=len(outs)))
        elif raised is None and fam == "fillcrop":
            w, w2 = T1.BIT_SIZE, T2.BIT_SIZE
            ok = (len(outs) == (max(w, w2) if op == "fill" else min(w, w2)))
            exp_t = (T1 if w > w2 else T2) if op == "fill" else (T1 if w2 > w else T2)
            if not ok or rtype is not exp_t:
                out["direct"] = dict(cls="fillcrop", family=fam, op=op, left=t1, right=t2,
                                     type=dict(returned_type=rtype.__name__, bits=len(outs)))
        elif raised is not None and fam == "qfixed" and op in ("mul", "rmul") and shape == "SS":
            pass     # a non-constant multiplier: rejection is the documented behaviour
        elif raised is not None and fam in ("qint", "qfixed", "qchar", "qbool", "unary", "const", "fillcrop"):
            # every case here has well-formed operands of types the method is documented for
            out["direct"] = dict(cls="raised:" + fam + ":" + op, family=fam, op=op, left=t1, right=t2, shape=shape,
                                 consts=[v1, v2], raised=raised)
        if not exhaustive:
            out["cols"] = [env[n] for n in inputs]
        return out
    except _Timeout:
        out["status"] = "impl-timeout"
        return out
    except Exception as e:   # harness failure: fail closed
        import traceback
        out["status"] = "harness-error"
        out["error"] = traceback.format_exc()[-1500:]
        return out


# --------------------------------------------------------------------------
# Coq side
# --------------------------------------------------------------------------
HDR = (C.COQ_HEADER + "From QV Require Import Bits Bexp BexpTT M_Codec M_Types Chk_Types.\n"
       "Local Open Scope N_scope.\n")


def _asgs_coq(r):
    if r["exhaustive"]:
        return f"(AllOf {r['nvars']}%nat)", None
    return None, r["nvars"]


def build_files(results, max_bytes=300_000, max_cases=400):
    """group the cases by (route, assignments), cut the groups into segments and pack
    the segments into files; a file holds several `Definition cases_k` / `Eval` pairs.
    Returns [(name, text, [(route, [ids])] in Eval order)]."""
    groups = {}
    cols = {}
    for r in results:
        if r["status"] != "ok":
            continue
        key_a = ("all", r["nvars"]) if r["exhaustive"] else ("cols", r["nvars"])
        if not r["exhaustive"]:
            cols[r["nvars"]] = r["cols"]
        for route in r["routes"]:
            if route == "shape":
                groups.setdefault(("shape", "x", 0), []).append(
                    (r["id"], f"({r['id']}, ({r['opc']}, {r['tl']}, {r['tr']}, {r['shape']}))"))
            elif route == "model":
                groups.setdefault(("model",) + key_a, []).append(
                    (r["id"], f"({r['id']}, ({r['opc']}, {r['tl']}, {r['tr']}, {r['obs']}))"))
            elif route == "spec":
                groups.setdefault(("spec",) + key_a, []).append((r["id"], f"({r['id']}, {r['spec']})"))
    segments = []      # (weight, route, kind, nv, [ids], body)
    for key in sorted(groups):
        route, kind, nv = key
        items = groups[key]
        # wider truth tables -> fewer cases per segment
        cap = max_cases if nv <= 12 else (80 if nv <= 14 else 24)
        chunk, size = [], 0
        for it in items + [None]:
            if it is None or (chunk and (size + len(it[1]) > max_bytes or len(chunk) >= cap)):
                if chunk:
                    segments.append((size, route, kind, nv, [i for i, _ in chunk], "[" + ";\n ".join(t for _, t in chunk) + "]"))
                chunk, size = [], 0
            if it is not None:
                chunk.append(it)
                size += len(it[1])
    # pack: largest segments first, into the emptiest file that still has room
    segments.sort(key=lambda sg: -sg[0])
    bins = []          # [size, ncases, [segments]]
    for sg in segments:
        best = None
        for bn in bins:
            if bn[0] + sg[0] <= max_bytes and bn[1] + len(sg[4]) <= max_cases and (best is None or bn[0] < best[0]):
                best = bn
        if best is None:
            best = [0, 0, []]
            bins.append(best)
        best[0] += sg[0]
        best[1] += len(sg[4])
        best[2].append(sg)
    files = []
    for fi, (_, _, sgs) in enumerate(bins):
        txt = HDR
        defined_cols = set()
        order = []
        for k, (_, route, kind, nv, ids, body) in enumerate(sgs):
            if kind == "cols" and nv not in defined_cols:
                txt += "Definition cols_%d : list N := [%s].\n" % (nv, "; ".join(str(c) for c in cols[nv]))
                defined_cols.add(nv)
            a = f"(AllOf {nv}%nat)" if kind == "all" else f"(Cols {NSAMP} cols_{nv})"
            if route == "shape":
                txt += (f"Definition cases_{k} : list (N * (opc * texp * texp * option (ty * nat))) :=\n {body}.\n"
                        f"Eval vm_compute in (chk_shape cases_{k}).\n")
            elif route == "model":
                txt += (f"Definition cases_{k} : list (N * (opc * texp * texp * obs)) :=\n {body}.\n"
                        f"Eval vm_compute in (chk_model {a} cases_{k}).\n")
            else:
                txt += (f"Definition cases_{k} : list (N * (sop * reading * reading * reading * nat * texp * texp * obs)) :=\n"
                        f" {body}.\nEval vm_compute in (chk_spec {a} cases_{k}).\n")
            order.append((route, ids))
        files.append((f"t{fi:04d}", txt, order))
    return files


def ensure_vo():
    """compile this layer's theories if their .vo are missing or stale (no make)"""
    th = C.THEORIES
    log = ""
    with C._Lock():
        for f in ("M_Types", "P_Types", "Chk_Types"):
            v, vo = os.path.join(th, f + ".v"), os.path.join(th, f + ".vo")
            deps = [os.path.join(th, d + ".vo") for d in ("M_Types", "M_Codec", "BexpTT")]
            stale = (not os.path.exists(vo)) or os.path.getmtime(vo) < os.path.getmtime(v) or any(
                os.path.exists(d) and os.path.getmtime(d) > os.path.getmtime(vo) for d in deps if d != vo)
            if stale:
                r = subprocess.run(["timeout", "900", "coqc", "-Q", "theories", "QV", f"theories/{f}.v"],
                                   cwd=C.COQ, capture_output=True, text=True)
                if r.returncode != 0:
                    return False, (r.stdout + r.stderr)[-3000:]
                log += f"compiled {f}.v\n"
    return True, log


# --------------------------------------------------------------------------
# collect
# --------------------------------------------------------------------------
def collect(tier, seed, jobs=16, only=None):
    """Runs the whole operator-level correspondence.  `only`: optional predicate on case tuples."""
    t_start = time.time()
    cases = enumerate_cases(tier, seed)
    if only is not None:
        cases = [c for c in cases if only(c)]
    # heavy cases first for a balanced pool
    def weight(c):
        fam, op, t1, t2, shape, v1, v2 = c
        return -(100 if op == "mul" else 1)
    indexed = sorted(enumerate(cases), key=lambda ic: weight(ic[1]))
    ctx = mp.get_context("fork")
    with ctx.Pool(jobs, initializer=_winit, initargs=(tier, seed)) as pool:
        results = pool.map(do_case, indexed, chunksize=8)
    results.sort(key=lambda r: r["id"])
    t_impl = time.time() - t_start

    mismatches, impl_failures, spec_confirmed = [], [], []
    dist = {}
    routes = dict(model=0, spec=0, shape=0, exhaustive=0, sampled=0)
    timeouts, herr = [], []
    by_id = {r["id"]: r for r in results}
    for r in results:
        fam, op, t1, t2, shape, v1, v2 = r["case"]
        if r["status"] == "impl-timeout":
            timeouts.append(dict(case=list(r["case"])))
            continue
        if r["status"] != "ok":
            herr.append(dict(case=list(r["case"]), error=r.get("error")))
            continue
        k = f"{fam}:{op}:{shape}"
        dist[k] = dist.get(k, 0) + 1
        for rt in r["routes"]:
            routes[rt] += 1
        routes["exhaustive" if r["exhaustive"] else "sampled"] += 1
        if r["direct"]:
            impl_failures.append(r["direct"])
    ok_vo, log = ensure_vo()
    files = build_files(results)
    t1_ = time.time()
    coq_err = []
    if ok_vo:
        run_dir = f"{RUN_DIR}.{os.getpid()}"      # concurrent runs (seed tests, other tiers) must not share it
        res = C.run_cases(run_dir, [(n, t) for n, t, _ in files])
        for name, _, order in files:
            rc, so, se = res[name]
            if rc != 0:
                coq_err.append(dict(file=name, error=(so + se)[-1200:] or f"coqc exit code {rc} (timeout?)"))
                continue
            vals = C.parse_results(so)
            if len(vals) != len(order):
                coq_err.append(dict(file=name, error=f"{len(order)} evaluations expected, {len(vals)} printed"))
                continue
            for (route, ids), v in zip(order, vals):
                try:
                    fails = C.parse_N_list(v)
                except Exception:
                    coq_err.append(dict(file=name, error="unparsable: " + v[:300]))
                    continue
                if not set(fails) <= set(ids):
                    coq_err.append(dict(file=name, error=f"unknown case ids {sorted(set(fails) - set(ids))[:5]}"))
                    continue
                for i in fails:
                    r = by_id[i]
                    rec = dict(route=route, case=list(r["case"]), impl_type=r.get("rtype"),
                               impl_bits=r.get("nout"), impl_raised=r.get("raised"), file=name)
                    if route == "spec" and r["direct"] and r["direct"].get("value"):
                        # the implementation differs from the PROVED meaning, and the direct check
                        # found the same case: an implementation failure confirmed in Coq, not a model mismatch
                        spec_confirmed.append(rec)
                    else:
                        mismatches.append(rec)
        if not coq_err and not mismatches and not os.environ.get("QV_KEEP_CASES"):
            shutil.rmtree(os.path.join(C.BUILD, run_dir), ignore_errors=True)
    else:
        coq_err.append(dict(file="(theories)", error=log))
    t_coq = time.time() - t1_
    # one witness per failure class first, then the rest
    seen_cls, first, rest = set(), [], []
    for f in impl_failures:
        (rest if f["cls"] in seen_cls else first).append(f)
        seen_cls.add(f["cls"])
    impl_failures = first + rest
    pairs = {}
    for r in results:
        if r["status"] == "ok":
            fam, op, t1, t2, shape, v1, v2 = r["case"]
            pairs[f"{t1}x{t2}"] = pairs.get(f"{t1}x{t2}", 0) + 1
    done = [r for r in results if r["status"] == "ok"]
    return dict(
        cases=len(done), distinct=len({r["case"] for r in done}),
        mismatches=mismatches, impl_failures=impl_failures, impl_failures_confirmed_in_coq=len(spec_confirmed),
        impl_failure_classes={k: v["count"] for k, v in summarize_failures(impl_failures).items()},
        distribution=dict(by_family_op_shape=dist, by_type_pair=pairs, routes=routes,
                          impl_timeouts=len(timeouts), coq_files=len(files)),
        impl_timeouts=timeouts, harness_errors=herr, coq_errors=coq_err,
        timings=dict(implementation_s=round(t_impl, 1), coq_s=round(t_coq, 1), total_s=round(time.time() - t_start, 1)),
        slowest=sorted(((round(r["t_impl"], 2), list(r["case"])) for r in done), reverse=True)[:5],
    )


def summarize_failures(fails):
    """group the direct-check failures by class with one witness each"""
    g = {}
    for f in fails:
        e = g.setdefault(f["cls"], dict(count=0, witness=f))
        e["count"] += 1
    return g


def run(tier, seed, build=False, only=None):
    chk = C.Check(PID, tier, seed, level="proof")
    if build:
        ok, log = C.coq_build()
        if not ok:
            chk.broken("coq build failed", log[-3000:])
    obl = C.prop_obligations(PID, files=["Prop_C01_types.v"])
    if not obl["ok"]:
        chk.broken("theorems of Prop_C01_types.v do not check", obl.get("log", "")[-3000:])
    res = collect(tier, seed, only=only)
    known = C.known_findings(PID)
    groups = summarize_failures(res["impl_failures"])
    for cls, g in sorted(groups.items()):
        hit = next((k for k in known if k.get("types_cls") == cls
                    or (isinstance(k.get("match"), dict) and k["match"].get("cls") == cls)), None)
        if hit:
            chk.known(hit, f"{cls} x{g['count']}")
        else:
            chk.violation(f"types layer: {cls} ({g['count']} cases)", dict(witness=g["witness"]))
    if res["mismatches"] or res["coq_errors"] or res["harness_errors"]:
        chk.broken("types-layer correspondence model<->implementation differs",
                   dict(mismatches=res["mismatches"][:10], coq_errors=res["coq_errors"][:3],
                        harness_errors=res["harness_errors"][:3]))
    chk.coverage.update(
        evaluations=res["cases"], distinct_nontrivial=res["distinct"],
        rule="every ordered pair of shipped Qint types x 13 methods x operand shapes (symbolic/constant), unary methods, "
             "const, fill/crop, every ordered pair of shipped Qfixed types x 8 methods, Qfixed x constant, Qchar, Qbool; "
             "each compared with the Coq model on all assignments (<= limit input bits) or 512 sampled ones",
        distribution=res["distribution"], model_mismatches=len(res["mismatches"]),
        impl_failures=len(res["impl_failures"]), impl_failure_classes={k: v["count"] for k, v in groups.items()},
        timings=res["timings"], traces_validated_against_impl=res["cases"])
    chk.samples = [dict(case=c) for _, c in res["slowest"][:3]]
    return chk.finish(obl)


if __name__ == "__main__":
    import json
    tier = sys.argv[1] if len(sys.argv) > 1 else "quick"
    r = collect(tier, C.seed_from_env(0))
    g = summarize_failures(r["impl_failures"])
    print(json.dumps(dict(cases=r["cases"], distinct=r["distinct"], mismatches=r["mismatches"][:20],
                          n_mismatches=len(r["mismatches"]),
                          failure_classes={k: (v["count"], v["witness"]) for k, v in g.items()},
                          distribution=r["distribution"], timeouts=r["impl_timeouts"][:10],
                          harness_errors=r["harness_errors"][:5], coq_errors=r["coq_errors"][:5],
                          timings=r["timings"], slowest=r["slowest"]), indent=1, default=str))
