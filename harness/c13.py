"""C13 — exports denote the same operation on the same qubits (QASM 2/3 text,
Qiskit, Cirq, Sympy; circuit and gate modes).

Each case is one circuit as plain data (gates with object ids, edits of the
name->index map, or the source of a compiled function).  The implementation
exports it to every target; the QASM texts are compared character by character
with the printer of M_Export.v and parsed by its (proved) parser inside coqc;
the foreign objects are read back into operation lists and compared with the
modelled dispatch; the property is also tested directly in Python (parsed
header / operands, op-for-op comparison with the gate list, unitaries up to 6
qubits).  Qutip and Pennylane are out of scope (library absent / tests of the
suite already failing)."""
import json
import math
import random
import re

import numpy as np

from qlasskit.qcircuit import QCircuit
from qlasskit.qcircuit import gates as G
from qlasskit.qcircuit.exporter_qasm import QasmExporter

from . import c14
from . import common as C
from .ser import SerError, gate_ir

PID = "C13"
TOL = 1e-9
BASES = ["I", "X", "Y", "Z", "H", "S", "T", "P", "Swap"]


# ------------------------------------------------------------------ building circuits
def build(case):
    """case: dict(kind='spec', c=spec, name=..., edits=[('set', name, idx) | ('del', name)])
             | dict(kind='src', src=...)"""
    if case["kind"] == "src":
        from qlasskit import qlassf
        qf = qlassf(case["src"], to_compile=True)
        return qf.circuit()
    qc = c14.build(case["c"])
    qc.name = case.get("name", "qc")
    for e in case.get("edits", []):
        if e[0] == "set":
            qc[e[1]] = e[2]
        elif e[1] in qc.qubit_map:
            del qc[e[1]]
    return qc


def expected_ops(cir, bars):
    out = []
    for k, qs, p in cir:
        if k == "Barrier":
            if bars:
                out.append(("bar",))
            continue
        if k == "Nop":
            continue
        nc, b = c14.kind_decode(k)
        out.append((nc, b, list(qs), (float(p) if (b == "P" and p is not None) else None)))
    return out


def qasm_gate_name(k):
    nc, b = c14.kind_decode(k)
    return "c" * nc + {"Swap": "swap"}.get(b, b.lower())


# ------------------------------------------------------------------ reading exports back
_QK = {"x": "X", "y": "Y", "z": "Z", "h": "H", "s": "S", "t": "T", "p": "P", "swap": "Swap", "id": "I"}


def read_qiskit(obj, mode, n):
    from qiskit.circuit import ControlledGate
    circ = obj if mode == "circuit" else obj.definition
    if mode == "gate" and obj.num_qubits != n:
        raise SerError(f"qiskit gate has {obj.num_qubits} qubits, circuit {n}")
    if mode == "circuit" and (circ.num_qubits != n or circ.num_clbits != 0):
        raise SerError("qiskit circuit register sizes")
    ops = []
    for inst in circ.data:
        op = inst.operation
        qs = [circ.find_bit(q).index for q in inst.qubits]
        if op.name == "barrier":
            if qs != list(range(n)):
                raise SerError("barrier not on all qubits")
            ops.append(("bar",))
            continue
        if isinstance(op, ControlledGate):
            nc = op.num_ctrl_qubits
            if op.ctrl_state != (1 << nc) - 1:
                raise SerError("control state")
            bname = op.base_gate.name
        else:
            nc, bname = 0, op.name
        if bname not in _QK:
            raise SerError(f"qiskit op {op.name}/{bname}")
        b = _QK[bname]
        par = None
        if op.params:
            if len(op.params) != 1 or b != "P":
                raise SerError(f"params on {op.name}")
            par = float(op.params[0])
        ops.append((nc, b, qs, par))
    return ops


def read_cirq(gate_cls, n, real):
    """Decompose the exported gate on LineQubit(0..n-1).  real: the circuit's non-nop gates, used only
    to tell a CZ that was exported from CP(pi) from one exported from CZ, and to report the exponent
    p/pi of a CZPowGate as p itself."""
    import cirq
    qr = cirq.LineQubit.range(n)
    ops = []
    for j, o in enumerate(cirq.decompose_once(gate_cls().on(*qr))):
        g = o.gate
        qs = [q.x for q in o.qubits]
        par = None
        src = real[j] if j < len(real) else None
        if isinstance(g, cirq.ControlledGate):
            nc = g.num_controls()
            if any(tuple(v) != (1,) for v in g.control_values):
                raise SerError("cirq control values")
            sub = g.sub_gate
            b = "X" if sub == cirq.X else "Z" if sub == cirq.Z else None
        elif g == cirq.CNOT:
            nc, b = 1, "X"
        elif g == cirq.CCNOT:
            nc, b = 2, "X"
        elif isinstance(g, cirq.CZPowGate):
            if g.global_shift != 0:
                raise SerError("global shift")
            if src is not None and src[0] == "CP" and src[2] is not None and g.exponent == src[2] / math.pi:
                nc, b, par = 1, "P", float(src[2])
            elif g == cirq.CZ:
                nc, b = 1, "Z"
            else:
                nc, b, par = 1, "P", float(g.exponent) * math.pi
        elif g == cirq.SWAP:
            nc, b = 0, "Swap"
        else:
            nc = 0
            b = next((nm for nm in ("X", "Y", "Z", "H", "S", "T", "I") if g == getattr(cirq, nm)), None)
        if b is None:
            raise SerError(f"cirq op {g!r}")
        ops.append((nc, b, qs, par))
    return ops


def read_sympy(expr, mode, n):
    from sympy import Integer, Mul, Pow
    from sympy.physics.quantum.gate import CGate, CNotGate, HadamardGate, SwapGate, XGate
    from sympy.physics.quantum.qubit import Qubit
    if expr is None:
        if mode == "circuit":
            raise SerError("sympy circuit export is None")
        return []
    fs = list(expr.args) if isinstance(expr, Mul) else [expr]
    fs = [f for f in fs if f != 1]  # X*X collapses to the number 1
    if mode == "circuit":
        if not fs or not isinstance(fs[-1], Qubit) or fs[-1] != Qubit("0" * n):
            raise SerError(f"sympy circuit does not end with |{'0' * n}>: {expr}")
        fs = fs[:-1]
    ops = []
    for f in reversed(fs):  # the right-most factor is applied first
        k = 1
        if isinstance(f, Pow):
            if not isinstance(f.exp, Integer) or f.exp < 1:
                raise SerError(f"power {f}")
            f, k = f.base, int(f.exp)
        if isinstance(f, CNotGate):
            o = (1, "X", [int(f.controls[0]), int(f.targets[0])], None)
        elif isinstance(f, CGate):
            if not isinstance(f.gate, XGate):
                raise SerError(f"CGate of {f.gate}")
            o = (len(f.controls), "X", [int(c) for c in f.controls] + [int(f.gate.targets[0])], None)
        elif isinstance(f, XGate):
            o = (0, "X", [int(f.targets[0])], None)
        elif isinstance(f, HadamardGate):
            o = (0, "H", [int(f.targets[0])], None)
        elif isinstance(f, SwapGate):
            o = (0, "Swap", [int(t) for t in f.targets], None)
        else:
            raise SerError(f"sympy factor {f!r}")
        ops += [o] * k
    return ops


def dag_equal(n, a, b):
    """Same operations with the same order on every qubit (equal up to swapping neighbours on disjoint qubits)."""
    if len(a) != len(b) or any(o == ("bar",) or any(q >= n for q in o[2]) for o in a + b):
        return a == b
    return all([o for o in a if q in o[2]] == [o for o in b if q in o[2]] for q in range(n))


def cancel_adjacent(ops):
    st = []
    for o in ops:
        if st and st[-1] == o:
            st.pop()
        else:
            st.append(o)
    return st


def ops_cir(ops):
    out = []
    for o in ops:
        if o == ("bar",):
            continue
        nc, b, qs, p = o
        if nc == 0:
            k = b
        elif (nc, b) in ((1, "X"), (1, "Z"), (1, "P"), (2, "X")):
            k = {(1, "X"): "CX", (1, "Z"): "CZ", (1, "P"): "CP", (2, "X"): "CCX"}[(nc, b)]
        else:
            k = f"MCtrl:{b}:{nc}"
        out.append((k, qs, p))
    return out


def bitrev(U, n):
    idx = [int(format(i, f"0{n}b")[::-1], 2) if n else 0 for i in range(1 << n)]
    return U[np.ix_(idx, idx)]


# ------------------------------------------------------------------ one case
def py_parse_qasm(text):
    """Plain Python reading of the dialect (for the report of failing inputs)."""
    lines = text.split("\n")
    gi = next((i for i, l in enumerate(lines) if l.startswith("gate ")), None)
    if gi is None:
        return None
    toks = lines[gi].split(" ")
    if toks[-1] != "{" or len(toks) < 3:
        return None
    name, formals = toks[1], toks[2:-1]
    if formals == [""]:
        formals = []
    body = []
    j = gi + 1
    while j < len(lines) and lines[j] != "}":
        l = lines[j]
        if not l.startswith("\t"):
            return None
        t = l[1:].split(" ")
        m = re.fullmatch(r"([^()]*)(?:\(([^()]*)\))?", t[0])
        if not m:
            return None
        body.append((m.group(1), m.group(2), t[1:]))
        j += 1
    if j >= len(lines):
        return None
    rest = lines[j + 1:]
    call = None
    if len(rest) >= 3 and rest[1] != "":
        c = rest[1].split(" ")
        if len(c) == 2 and c[1].endswith(";"):
            a = c[1][:-1]
            call = (c[0], a.split(",") if a else [])
    return dict(name=name, formals=formals, body=body, call=call)


def run_case(case):
    qc = build(case)
    n = qc.num_qubits
    cir = [gate_ir(a) for a in qc.gates]
    qm = [(k, int(v)) for k, v in qc.qubit_map.items()]
    wf = c14.well_formed(n, cir)
    out = dict(n=n, name=qc.name, cir=cir, qm=qm, failures=[], loss=[])
    fails = out["failures"]
    real = [g for g in cir if g[0] not in ("Barrier", "Nop")]
    small = wf and n <= 6
    Uref = c14.unitary(n, cir) if small else None
    named = all(any(v == q for _, v in qm) for g in real for q in g[1])

    # ---------------- QASM ----------------
    out["qasm"] = []
    for ver in (3, 2):
        for mode in ("gate", "circuit"):
            try:
                txt = QasmExporter(version=ver).export(qc, mode)
            except Exception as e:  # noqa
                out["qasm"].append(None)
                if wf:
                    fails.append(("qasm-unnamed-qubit" if (not named and "not found" in str(e)) else None,
                                  f"QASM {ver} {mode} export raised {type(e).__name__}: {e}"))
                continue
            out["qasm"].append(txt)
            if ver == 3 and mode == "circuit" and qc.export("circuit", "qasm") != txt:
                fails.append((None, "QCircuit.export(framework='qasm') differs from QasmExporter(3)"))
            p = py_parse_qasm(txt)
            if p is None:
                fails.append((None, f"QASM {ver} {mode}: text does not parse"))
                continue
            bad_hdr = len(p["formals"]) != n
            ok_body = len(p["body"]) == len(real)
            if ok_body:
                for (gn, ph, ops), (k, qs, prm) in zip(p["body"], real):
                    want_ph = format(prm, ".2f") if prm else None
                    try:
                        pos = [p["formals"].index(x) for x in ops]
                    except ValueError:
                        pos = None
                    if gn != qasm_gate_name(k) or ph != want_ph:
                        fails.append((None, f"QASM {ver} {mode}: line {gn}({ph}) for gate {k} {prm}"))
                    if pos != list(qs):
                        # right names, wrong positions in the header: the header defect; else wrong operands
                        if [qc.qubit_map.get(x) for x in ops] == list(qs):
                            bad_hdr = True
                        else:
                            fails.append((None, f"QASM {ver} {mode}: operands {ops} (formals {pos}) for gate {k} on {qs}"))
            else:
                fails.append((None, f"QASM {ver} {mode}: {len(p['body'])} gate lines for {len(real)} gates"))
            if mode == "circuit" and p["call"] != (qc.name, [f"q[{i}]" for i in range(n)]):
                fails.append((None, f"QASM {ver} circuit: call {p['call']}"))
            if bad_hdr:
                fails.append(("qasm-header", f"QASM {ver} {mode}: {len(p['formals'])} formals {p['formals']} for {n} qubits; "
                              "operands do not denote the gates' qubit indices by position"))
    for k, qs, prm in real:
        if prm:
            out["loss"].append((abs(float(format(prm, ".2f")) - prm), prm, format(prm, ".2f")))

    # ---------------- Qiskit ----------------
    out["qiskit"] = []
    for mode in ("gate", "circuit"):
        try:
            obj = qc.export(mode, "qiskit")
        except Exception as e:  # noqa
            out["qiskit"].append(("err", f"{type(e).__name__}: {e}"[:120]))
            continue
        ops = read_qiskit(obj, mode, n)
        out["qiskit"].append(("ok", ops))
        want = expected_ops(cir, mode == "circuit")
        # to_gate() goes through a DAG: operations on disjoint qubits may come back in another order
        if wf and (ops != want if mode == "circuit" else not dag_equal(n, ops, want)):
            fails.append((None, f"qiskit {mode}: operations {ops} for gates {cir}"))
        if mode == "gate" and obj.name not in (qc.name, qc.name + "_"):
            fails.append((None, f"qiskit gate name {obj.name}"))
        if small and n >= 1:
            from qiskit.quantum_info import Operator
            if not c14.close(np.asarray(Operator(obj).data), Uref):
                fails.append((None, f"qiskit {mode}: unitary differs from the circuit's"))

    # ---------------- Cirq ----------------
    import cirq
    if n == 0:
        out["cirq"] = ("skip", None)
    else:
        try:
            gcls = qc.export("gate", "cirq")
            ops = read_cirq(gcls, n, real)
            circ = qc.export("circuit", "cirq")
            cops = list(circ.all_operations())
            if (len(cops) != 1 or [q for q in cops[0].qubits] != cirq.LineQubit.range(n)
                    or type(cops[0].gate).__name__ != qc.name):
                fails.append((None, "cirq circuit is not the exported gate on LineQubit(0..n-1)"))
            elif read_cirq(type(cops[0].gate), n, real) != ops:
                fails.append((None, "cirq circuit and gate modes decompose differently"))
            out["cirq"] = ("ok", ops)
            if wf and canon_cirq(ops) != canon_cirq(expected_ops(cir, False)):
                fails.append((None, f"cirq: operations {ops} for gates {cir}"))
            if small:
                U = bitrev(np.asarray(cirq.unitary(circ)), n)
                if not c14.close(U, Uref):
                    fails.append((None, "cirq circuit: unitary differs from the circuit's"))
        except SerError:
            raise
        except Exception as e:  # noqa
            out["cirq"] = ("err", f"{type(e).__name__}: {e}"[:120])
            if "Barrier" in str(e) or "NopGate" in str(e):
                fails.append(("cirq-barrier", f"cirq export of a circuit with a barrier raised {e}"))

    # ---------------- Sympy ----------------
    out["sympy"] = []
    for mode in ("gate", "circuit"):
        if n == 0:
            out["sympy"].append(("skip", None))
            continue
        try:
            obj = qc.export(mode, "sympy")
        except Exception as e:  # noqa
            out["sympy"].append(("err", f"{type(e).__name__}: {e}"[:120]))
            continue
        ops = read_sympy(obj, mode, n)
        out["sympy"].append(("ok", ops))
        if wf and cancel_adjacent(ops) != cancel_adjacent(expected_ops(cir, False)):
            fails.append((None, f"sympy {mode}: operations {ops} for gates {cir}"))
        if wf and n <= 4 and len(real) <= 8:
            from sympy.physics.quantum.represent import represent
            U = c14.unitary(n, ops_cir(ops))
            if obj is not None and ops:
                from sympy import Mul
                fs = [f for f in (obj.args if isinstance(obj, Mul) else [obj]) if f != 1]
                gexpr = Mul(*fs[:-1]) if mode == "circuit" else obj
                U = np.array(represent(gexpr, nqubits=n).tolist(), dtype=complex)
            if not c14.close(U, Uref):
                fails.append((None, f"sympy {mode}: unitary differs from the circuit's"))
    return out


def canon_cirq(ops):
    """CZPowGate(exponent=1) is cirq.CZ: CP(pi) and CZ are one cirq gate."""
    out = []
    for o in ops:
        if o != ("bar",) and o[0] == 1 and o[1] == "P" and o[3] is not None and o[3] / math.pi == 1.0:
            o = (1, "Z", o[2], None)
        out.append(o)
    return out


# ------------------------------------------------------------------ Coq terms
def cstr(s):
    b = s.encode("utf-8")
    return "(str [" + "; ".join(str(x) for x in b) + "]%N)"


def xpar_coq(p):
    if p is None or isinstance(p, str):
        return "XNone"
    num, den = float(p).as_integer_ratio()
    return f"(XNum ({num})%Z {den}%N {cstr(format(p, '.2f'))})"


def xgate_coq(g):
    k, qs, p = g
    return f"(mkx {c14.kind_coq(k)} {C.clist([C.cnat(q) for q in qs])} {xpar_coq(p)})"


def xop_coq(o):
    if o == ("bar",):
        return "XBar"
    nc, b, qs, p = o
    if p is None:
        par = "None"
    else:
        num, den = float(p).as_integer_ratio()
        par = f"(Some (({num})%Z, {den}%N))"
    return f"(XOp {nc}%nat B{b} {C.clist([C.cnat(q) for q in qs])} {par})"


def xres_coq(r):
    if r[0] == "ok":
        return "(XOk " + C.clist([xop_coq(o) for o in r[1]]) + ")"
    return "XErr"


def case_coq(i, r, model_sympy_skip):
    qm = C.clist([f"({cstr(k)}, {C.cnat(v)})" for k, v in r["qm"]])
    gl = C.clist([xgate_coq(g) for g in r["cir"]])
    qasm = C.clist([("None" if t is None else f"(Some {cstr(t)})") for t in r["qasm"]])
    qk = C.clist([xres_coq(x) for x in r["qiskit"]])
    return (f"({i}%N, mkcase {cstr(r['name'])} {C.cnat(r['n'])} {qm} {gl} {qasm} {qk} "
            f"{xres_coq(r['cirq'])} {C.clist([xres_coq(x) for x in r['sympy']])})")


# ------------------------------------------------------------------ generators
NAMES = ["a", "b", "c", "x0", "_ret", "_ret.0", "_ret.1", "anc_1", "a.0", "q7", "_q2", "q1", "TRUE"]
PALETTES = {
    "all": None,
    "sympy": ["X", "H", "CX", "Swap", "CCX", "MCX", "Barrier", "X", "CX"],
    "cirq": ["I", "X", "Y", "Z", "H", "S", "T", "Swap", "CX", "CZ", "CP", "CCX", "MCX", "MCtrl:X", "MCtrl:Z"],
    "qiskit": ["X", "Y", "Z", "H", "S", "T", "P", "Swap", "CX", "CZ", "CP", "CCX", "MCX", "MCtrl:X", "MCtrl:Z", "Barrier"],
}
SOURCES = [
    "def test(a: bool, b: bool) -> Tuple[bool, bool]:\n\tc = a and b\n\treturn (c, c)",
    "def test(a: bool) -> bool:\n\tc = True\n\treturn c",
    "def test(a: bool, b: bool) -> bool:\n\treturn a and b",
    "def test(a: bool, b: bool, c: bool) -> bool:\n\treturn (a and b) ^ (not c)",
    "def test(a: Qint[2], b: Qint[2]) -> Qint[2]:\n\treturn a + b",
    "def test(a: Qint[2]) -> Tuple[Qint[2], bool]:\n\tb = a == 1\n\treturn (a, b)",
    "def test(a: Qfixed[1,4], b: Qfixed[1,4]) -> Qfixed[1,4]:\n\treturn a + b",
    "def test(a: bool, b: bool) -> Tuple[bool, bool, bool]:\n\tc = a ^ b\n\treturn (c, a, c)",
]


def rand_gate(rng, n, pal):
    if pal is None:
        k = c14.rand_kind(rng, n)
    else:
        k = rng.choice(pal)
        if k == "MCX":
            k = f"MCX:{rng.randint(0, min(n - 1, 6))}"
        elif k.startswith("MCtrl:"):
            k = f"{k}:{rng.randint(0, min(n - 1, 5))}"
    if c14.kind_arity(k) > n:
        k = "X"
    p = None
    if c14.kind_decode(k)[1] == "P":
        p = rng.choice(c14.PHASES + [math.pi, 0.0, 0.004, -0.005, 2 * math.pi / 16])
    return k, rng.sample(range(n), c14.kind_arity(k)), p


def gen_cases(tier, rng):
    mult = 1 if tier == "quick" else 12
    cases = []
    obj = [0]

    def spec(n, gates):
        gl = []
        for k, qs, p in gates:
            gl.append((obj[0], k, qs, p))
            obj[0] += 1
        return dict(n=n, cls="Q", gates=gl)

    # every exportable gate on its own: MCX with 0..6 controls, MCtrl Z/X, CP with assorted phases, barriers
    single = [(b, None) for b in ["I", "X", "Y", "Z", "H", "S", "T", "Swap", "CX", "CZ", "CCX", "Barrier", "Nop"]]
    single += [(f"MCX:{k}", None) for k in range(7)] + [(f"MCtrl:Z:{k}", None) for k in range(6)]
    single += [(f"MCtrl:X:{k}", None) for k in range(4)] + [("MCtrl:H:1", None), ("MCtrl:Swap:1", None), ("MCtrl:P:1", 0.5)]
    single += [("CP", p) for p in c14.PHASES + [math.pi, 0.0]] + [("P", p) for p in (math.pi / 4, 0.0, None)]
    for k, p in single:
        ar = c14.kind_arity(k)
        n = max(ar, 1) + rng.randint(0, 1)
        qs = rng.sample(range(n), ar)
        cases.append(dict(kind="spec", c=spec(n, [("X", [0], None), (k, qs, p)] if k in ("Barrier", "Nop") else [(k, qs, p)]), name="qc", edits=[]))
    # random circuits per palette with edited qubit maps
    for i in range(150 * mult):
        pal = rng.choice(["all", "sympy", "cirq", "qiskit", "sympy", "qiskit"])
        n = rng.randint(1, 6) if rng.random() < 0.9 else rng.randint(7, 8)
        gates = [rand_gate(rng, n, PALETTES[pal]) for _ in range(rng.randint(0, 9))]
        edits = []
        r = rng.random()
        if r < 0.55:
            for _ in range(rng.randint(1, 4)):
                t = rng.random()
                if t < 0.45:      # alias: a second name for a qubit
                    edits.append(("set", rng.choice(NAMES), rng.randrange(n)))
                elif t < 0.65:    # unnamed qubit
                    edits.append(("del", f"q{rng.randrange(n)}"))
                elif t < 0.85:    # rename: moves the qubit to the end of the dict
                    q = rng.randrange(n)
                    edits += [("del", f"q{q}"), ("set", rng.choice(NAMES), q)]
                else:             # re-insert the same name: order of the map != index order
                    q = rng.randrange(n)
                    edits += [("del", f"q{q}"), ("set", f"q{q}", q)]
        cases.append(dict(kind="spec", c=spec(n, gates), name=rng.choice(["qc", "qc", "test", "f1", "h", "my_gate"]), edits=edits))
    # an empty register
    cases.append(dict(kind="spec", c=spec(0, []), name="qc", edits=[]))
    # compiled functions (aliased names, unnamed scratch qubits)
    for s in SOURCES:
        cases.append(dict(kind="src", src=s))
    return cases


def attrs_tables():
    import cirq
    from qiskit import QuantumCircuit
    cls = ["I", "X", "Y", "Z", "H", "S", "T", "P", "Swap", "CX", "CZ", "CP", "CCX", "MCX", "MCtrl", "Barrier", "NopGate",
           "CNOT", "CCNOT"]
    qk = [c.lower() for c in cls if hasattr(QuantumCircuit(1), c.lower())]
    cq = [c for c in cls if hasattr(cirq, c)]
    return qk, cq


SLOTS = {0: "qasm3 gate", 1: "qasm3 circuit", 2: "qasm2 gate", 3: "qasm2 circuit",
         4: "qasm3 gate (parsed)", 5: "qasm3 circuit (parsed)", 6: "qasm2 gate (parsed)", 7: "qasm2 circuit (parsed)",
         8: "qiskit gate", 9: "qiskit circuit", 10: "cirq", 11: "sympy gate", 12: "sympy circuit"}


def _export_view(qc, fw, mode):
    """Comparable view of an export (text for QASM, op list for qiskit)."""
    e = qc.export(mode, fw)
    if fw == "qasm":
        return e
    if fw == "qiskit":
        if mode == "gate":
            e = e.definition
        return [(i.operation.name, tuple(e.find_bit(q).index for q in i.qubits)) for i in e.data]
    return str(e)


def export_after_composition(rng, n):
    """Export an operand, build a composed circuit from it (+, +=, repeat, append_circuit),
    export the result, and compare with the export of an equal circuit built from scratch."""
    from qlasskit.qcircuit import QCircuit
    cases, fails = 0, []

    def rand_circ(nq, ng):
        qc = QCircuit(nq)
        for _ in range(ng):
            k = rng.choice(["x", "cx", "ccx", "h", "z"])
            qs = rng.sample(range(nq), {"x": 1, "h": 1, "z": 1, "cx": 2, "ccx": 3}[k])
            getattr(qc, k)(*qs)
        return qc

    def rebuild(qc):
        f = QCircuit(qc.num_qubits)
        for g, w, p in qc.gates:
            f.append(type(g)() if not hasattr(g, "n_controls") or type(g).__name__ in ("CX", "CCX", "CZ", "CP") else g, list(w), p)
        return f

    for _ in range(n):
        nq = rng.randint(3, 4)
        a, b = rand_circ(nq, rng.randint(1, 4)), rand_circ(nq, rng.randint(1, 4))
        how = rng.choice(["add", "iadd", "repeat", "append_circuit"])
        for fw, mode in (("qasm", "circuit"), ("qasm", "gate"), ("qiskit", "circuit"), ("qiskit", "gate")):
            cases += 1
            try:
                _export_view(a, fw, mode)  # earlier export of the operand
                if how == "add":
                    c = a + b
                elif how == "iadd":
                    c = a.copy()
                    _export_view(c, fw, mode)
                    c += b
                elif how == "repeat":
                    c = a.repeat(3)
                else:
                    c = a.copy()
                    _export_view(c, fw, mode)
                    c.append_circuit(b, list(range(nq)))
                got = _export_view(c, fw, mode)
                want = _export_view(rebuild(c), fw, mode)
                if got != want:
                    fails.append(dict(how=how, framework=fw, mode=mode, gates=[(type(g).__name__, list(w)) for g, w, p in c.gates],
                                      exported=str(got)[:400], fresh=str(want)[:400]))
            except Exception as e:  # noqa
                fails.append(dict(how=how, framework=fw, mode=mode, error=f"{type(e).__name__}: {e}"[:200]))
    return cases, fails


def run(tier, seed):
    chk = C.Check(PID, tier, seed, level="proof")
    rng = random.Random(seed)
    ok, log = C.coq_build()
    obl = C.prop_obligations(PID) if ok else dict(theorems=[], axioms={}, ok=False, log=log)
    if not ok or not obl["ok"]:
        chk.broken("theorems of Prop_C13.v do not check", (log + obl.get("log", ""))[-3000:])
        return chk.finish(obl)
    known = {f.get("id"): f for f in C.known_findings(PID)}
    cases = gen_cases(tier, rng)
    results = []
    ser_err = []
    for i, case in enumerate(cases):
        try:
            results.append(run_case(case))
        except SerError as e:
            results.append(None)
            ser_err.append(dict(case=case, error=str(e)))
        except Exception as e:  # noqa  (compilation of a source failed: not this property)
            results.append(None)
            if case["kind"] != "src":
                ser_err.append(dict(case=case, error=f"{type(e).__name__}: {e}"))
    qk_attrs, cq_attrs = attrs_tables()
    hdr = (C.COQ_HEADER + "From QV Require Import Circ M_Export Chk_Export.\n"
           + f"Definition qk : list string := {C.clist([cstr(s) for s in qk_attrs])}.\n"
           + f"Definition cq : list string := {C.clist([cstr(s) for s in cq_attrs])}.\n")
    live = []
    for i, r in enumerate(results):
        if r is None:
            continue
        if r["cirq"][0] == "skip" or any(x[0] == "skip" for x in r["sympy"]):
            r = dict(r, cirq=("ok", []) if r["cirq"][0] == "skip" else r["cirq"],
                     sympy=[("ok", []) if x[0] == "skip" else x for x in r["sympy"]])
        live.append((i, r))
    files = []
    for ci in range(0, len(live), 60):
        chunk = live[ci:ci + 60]
        body = C.clist([case_coq(i, r, False) for i, r in chunk])
        files.append((f"cases_{ci}", hdr + f"Definition cases : list (N * xcase) := {body}.\n"
                      "Eval vm_compute in (chk_cases qk cq cases).\nEval vm_compute in (attrs_ok cq).\n"))
    res = C.run_cases(PID, files)
    coq_err, codes = [], {}
    for nm, (rc, so, se) in res.items():
        if rc != 0:
            coq_err.append(dict(file=nm, error=(so + se)[-1500:]))
            continue
        vals = C.parse_results(so)
        if len(vals) != 2 or vals[1].strip() != "true":
            coq_err.append(dict(file=nm, error="unexpected output / attribute side condition: " + so[-300:]))
            continue
        for v in C.parse_N_list(vals[0]):
            codes.setdefault(v // 10000, []).append(((v // 100) % 100, v % 100))

    seen, silent = {}, {}
    dist = {}
    loss_all = []
    n_num = 0
    for i, r in enumerate(results):
        if r is None:
            continue
        case = cases[i]
        dist[case["kind"]] = dist.get(case["kind"], 0) + 1
        loss_all += r["loss"]
        n_num += int(r["n"] <= 6)
        replay = dict(case=case, num_qubits=r["n"], qubit_map=r["qm"], gates=r["cir"],
                      qasm3_gate=r["qasm"][0], model_codes=codes.get(i, []))
        dids = set()
        for d, text in r["failures"]:
            if d is None:
                chk.violation(text, replay)
            else:
                dids.add(d)
                seen.setdefault(d, []).append((text, replay))
        for slot, code in codes.get(i, []):
            if r["n"] == 0 and slot >= 10:
                continue  # cirq / sympy are not run on an empty register
            expl = None
            if slot <= 3 and code == 1:
                expl = "qasm-header" if "qasm-header" in dids else "qasm-unnamed-qubit" if "qasm-unnamed-qubit" in dids else None
                d = "qasm-header"
            elif 4 <= slot <= 7 and code == 2:
                expl = next((x for x in ("qasm-header", "qasm-unnamed-qubit") if x in dids), None)
                d = "qasm-header"
            elif slot == 10 and code == 1:
                expl = "cirq-barrier" if "cirq-barrier" in dids else None
                d = "cirq-barrier"
            else:
                if not any(d is None for d, _ in r["failures"]):  # else already reported with its failing input
                    chk.broken(f"model and implementation differ on {SLOTS.get(slot, slot)} (code {code}) and no property failure explains it", replay)
                continue
            if expl is None:
                silent.setdefault(d, []).append(replay)
    for d, lst in seen.items():
        if d in known:
            chk.known(known[d], f"{len(lst)} inputs, e.g. {lst[0][0]}")
        else:
            for text, replay in lst[:3]:
                chk.violation(f"[{d}] {text}", replay)
    for d, lst in silent.items():
        if d not in seen and d not in known:
            chk.broken(f"implementation behaves like the unpatched model ({d}) and no input of this run shows a property failure", lst[0])
    if coq_err:
        chk.broken("Chk_Export could not be evaluated", coq_err[:3])
    for e in ser_err[:3]:
        chk.broken("exported object cannot be read back", e)

    # exports must not depend on earlier exports of the operands (export, compose, export again)
    comp_cases, comp_fail = export_after_composition(random.Random(seed + 7), 12 if tier == "quick" else 120)
    for f in comp_fail[:5]:
        chk.violation("the export of a composed circuit differs from the export of an equal, freshly built circuit", f)

    worst = max(loss_all, default=None)
    loss_all = [x[0] for x in loss_all]
    lossy = [x for x in loss_all if x > 0]
    chk.coverage.update(
        evaluations=len(live) * 13, circuits=len(live), distinct_nontrivial=len(set(json.dumps(c, sort_keys=True, default=str) for c in cases)),
        rule="every exportable gate on its own (MCX with 0-6 controls, MCtrl Z/X, CP/P with assorted phases incl. 0 and pi, barriers, nop), "
             "random circuits over four palettes (all classes / sympy- / cirq- / qiskit-exportable) on 1-8 qubits with edited name maps "
             "(aliases, unnamed qubits, renames, order != index order, names colliding with the fallback names), the empty register, "
             "compiled functions with aliased maps; x {QASM 3, QASM 2} x {gate, circuit}, qiskit {gate, circuit}, cirq (gate + circuit), "
             "sympy {gate, circuit}; evaluations = circuits x 13 compared artefacts",
        distribution=dist, numeric_unitary_checks=n_num, model_files=len(files), export_after_composition_cases=comp_cases,
        defects_seen={d: len(l) for d, l in seen.items()},
        unpatched_behaviour_without_property_failure={d: len(l) for d, l in silent.items()},
        qasm_phase_precision=dict(gates_with_printed_phase=len(loss_all), printed_value_differs=len(lossy),
                                  max_abs_error=(max(lossy) if lossy else 0.0),
                                  worst_example=(dict(phase=worst[1], printed=worst[2], abs_error=worst[0]) if worst else None),
                                  note="phases are printed with {p:.2f}: compared to printed precision only"),
        library_attribute_tables=dict(qiskit=qk_attrs, cirq=cq_attrs),
        exhaustive=False, traces_validated_against_impl=len(live) * 13,
    )
    chk.samples = [cases[0], next(c for c in cases if c.get("edits")), cases[-len(SOURCES)]]
    chk.assumptions = [
        "declared meaning of the foreign operations: qiskit x/y/z/h/s/t/p/swap/cx/cz/cp/ccx/mcx/ZGate.control(n) and barrier, cirq "
        "X/Y/Z/H/S/T/I/CNOT/CCNOT/CZ/SWAP/ControlledGate/CZPowGate(exponent=p/pi), sympy XGate/HadamardGate/CNotGate/SwapGate/CGate "
        "are the gates of the same name on the listed qubits (checked numerically up to 6 qubits on every case, not proved)",
        "sympy's Mul cancels adjacent equal self-inverse gates: operation lists are compared after that reduction",
        "QASM phases are compared to the printed precision (two decimals); the text does not determine the phase beyond it",
        "the emitted QASM is the repository's own dialect (space-separated formals, no semicolons in the body): the check parses "
        "that dialect, strict OpenQASM conformance is outside the property",
    ]
    return chk.finish(obl)


def replay(path):
    d = json.load(open(path))
    case = d["case"]
    if case["kind"] == "spec":
        case["c"]["gates"] = [tuple(g) for g in case["c"]["gates"]]
        case["edits"] = [tuple(e) for e in case.get("edits", [])]
    r = run_case(case)
    print("qubit map:", r["qm"])
    print("gates:", r["cir"])
    print("qasm3 gate:\n", r["qasm"][0])
    print("failures:", r["failures"])
    print("VIOLATION reproduced" if r["failures"] else "not reproduced")
    return 1 if r["failures"] else 0
