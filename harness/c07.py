"""C07 — calling one compiled function from another is function composition."""
import collections
import random
import signal

from . import common as C
from . import progs, shadow

PID = "C07"

CALLEES = {
    "inc": "def inc(x: Qint[2]) -> Qint[2]:\n    return x + 1",
    "neg": "def neg(x: bool) -> bool:\n    return not x",
    "both": "def both(x: bool, y: bool) -> bool:\n    return x and not y",
    "addp": "def addp(x: Qint[2], y: Qint[2]) -> Qint[2]:\n    return x + y",
    "swap": "def swap(p: Tuple[bool, bool]) -> Tuple[bool, bool]:\n    return (p[1], p[0])",
    "first": "def first(p: Tuple[Qint[2], bool]) -> Qint[2]:\n    return p[0] + 1 if p[1] else p[0]",
    "gt1": "def gt1(x: Qint[2]) -> bool:\n    return x > 1",
    "mix": "def mix(a: bool, b: Qint[2], c: bool) -> Qint[2]:\n    t = b + 1\n    return t if (a and not c) else b",
    "a": "def a(a: bool, b: bool) -> bool:\n    c = a ^ b\n    return c and a",
    "wide": "def wide(x: Qint[4]) -> Qint[4]:\n    return x + 3",
    "xor3": "def xor3(x: bool, y: bool, z: bool) -> bool:\n    t = x ^ y\n    u = t ^ z\n    return u",
    "fx": "def fx(x: Qfixed[1,2]) -> Qfixed[1,2]:\n    return x + 0.5",
    # names that clash with the callee prefix, wide results, a callee called 'oracle'
    "sel": "def sel(sel_a: bool, a: bool, b: bool) -> bool:\n    return a if sel_a else b",
    "msk": "def msk(msk_v: Qint[2], v: Qint[2]) -> Qint[2]:\n    return msk_v & (v + 1)",
    "mix12": "def mix12(a: Qint[12]) -> Qint[12]:\n    return a ^ 1365",
    "oracle": "def oracle(a: Qint[2]) -> Qint[2]:\n    return a + 1",
    "par3": "def par3(t: Tuple[bool, bool, bool]) -> bool:\n    return t[0] ^ (t[1] and not t[2])",
    "tup11": "def tup11(a: Qint[4]) -> Tuple[bool, bool, bool, bool, bool, bool, bool, bool, bool, bool, bool]:\n    return (a[0], a[1], a[2], a[3], a[0] ^ a[1], a[1] ^ a[2], a[2] ^ a[3], a[0] and a[3], a[1] or a[2], not a[0], a[3])",
}

# (callee names, caller source)
CALLERS = [
    (["neg"], "def test(a: bool) -> bool:\n    return neg(a)"),
    (["neg"], "def test(a: bool, b: bool) -> bool:\n    return neg(a) and neg(b)"),
    (["neg"], "def test(a: bool) -> bool:\n    return neg(neg(a))"),
    (["both"], "def test(a: bool, b: bool) -> bool:\n    return both(a, b)"),
    (["both"], "def test(a: bool, b: bool) -> bool:\n    return both(b, a)"),
    (["both"], "def test(a: bool, b: bool) -> bool:\n    return both(a, a)"),
    (["both"], "def test(x: bool, y: bool) -> bool:\n    return both(y, x) or both(x, y)"),
    (["both"], "def test(y: bool, x: bool) -> bool:\n    return both(y, x)"),
    (["both"], "def test(a: Tuple[bool, bool]) -> bool:\n    return both(a[1], a[0])"),
    (["inc"], "def test(a: Qint[2]) -> Qint[2]:\n    return inc(a)"),
    (["inc"], "def test(a: Qint[2]) -> Qint[2]:\n    return inc(inc(a))"),
    (["inc"], "def test(a: Qint[2], b: Qint[2]) -> Qint[2]:\n    return inc(a) + inc(b)"),
    (["inc"], "def test(a: Tuple[bool, Qint[2]]) -> Qint[2]:\n    return inc(a[1])"),
    (["inc"], "def test(a: Tuple[Qint[2], Qint[2]]) -> Qint[2]:\n    return inc(a[1]) + a[0]"),
    (["inc"], "def test(a: Qlist[Qint[2], 3]) -> Qint[2]:\n    return inc(a[2])"),
    (["inc"], "def test(x: Qint[2]) -> Qint[2]:\n    return inc(x)"),
    (["inc"], "def test(a: Qint[2], c: bool) -> Qint[2]:\n    b = a + 1\n    return inc(b) if c else b"),
    (["inc"], "def test(a: Qint[2], b: Qint[2]) -> Qint[2]:\n    return inc(a + b)"),
    (["inc"], "def test(inc_x: Qint[2]) -> Qint[2]:\n    return inc(inc_x)"),
    (["addp"], "def test(a: Qint[2], b: Qint[2]) -> Qint[2]:\n    return addp(a, b)"),
    (["addp"], "def test(a: Qint[2], b: Qint[2]) -> Qint[2]:\n    return addp(b, a)"),
    (["addp"], "def test(a: Qint[2]) -> Qint[2]:\n    return addp(a, a)"),
    (["addp"], "def test(y: Qint[2], x: Qint[2]) -> Qint[2]:\n    return addp(y, x)"),
    (["addp"], "def test(a: Tuple[Qint[2], Qint[2]]) -> Qint[2]:\n    return addp(a[1], a[0])"),
    (["addp", "inc"], "def test(a: Qint[2], b: Qint[2]) -> Qint[2]:\n    return addp(inc(a), b)"),
    (["swap"], "def test(a: Tuple[bool, bool]) -> Tuple[bool, bool]:\n    return swap(a)"),
    (["swap"], "def test(a: bool, b: bool) -> Tuple[bool, bool]:\n    return swap((a, b))"),
    (["swap"], "def test(a: Tuple[bool, bool]) -> bool:\n    b = swap(a)\n    return b[0]"),
    (["first"], "def test(a: Tuple[Qint[2], bool]) -> Qint[2]:\n    return first(a)"),
    (["first"], "def test(a: Qint[2], b: bool) -> Qint[2]:\n    return first((a, b))"),
    (["gt1"], "def test(a: Qint[2], b: Qint[2]) -> bool:\n    return gt1(a) and not gt1(b)"),
    (["gt1", "inc"], "def test(a: Qint[2]) -> bool:\n    return gt1(inc(a))"),
    (["mix"], "def test(a: bool, b: Qint[2], c: bool) -> Qint[2]:\n    return mix(c, b, a)"),
    (["mix"], "def test(t: bool, b: Qint[2]) -> Qint[2]:\n    return mix(t, b, t)"),
    (["mix"], "def test(c: Tuple[bool, Qint[2], bool]) -> Qint[2]:\n    return mix(c[0], c[1], c[2])"),
    (["a"], "def test(a: bool, b: bool) -> bool:\n    return a(b, a)"),
    (["a"], "def test(c: bool, a_c: bool) -> bool:\n    return a(c, a_c)"),
    (["wide"], "def test(a: Qint[4]) -> Qint[4]:\n    return wide(a)"),
    (["wide"], "def test(a: Qint[2]) -> Qint[4]:\n    return wide(a)"),
    (["inc"], "def test(a: Qint[4]) -> Qint[2]:\n    return inc(a)"),
    (["xor3"], "def test(a: bool, b: bool, c: bool) -> bool:\n    return xor3(c, a, b) and xor3(a, a, b)"),
    (["xor3"], "def test(t: bool, u: bool, x: bool) -> bool:\n    return xor3(u, x, t)"),
    (["fx"], "def test(a: Qfixed[1,2]) -> Qfixed[1,2]:\n    return fx(a)"),
    (["neg"], "def test(a: bool) -> bool:\n    return neg(True) and neg(a)"),
    (["sel"], "def test(x: bool, y: bool, z: bool) -> bool:\n    return sel(x, y, z)"),
    (["sel"], "def test(a: bool, b: bool, c: bool) -> bool:\n    return sel(c, b, a) ^ sel(a, a, b)"),
    (["msk"], "def test(a: Qint[2], b: Qint[2]) -> Qint[2]:\n    return msk(a, b)"),
    (["msk"], "def test(v: Qint[2], msk_v: Qint[2]) -> Qint[2]:\n    return msk(v, msk_v)"),
    (["mix12"], "def test(a: Qint[12]) -> Qint[12]:\n    return mix12(a)"),
    (["tup11"], "def test(a: Qint[4]) -> bool:\n    t = tup11(a)\n    return t[2] ^ t[10] ^ t[9]"),
    (["oracle"], "def test(a: Qint[2]) -> Qint[2]:\n    return oracle(a)"),
    ([], "def test(a: bool, b: bool) -> bool:\n    def par(a: bool, b: bool) -> bool:\n        par_a = a ^ b\n        return par_a and a\n    return par(b, a)"),
    (["both"], "def test(both_y: bool, a: bool) -> bool:\n    return both(both_y, a)"),
    (["both"], "def test(both_x: bool, both_y: bool) -> bool:\n    return both(both_y, both_x)"),
    ([], "def test(a: bool, b: bool) -> bool:\n    def inner(x: bool, y: bool) -> bool:\n        return x and not y\n    return inner(b, a)"),
    ([], "def test(a: Qint[2]) -> Qint[2]:\n    def inner(x: Qint[2]) -> Qint[2]:\n        return x + 1\n    return inner(inner(a))"),
    ([], "def test(a: Tuple[bool, Qint[2]]) -> Qint[2]:\n    def inner(x: Qint[2]) -> Qint[2]:\n        return x + 1\n    return inner(a[1])"),
    # the same call text twice while its argument variable is re-bound in between (to another width / another nesting)
    (["wide"], "def test(a: Qint[2], b: Qint[4]) -> Qint[4]:\n    x = a\n    y = wide(x)\n    x = b\n    z = wide(x)\n    return y + z"),
    (["par3"], "def test(p: Tuple[bool, bool], c: bool, d: bool, e: bool, f: bool) -> bool:\n    x = (p, c)\n    r = par3(x)\n    x = (d, e, f)\n    s = par3(x)\n    return r and s"),
    (["inc"], "def test(a: Qint[2], b: Qint[2]) -> Qint[2]:\n    x = a\n    y = inc(x)\n    x = b + 1\n    z = inc(x)\n    return y ^ z"),
    (["both"], "def test(a: bool, b: bool, c: bool) -> bool:\n    x = a\n    r = both(x, c)\n    x = b\n    return r ^ both(x, c)"),
    # an inline function that defines its own helper named like a sibling / like a compiled function in defs: innermost wins
    ([], "def test(a: bool, b: bool) -> bool:\n    def h(x: bool) -> bool:\n        return not x\n    def g(y: bool, z: bool) -> bool:\n        def h(x: bool) -> bool:\n            return x\n        return h(y) and z\n    return g(a, b) ^ h(b)"),
    (["neg"], "def test(a: bool, b: bool) -> bool:\n    def both2(p: bool, q: bool) -> bool:\n        def neg(b: bool) -> bool:\n            return b\n        return neg(p) and q\n    return both2(a, b) or neg(a)"),
    (["inc"], "def test(a: Qint[2]) -> Qint[2]:\n    def twice(v: Qint[2]) -> Qint[2]:\n        def inc(x: Qint[2]) -> Qint[2]:\n            return x + 2\n        return inc(inc(v))\n    return twice(a) + inc(a)"),
    # an inline definition is a scope of its own: its parameters / locals named like the caller's (fix a54a0af)
    ([], "def test(a: Tuple[bool, bool, bool]) -> bool:\n    def g(a: Tuple[bool, bool]) -> bool:\n        return a[0] and a[1]\n    r = False\n    for x in a:\n        r = r ^ x\n    return r"),
    ([], "def test(a: Tuple[bool, bool, bool]) -> bool:\n    def g(a: Tuple[bool, bool]) -> bool:\n        return a[0] and a[1]\n    r = g((a[2], a[1]))\n    for x in a:\n        r = r ^ x\n    return r"),
    ([], "def test(a: Tuple[bool, bool, bool], i: Qint[2]) -> bool:\n    def g(b: bool) -> bool:\n        a = (b, not b)\n        return a[1]\n    return a[i] ^ g(a[0])"),
    ([], "def test(a: Tuple[bool, bool]) -> bool:\n    def g(a: Tuple[bool, bool, bool]) -> bool:\n        r = True\n        for x in a:\n            r = r and x\n        return r\n    return g((a[0], a[1], a[0])) ^ all(a)"),
    ([], "def test(c: bool, n: Qint[2]) -> Qint[2]:\n    def g(c: Qint[2]) -> Qint[2]:\n        n = 3\n        return c + n\n    return g(n) if c else n"),
]


def random_pair(rng):
    """Random caller over random arguments calling one or two callees."""
    kind = rng.choice(["bool", "int"])
    if kind == "bool":
        vs = ["a", "b", "c"][: rng.randint(2, 3)]
        sig = ", ".join(f"{v}: bool" for v in vs)
        def term():
            k = rng.choice(["neg", "both", "xor3", "var"])
            if k == "neg":
                return f"neg({rng.choice(vs)})"
            if k == "both":
                return f"both({rng.choice(vs)}, {rng.choice(vs)})"
            if k == "xor3":
                return f"xor3({rng.choice(vs)}, {rng.choice(vs)}, {rng.choice(vs)})"
            return rng.choice(vs)
        e = f"({term()} {rng.choice(['and', 'or', '^'])} {term()})"
        if rng.random() < 0.5:
            e = f"({e} {rng.choice(['and', 'or', '^'])} {term()})"
        return ["neg", "both", "xor3"], f"def test({sig}) -> bool:\n    return {e}"
    vs = ["a", "b"]
    shape = rng.choice(["vars", "tuple"])
    def term(names):
        k = rng.choice(["inc", "addp", "var", "mix"])
        if k == "inc":
            return f"inc({rng.choice(names)})"
        if k == "addp":
            return f"addp({rng.choice(names)}, {rng.choice(names)})"
        if k == "mix":
            return f"mix(p, {rng.choice(names)}, p)"
        return rng.choice(names)
    if shape == "vars":
        sig, names = "a: Qint[2], b: Qint[2], p: bool", ["a", "b"]
    else:
        sig, names = "t: Tuple[Qint[2], Qint[2]], p: bool", ["t[0]", "t[1]"]
    e = f"{term(names)} {rng.choice(['+', '^', '&'])} {term(names)}"
    return ["inc", "addp", "mix"], f"def test({sig}) -> Qint[2]:\n    return {e}"


def fingerprint(qf):
    return (qf.name, [(a.name, repr(a.ttype), tuple(a.bitvec)) for a in qf.args],
            (repr(qf.returns.ttype), tuple(qf.returns.bitvec)), [(str(s), str(e)) for s, e in qf.expressions])


def task(job):
    from qlasskit import qlassf
    from qlasskit.boolopt import defaultOptimizer, fastOptimizer
    from .ser import exprs_to_ir, ir_eval, ir_syms, SerError
    signal.signal(signal.SIGALRM, progs._alarm)
    signal.alarm(40)
    try:
        opt = defaultOptimizer if job["optimizer"] == "default" else fastOptimizer
        callees = []
        for nm in job["callees"]:
            callees.append(qlassf(CALLEES[nm], to_compile=False, bool_optimizer=opt))
        before = [fingerprint(c) for c in callees]
        out = dict(status="ok", fails=[], evaluated=0, exact=0, wrapped=0, unsupported=0, py_raises=0)
        try:
            # earlier uses of the SAME callee objects (defs= of other callers, oraclize): the
            # callee must still behave as a fresh one afterwards
            for pre in job.get("warmup", []):
                try:
                    if pre[0] == "oraclize":
                        from qlasskit.algorithms.qalgorithm import oraclize as _orz
                        _orz(callees[0], pre[1])
                    else:
                        qlassf(pre[1], defs=callees, to_compile=False, bool_optimizer=opt)
                except progs._Timeout:
                    raise
                except BaseException:
                    pass
            if job.get("oraclize") is not None:
                from qlasskit.algorithms.qalgorithm import oraclize
                qf = oraclize(callees[0], job["oraclize"])
            else:
                qf = qlassf(job["src"], defs=callees, to_compile=False, bool_optimizer=opt)
        except progs._Timeout:
            raise
        except BaseException as e:
            out["status"] = "rejected"
            out["exc"] = f"{type(e).__name__}: {e}"[:160]
            qf = None
        after = [fingerprint(c) for c in callees]
        for nm, b, a in zip(job["callees"], before, after):
            if b != a:
                out["fails"].append(dict(kind="the callee object changed", callee=nm, before=str(b)[:300], after=str(a)[:300]))
        if qf is None:
            return out
        exprs = exprs_to_ir(qf.expressions)
        inputs = [b for a in qf.args for b in a.bitvec]
        defined = set(inputs)
        free = set()
        for nm, ir in exprs:
            free |= (ir_syms(ir) - defined)
            defined.add(nm)
        retbits = list(qf.returns.bitvec)
        # free symbols that reach a return bit are failures (a dead definition may mention anything)
        n = len(inputs)
        src_all = "\n".join(CALLEES[nm] for nm in job["callees"]) + "\n" + job["src"]
        for x in range(1 << n):
            bits = [bool((x >> i) & 1) for i in range(n)]
            env = dict(zip(inputs, bits))
            for nm, ir in exprs:
                try:
                    env[nm] = ir_eval(ir, env)
                except KeyError:
                    env.pop(nm, None)
            try:
                ib = [bool(env[r]) for r in retbits]
            except KeyError as e:
                out["fails"].append(dict(kind="a return bit depends on a symbol that is neither an argument bit nor defined",
                                         symbol=str(e), free_symbols=sorted(free)[:12]))
                break
            try:
                rb, wrapped = shadow.run(src_all, job["fname"], [a.ttype for a in qf.args], qf.returns.ttype, bits)
            except shadow.Unsupported:
                out["unsupported"] += 1
                continue
            except progs._Timeout:
                raise
            except Exception:
                out["py_raises"] += 1
                continue
            out["evaluated"] += 1
            out["wrapped" if wrapped else "exact"] += 1
            if ib != rb and len(out["fails"]) < 3:
                out["fails"].append(dict(kind="caller differs from the composition", regime="wrapped" if wrapped else "exact",
                                         input_bits=dict(zip(inputs, [int(b) for b in bits])),
                                         implementation=[int(b) for b in ib], python=[int(b) for b in rb]))
        return out
    except progs._Timeout:
        return dict(status="timeout")
    except BaseException as e:  # noqa
        return dict(status="harness-error", exc=f"{type(e).__name__}: {e}"[:300])
    finally:
        signal.alarm(0)


def bind_function_cases():
    """Env.bind_function on every callee (both optimizers): the definition list
    renamed with the callee prefix, and the implementation's compressed list."""
    from qlasskit import qlassf
    from qlasskit.ast2logic import Env
    from qlasskit.boolopt import defaultOptimizer, fastOptimizer
    from .ser import SymTab, exprs_to_ir, ir_coq, defs_coq
    out = []
    srcs = dict(CALLEES)
    for i, s in enumerate(progs.suite_programs()[:120]):
        srcs[f"suite{i}"] = s
    for nm, src in srcs.items():
        for oname, opt in (("default", defaultOptimizer), ("fast", fastOptimizer)):
            try:
                qf = qlassf(src, to_compile=False, bool_optimizer=opt)
                if type(qf).__name__ == "UnboundQlassf":
                    continue
                lf = qf.to_logicfun()
                pre = lf[0] + "_"
                formals = [pre + b for a in lf[1] for b in a.bitvec]
                if len(formals) > 12:
                    continue
                ds = [(pre + n, _prefix(ir, pre)) for n, ir in exprs_to_ir(lf[3])]
                nret = len(lf[2].bitvec)
                env = Env()
                env.bind_function(lf)
                impl = exprs_to_ir(env.defs[-1][3])
                st = SymTab(formals)
                ds_c = defs_coq(ds, st)
                impl_c = C.clist(["(%s, %s)" % (C.cnat(st.get(n, False)), ir_coq(ir, st)) for n, ir in impl])
                out.append((f"{nm}/{oname}", f"(chk_compress {C.cnat(len(formals))} {ds_c} {C.cnat(nret)} {impl_c})"))
            except Exception as e:  # rejected programs / hybrid gates / unbound symbols: not a callee
                continue
    return out


def _prefix(ir, pre):
    k = ir[0]
    if k == "s":
        return ("s", pre + ir[1])
    if k == "c":
        return ir
    if k == "n":
        return ("n", _prefix(ir[1], pre))
    if k in "aox":
        return (k, [_prefix(a, pre) for a in ir[1]])
    return (k,) + tuple(_prefix(a, pre) for a in ir[1:])


def run(tier, seed):
    chk = C.Check(PID, tier, seed, level="proof")
    rng = random.Random(seed)
    ok, log = C.coq_build()
    obl = C.prop_obligations(PID) if ok else dict(theorems=[], axioms={}, ok=False, log=log)
    if not ok or not obl["ok"]:
        chk.broken("theorems of Prop_C07.v do not check", (log + obl.get("log", ""))[-3000:])
        return chk.finish(obl)
    pairs = list(CALLERS)
    nrand = 150 if tier == "quick" else 3000
    pairs += [random_pair(rng) for _ in range(nrand)]
    jobs = []
    for cs, src in pairs:
        for opt in ("default", "fast"):
            jobs.append(dict(callees=cs, src=src, fname="test", optimizer=opt))
    # the same callee objects used by an earlier caller / oraclize, then by this caller
    reuse = []
    for cs, src in pairs[:len(CALLERS)]:
        if cs:
            other = next((s2 for c2, s2 in CALLERS if c2 == cs and s2 != src), src)
            reuse.append(dict(callees=cs, src=src, fname="test", optimizer="default", warmup=[("caller", other), ("caller", src)]))
    for nm, el in (("inc", 2), ("gt1", True), ("neg", False), ("oracle", 2)):
        caller = next(s2 for c2, s2 in CALLERS if c2 == [nm])
        reuse.append(dict(callees=[nm], src=caller, fname="test", optimizer="default", warmup=[("oraclize", el)]))
    jobs += reuse
    # equality oracles f(x) == element for every return type
    for nm, el in (("inc", 2), ("inc", 0), ("gt1", True), ("neg", False), ("wide", 7), ("oracle", 3), ("addp", 1)):
        arg = CALLEES[nm].split("(")[1].split(")")[0].split(":", 1)[1].split(",")[0].strip() if nm != "addp" else None
        if nm == "addp":
            continue
        tname = CALLEES[nm].split(":", 1)[1].split(")")[0].strip()
        src = f"def oracle(v: {tname}) -> bool:\n   return {nm}(v) == {el}"
        jobs.append(dict(callees=[nm], src=src, fname="oracle", optimizer="default", oraclize=el))
    res = progs.run_pool(task, jobs)
    # correspondence of the bind_function model
    bcases = bind_function_cases()
    files = []
    for ci in range(0, len(bcases), 100):
        chunk = bcases[ci:ci + 100]
        files.append((f"bind_{ci}", C.COQ_HEADER + "From QV Require Import Bexp BexpTT M_Call Chk_Call.\nLocal Open Scope N_scope.\n"
                      + "Eval vm_compute in (List.concat %s).\n" % C.clist([c for _, c in chunk])))
    bres = C.run_cases(PID, files)
    bind_bad_impl, bind_bad_model = [], []
    for name, (rc, so, se) in bres.items():
        ci = int(name.split("_")[1])
        if rc != 0:
            bind_bad_model.append(dict(file=name, error=(so + se)[-800:]))
            continue
        nums = C.parse_N_list(C.parse_results(so)[0])
        for k in range(0, len(nums), 2):
            a, b = nums[k], nums[k + 1]
            nm = bcases[ci + k // 2][0]
            if a:
                bind_bad_impl.append(nm)
            if b:
                bind_bad_model.append(nm)
    for nm in bind_bad_impl[:5]:
        chk.violation("Env.bind_function: a compressed return expression is not the callee's return function", dict(callee=nm))
    if bind_bad_model and not bind_bad_impl:
        chk.broken("bind_function model (M_Call.compress) and implementation differ", bind_bad_model[:8])
    known = C.known_findings(PID)
    status = collections.Counter()
    tot = collections.Counter()
    distinct = set()
    reported = set()
    for job, r in zip(jobs, res):
        status[r["status"]] += 1
        if r["status"] == "harness-error":
            chk.broken("the harness failed on a pair", dict(source=job["src"], error=r["exc"]))
            continue
        if r["status"] == "timeout":
            continue
        for k in ("evaluated", "exact", "wrapped", "unsupported", "py_raises"):
            tot[k] += r.get(k, 0)
        if r.get("evaluated"):
            distinct.add((tuple(job["callees"]), job["src"], job["optimizer"]))
        for f in r.get("fails", []):
            key = (job["src"], f["kind"])
            if key in reported:
                continue
            reported.add(key)
            kf = [k for k in known if k.get("source") == job["src"]]
            if kf:
                chk.known(kf[0], f"{job['src']!r}: {f['kind']}")
                continue
            chk.violation(f["kind"], dict(callees=[CALLEES[c] for c in job["callees"]], caller=job["src"], optimizer=job["optimizer"],
                                          **{k: v for k, v in f.items() if k != "kind"}))
    chk.coverage.update(
        programs=len(distinct), evaluations=tot["evaluated"], distinct_nontrivial=len(distinct),
        rule="(callee set, caller) pairs: a fixed family covering variables, tuple elements of every type, repeated and swapped arguments, "
             "several and nested calls, inline defs, clashing names, width mismatches, plus seeded random callers and equality oracles (oraclize); "
             "each accepted caller is compared on ALL inputs with the Python source (callees + caller) run by CPython on typed shadow values; "
             "callee objects are fingerprinted before and after; distinct = distinct (callees, caller, optimizer) with evaluated inputs",
        inputs_exact=tot["exact"], inputs_wrapped=tot["wrapped"], inputs_without_reference=tot["unsupported"],
        compile_status=dict(status), bind_function_cases=len(bcases), traces_validated_against_impl=tot["evaluated"] + len(bcases), exhaustive=False)
    chk.samples = [dict(callees=cs, caller=src) for cs, src in pairs[:2] + pairs[-1:]]
    chk.assumptions = ["reference semantics = the Python sources executed by CPython on typed shadow values (harness/shadow.py)",
                       "a rejected caller is not a violation"]
    return chk.finish(obl)
