import argparse
import importlib
import os
import sys


def main():
    ap = argparse.ArgumentParser()
    ap.add_argument("pid")
    ap.add_argument("--tier", default=os.environ.get("VERIF_TIER", "quick"), choices=["quick", "thorough"])
    ap.add_argument("--replay", default=None)
    a = ap.parse_args()
    from . import common

    seed = common.seed_from_env(0)
    mod = importlib.import_module(f"harness.{a.pid.lower()}")
    if a.replay:
        sys.exit(mod.replay(a.replay))
    sys.exit(mod.run(a.tier, seed))


if __name__ == "__main__":
    main()
