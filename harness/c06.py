"""C06 — see DESIGN.md section 5."""
from . import compiled_checks


def run(tier, seed):
    return compiled_checks.run("C06", "c06", tier, seed, "the circuit is not the xor-oracle |x>|y> -> |x>|y xor f(x)>")
