"""C12 — the circuit boolean optimizer returns an equivalent, no larger circuit.

Each random circuit is pushed through circuit_boolean_optimizer (no preserve
list) with exprs_to_quantum wrapped, so that the re-synthesised gate list of
every section is recorded.  In Coq (Chk_Decopt) the model of the optimizer's
control flow is run with those recorded lists and compared exactly with the
returned gate list; every accepted replacement is decided equivalent to the
slice it replaces on all basis states by the verified circ_equiv, and
all-classical circuits are compared as a whole.  In Python the statement is
tested directly first (search for a failing input): number of qubits, number of
gates, input unmodified, and equality of the two unitaries (numpy, <= 8 qubits)."""
import collections
import random
import signal

from . import common as C
from .c11 import (ANGLES, build_qc, hard_kinds, klass, rand_gate, ref_runs, sim_tt, vt, zb_kinds)
from .ser import SerError, circuit_coq, circuit_ir, py_sim

PID = "C12"
MAXQ = 8


# ------------------------------------------------------------------ numpy unitaries (validation aid + failing-input search)
def unitary(nq, cir):
    import cmath
    import math

    import numpy as np

    N = 1 << nq
    U = np.eye(N, dtype=complex)
    idx = np.arange(N)
    s2 = 1 / math.sqrt(2)
    base = {
        "I": [[1, 0], [0, 1]], "X": [[0, 1], [1, 0]], "Y": [[0, -1j], [1j, 0]], "Z": [[1, 0], [0, -1]],
        "H": [[s2, s2], [s2, -s2]], "S": [[1, 0], [0, 1j]], "T": [[1, 0], [0, cmath.exp(1j * math.pi / 4)]],
    }

    def apply(M, controls, t):
        nonlocal U
        sel = (idx >> t) & 1 == 0
        for c in controls:
            sel &= (idx >> c) & 1 == 1
        i0 = idx[sel]
        i1 = i0 | (1 << t)
        a, b = U[i0].copy(), U[i1].copy()
        U[i0] = M[0][0] * a + M[0][1] * b
        U[i1] = M[1][0] * a + M[1][1] * b

    for k, w, p in cir:
        parts = k.split(":")
        if k in ("Barrier", "Nop"):
            continue
        if k in base:
            apply(base[k], [], w[0])
        elif k == "P":
            apply([[1, 0], [0, cmath.exp(1j * p)]], [], w[0])
        elif k == "CX":
            apply(base["X"], [w[0]], w[1])
        elif k == "CZ":
            apply(base["Z"], [w[0]], w[1])
        elif k == "CP":
            apply([[1, 0], [0, cmath.exp(1j * p)]], [w[0]], w[1])
        elif k == "CCX":
            apply(base["X"], w[:2], w[2])
        elif parts[0] == "MCX":
            apply(base["X"], w[:-1], w[-1])
        elif parts[0] == "MCtrl":
            if parts[1] == "P":
                apply([[1, 0], [0, cmath.exp(1j * p)]], w[:-1], w[-1])
            else:
                apply(base[parts[1]], w[:-1], w[-1])
        elif k == "Swap":
            a, b = w
            perm = idx.copy()
            ba, bb = (idx >> a) & 1, (idx >> b) & 1
            perm = (idx & ~((1 << a) | (1 << b))) | (bb << a) | (ba << b)
            U = U[perm]
        else:
            raise SerError(f"no matrix for gate {k}")
    return U


# ------------------------------------------------------------------ generators
def g_classical(rng):
    nq = rng.randint(2, 6)
    ks = zb_kinds(nq, with_i=rng.random() < 0.3)
    return nq, [rand_gate(rng, nq, rng.choice(ks)) for _ in range(rng.randint(1, 12))], "classical"


def cx_swap(a, b):
    return [("CX", [a, b], None), ("CX", [b, a], None), ("CX", [a, b], None)]


def g_perm(rng):
    """Qubit permutations built from CX triples, possibly mixed with X gates and
    separated by non-classical gates."""
    nq = rng.randint(2, 6)
    cir = []
    for _ in range(rng.randint(1, 3)):
        a, b = rng.sample(range(nq), 2)
        cir += cx_swap(a, b)
        r = rng.random()
        if r < 0.25:
            cir.append(("X", [rng.randrange(nq)], None))
        elif r < 0.45:
            cir.append(rand_gate(rng, nq, rng.choice(["H", "Z", "CP", "Barrier"])))
    if rng.random() < 0.3:
        cir.insert(rng.randint(0, len(cir)), rand_gate(rng, nq, rng.choice(["X", "CX"])))
    return nq, cir, "permutation"


def g_cancel(rng):
    """A classical run followed by its reverse (identity), or doubled gates."""
    nq = rng.randint(2, 6)
    ks = zb_kinds(nq, with_i=False)
    run = [rand_gate(rng, nq, rng.choice(ks)) for _ in range(rng.randint(1, 5))]
    if rng.random() < 0.5:
        cir = run + run[::-1]
    else:
        cir = [g for g in run for _ in (0, 1)]
    if rng.random() < 0.4:
        cir.insert(rng.randint(0, len(cir)), ("Barrier", [], None))
    if rng.random() < 0.4:
        cir = [rand_gate(rng, nq, "H")] + cir + [rand_gate(rng, nq, rng.choice(["H", "Z", "T"]))]
    return nq, cir, "cancels_to_identity"


def g_subset(rng):
    """Sections touching a strict subset of the qubits of a wider circuit."""
    nq = rng.randint(4, MAXQ)
    sub = rng.sample(range(nq), rng.randint(1, 3))
    cir = []
    for _ in range(rng.randint(1, 3)):
        for _ in range(rng.randint(1, 6)):
            k = rng.choice(["X", "X", "CX", "CCX"])
            need = {"X": 1, "CX": 2, "CCX": 3}[k]
            if need > len(sub):
                k, need = "X", 1
            cir.append((k, rng.sample(sub, need), None))
        cir.append(rand_gate(rng, nq, rng.choice(["H", "Z", "CP", "Barrier", "S"])))
    return nq, cir, "strict_subset"


def g_mixed(rng):
    """Classical sections separated by H / Z / CP / ... gates and barriers."""
    nq = rng.randint(2, 6)
    zb, hard = zb_kinds(nq, with_i=rng.random() < 0.2), hard_kinds(nq)
    cir = []
    for _ in range(rng.randint(2, 5)):
        r = rng.random()
        if r < 0.55:
            for _ in range(rng.randint(1, 6)):
                cir.append(rand_gate(rng, nq, rng.choice(zb)))
                if rng.random() < 0.12:
                    cir.append(("Barrier", [], None))
        elif r < 0.7:
            for _ in range(rng.choice([1, 2, 3])):
                cir.append(("Barrier", [], None))
        else:
            for _ in range(rng.choice([1, 1, 2])):
                cir.append(rand_gate(rng, nq, rng.choice(["H", "Z", "CP"] + hard)))
    return nq, cir, "mixed"


def g_occupied(rng):
    """Computation into qubits that already hold a value."""
    nq = rng.randint(3, 6)
    t = rng.randrange(nq)
    others = [q for q in range(nq) if q != t]
    cir = [("X", [t], None)] if rng.random() < 0.6 else []
    for _ in range(rng.randint(1, 5)):
        k = rng.choice(["CX", "CCX", "X", "MCX"])
        if k == "X":
            cir.append(("X", [rng.choice(range(nq))], None))
        elif k == "CX":
            cir.append(("CX", [rng.choice(others), t], None))
        elif k == "CCX":
            cir.append(("CCX", rng.sample(others, 2) + [t], None))
        else:
            n = rng.randint(0, len(others))
            cir.append((f"MCX:{n}", rng.sample(others, n) + [t], None))
    return nq, cir, "into_occupied_qubit"


def g_ctrl_flip(rng):
    """A Toffoli / MCX accumulating into an occupied qubit whose controls (or target) are
    flipped before / after it inside the same section."""
    nq = rng.randint(3, 6)
    t = rng.randrange(nq)
    others = [q for q in range(nq) if q != t]
    cir = []
    for _ in range(rng.randint(1, 3)):
        n = rng.randint(2, min(3, len(others)))
        cs = rng.sample(others, n)
        if rng.random() < 0.4:
            cir.append(("X", [rng.choice(cs + [t])], None))
        cir.append(("CCX" if n == 2 else f"MCX:{n}", cs + [t], None))
        for _ in range(rng.randint(1, 2)):
            cir.append(("X", [rng.choice(cs + [t])], None))
    return nq, cir, "into_occupied_qubit"


def g_xonly(rng):
    nq = rng.randint(1, 5)
    return nq, [("X", [rng.randrange(nq)], None) for _ in range(rng.randint(1, 10))], "x_only"


def g_toffoli_word(rng):
    """Words over two or three fixed Toffoli / CX gates on 3-4 qubits (a b a b a b a, palindromes, powers): the
    decompiled expressions are xors of deeply nested products whose simplification has to cancel exactly."""
    nq = rng.randint(3, 4)
    letters = []
    while len(letters) < rng.randint(2, 3):
        if rng.random() < 0.8:
            w = rng.sample(range(nq), 3)
            g = ("CCX", w, None)
        else:
            w = rng.sample(range(nq), 2)
            g = ("CX", w, None)
        if g not in letters:
            letters.append(g)
    shape = rng.choice(["alternate", "palindrome", "power", "random"])
    if shape == "alternate":
        word = [letters[i % 2] for i in range(rng.randint(3, 9))]
    elif shape == "palindrome":
        half = [rng.choice(letters) for _ in range(rng.randint(2, 4))]
        word = half + [rng.choice(letters)] + half[::-1]
    elif shape == "power":
        word = letters * rng.randint(2, 3)
    else:
        word = [rng.choice(letters) for _ in range(rng.randint(4, 9))]
    cir = [(k, list(w), p) for k, w, p in word]
    if rng.random() < 0.2:
        cir.insert(rng.randint(0, len(cir)), ("X", [rng.randrange(nq)], None))
    return nq, cir, "toffoli_word"


GENS = [(g_toffoli_word, 14), (g_classical, 22), (g_perm, 16), (g_cancel, 14), (g_subset, 10), (g_mixed, 22), (g_occupied, 10), (g_ctrl_flip, 8), (g_xonly, 6)]

FIXED = [
    (3, [("CCX", [0, 1, 2], None), ("X", [0], None)], "into_occupied_qubit"),
    (4, [("X", [3], None), ("MCX:3", [0, 1, 2, 3], None), ("X", [1], None), ("X", [3], None)], "into_occupied_qubit"),
    (2, cx_swap(0, 1), "permutation"),
    (3, cx_swap(0, 1) + cx_swap(1, 2), "permutation"),
    (3, cx_swap(0, 2) + [("X", [1], None)], "permutation"),
    (3, [("H", [2], None), ("Barrier", [], None), ("X", [0], None), ("CX", [0, 1], None), ("X", [0], None), ("CX", [0, 1], None),
         ("Barrier", [], None), ("H", [2], None), ("H", [1], None), ("H", [0], None), ("Barrier", [], None), ("X", [1], None),
         ("CX", [1, 2], None), ("X", [1], None), ("CX", [1, 2], None)], "mixed"),
    (3, [("CCX", [0, 1, 2], None), ("X", [0], None), ("X", [1], None), ("CCX", [0, 1, 2], None)], "classical"),
    (3, [("X", [2], None), ("CX", [1, 0], None), ("X", [0], None), ("CX", [1, 0], None), ("X", [0], None), ("X", [1], None),
         ("X", [0], None), ("CX", [2, 1], None)], "classical"),
    (3, [("X", [0], None), ("CX", [0, 1], None), ("Barrier", [], None), ("Barrier", [], None), ("H", [2], None)], "mixed"),
    (2, [], "classical"),
    (3, [("CCX", [1, 0, 2], None), ("CCX", [2, 0, 1], None), ("CCX", [0, 1, 2], None), ("CCX", [2, 0, 1], None), ("CCX", [0, 1, 2], None),
         ("CCX", [2, 0, 1], None), ("CCX", [1, 0, 2], None)], "toffoli_word"),
    (2, [("H", [0], None), ("CP", [0, 1], 0.5)], "mixed"),
]


# ------------------------------------------------------------------ running the implementation
class _Timeout(Exception):
    pass


def _alarm(signum, frame):
    raise _Timeout()


def optimize_task(task):
    cid, nq, cir = task
    signal.signal(signal.SIGALRM, _alarm)
    signal.alarm(120)
    try:
        import qlasskit.decompiler.decopt as D

        real = D.exprs_to_quantum
        if getattr(real, "_qv_wrapped", None) is not None:
            real = real._qv_wrapped
        calls = []

        def wrapped(exprs, symbols, compiler="internal"):
            res = real(exprs=exprs, symbols=symbols, compiler=compiler)
            own = True
            for s, e in exprs:
                name = s.name
                if not (name.startswith("q") and name[1:].isdigit()) or name not in res.qubit_map or res.qubit_map[name] != int(name[1:]):
                    own = False
            calls.append((circuit_ir(res.gates), own, [(str(s), str(e)) for s, e in exprs]))
            return res

        wrapped._qv_wrapped = real
        D.exprs_to_quantum = wrapped
        try:
            qc = build_qc(nq, cir)
            before = (circuit_ir(qc.gates), qc.num_qubits, dict(qc.qubit_map))
            out = D.circuit_boolean_optimizer(qc)
            after = (circuit_ir(qc.gates), qc.num_qubits, dict(qc.qubit_map))
            return dict(id=cid, status="ok", out=circuit_ir(out.gates), out_num_qubits=int(out.num_qubits),
                        same_object=(out is qc), input_unchanged=(before == after),
                        news=[(g, o) for g, o, _ in calls[::-1]], exprs=[x for _, _, x in calls[::-1]])
        finally:
            D.exprs_to_quantum = real
    except _Timeout:
        return dict(id=cid, status="timeout")
    except SerError as e:
        return dict(id=cid, status="ser", exc=str(e))
    except Exception as e:
        return dict(id=cid, status="raise", exc=f"{type(e).__name__}: {e}"[:300])
    finally:
        signal.alarm(0)


def classical_witness(nq, cir, out):
    """A basis state on which two all-classical gate lists end differently."""
    a, b = sim_tt(cir, nq), sim_tt(out, nq)
    if a is None or b is None:
        return None
    _, mask = vt(nq)
    for q in range(nq):
        d = (a[q] ^ b[q]) & mask
        if d:
            x = (d & -d).bit_length() - 1
            entry = [bool((x >> i) & 1) for i in range(nq)]
            ea, eb = py_sim(cir, entry)[:nq], py_sim(out, entry)[:nq]
            return dict(entry_state=entry, original_ends_in=ea, optimized_ends_in=(eb + [False] * nq)[:nq], confirmed=ea != (eb + [False] * nq)[:nq])
    return None


def direct_check(nq, cir, obs):
    """The statement on one run of the implementation.  Returns a list of failures."""
    import numpy as np

    fails = []
    out = obs["out"]
    if obs["out_num_qubits"] != nq:
        fails.append(dict(reason="number of qubits changed", got=obs["out_num_qubits"]))
    if any(q >= nq for g in out for q in g[1]):
        fails.append(dict(reason="result uses a qubit outside the circuit"))
    if len(out) > len(cir):
        fails.append(dict(reason="result has more gates than the input", input_gates=len(cir), output_gates=len(out)))
    if not obs["input_unchanged"] or obs["same_object"]:
        fails.append(dict(reason="the input circuit object was modified or returned"))
    if not fails:
        try:
            U1, U2 = unitary(nq, cir), unitary(nq, out)
            if not np.allclose(U1, U2, atol=1e-9):
                col = int(np.argmax(np.abs(U1 - U2).max(axis=0)))
                f = dict(reason="the optimized circuit implements a different unitary",
                         basis_input=[bool((col >> i) & 1) for i in range(nq)],
                         max_abs_difference=float(np.abs(U1 - U2).max()), optimized=[list(g) for g in out])
                w = classical_witness(nq, cir, out)
                if w:
                    f["classical_witness"] = w
                fails.append(f)
        except SerError as e:
            fails.append(dict(reason=f"result cannot be interpreted: {e}"))
    return fails


def relabelling_signature(cir, obs):
    """Signature of the recorded-or-repaired defect: some accepted replacement came
    from a re-synthesis that moved an expression's symbol to another qubit."""
    runs = ref_runs(cir)
    if len(runs) != len(obs["news"]):
        return False
    for r, (new, own) in zip(runs, obs["news"]):
        used_new = {q for g in new for q in g[1]}
        used_old = {q for g in r[2] for q in g[1]}
        if not own and len(new) <= len(r[2]) and used_new <= used_old:
            return True
    return False


def case_coq(cid, nq, cir, obs):
    if obs["status"] == "ok":
        news = C.clist(["(%s, %s)" % (circuit_coq(g), C.cbool(o)) for g, o in obs["news"]])
        out = "(Some %s)" % circuit_coq(obs["out"])
    else:
        news, out = "[]", "None"
    return "(mkocase %s %s %s %s %s)" % (C.cN(cid), C.cnat(nq), circuit_coq(cir), news, out)


CODES = {1: "returned gate list differs from the model of the control flow", 2: "result larger than input",
         3: "result uses a qubit outside the circuit", 4: "an accepted replacement is not equivalent to the slice it replaces",
         5: "all-classical circuit: result not equivalent on some basis state", 7: "number of re-synthesis calls differs from the number of sections",
         8: "the optimizer raised"}


def run(tier, seed):
    chk = C.Check(PID, tier, seed, level="proof")
    rng = random.Random(seed)
    ok, log = C.coq_build()
    obl = C.prop_obligations(PID) if ok else dict(theorems=[], axioms={}, ok=False, log=log)
    if not ok or not obl["ok"]:
        chk.broken("theorems of Prop_C12.v do not check", (log + obl.get("log", ""))[-3000:])
        return chk.finish(obl)

    n = 500 if tier == "quick" else 10000
    cases, origin, seen = [], {}, set()
    for nq, cir, tag in FIXED:
        origin[len(cases)] = tag
        cases.append((len(cases), nq, [(k, list(w), p) for k, w, p in cir]))
    gens = [g for g, wgt in GENS for _ in range(wgt)]
    while len(cases) < n:
        nq, cir, tag = rng.choice(gens)(rng)
        key = (nq, repr(cir))
        if key in seen:
            continue
        seen.add(key)
        origin[len(cases)] = tag
        cases.append((len(cases), nq, cir))

    from .progs import run_pool
    observations = run_pool(optimize_task, cases)

    known = {f.get("id"): f for f in C.known_findings(PID) + C.known_findings("C11")}
    direct, known_ids = [], set()
    status = collections.Counter()
    per_origin = collections.Counter()
    replaced = shrunk = n_sections = n_accepted = 0
    nontrivial = set()
    chunks, chunk = [], []
    for (cid, nq, cir), obs in zip(cases, observations):
        status[obs["status"]] += 1
        replay = dict(num_qubits=nq, gates=[list(g) for g in cir], generator=origin[cid])
        if obs["status"] == "timeout":
            continue
        if obs["status"] in ("raise", "ser"):
            if "identity-gate-raises" in known and "Gate not handled for decompilation: I" in obs["exc"]:
                known_ids.add(cid)
                chk.known(known["identity-gate-raises"], f"circuit_boolean_optimizer raised: {replay['gates']}")
            else:
                direct.append(dict(failure=dict(reason="circuit_boolean_optimizer raised", exception=obs["exc"]), **replay))
            if obs["status"] == "raise":
                chunk.append(case_coq(cid, nq, cir, obs))
            continue
        per_origin[origin[cid]] += 1
        n_sections += len(obs["news"])
        if obs["out"] != cir:
            replaced += 1
            nontrivial.add(cid)
        if len(obs["out"]) < len(cir):
            shrunk += 1
        fails = direct_check(nq, cir, obs)
        if fails:
            if "relabelling-section" in known and relabelling_signature(cir, obs) and all(
                    f["reason"] == "the optimized circuit implements a different unitary" for f in fails):
                known_ids.add(cid)
                chk.known(known["relabelling-section"], f"{fails[0]['reason']}: {replay['gates']}")
            else:
                for f in fails:
                    direct.append(dict(failure=f, **replay))
        chunk.append(case_coq(cid, nq, cir, obs))
        if len(chunk) == 400:
            chunks.append(chunk)
            chunk = []
    if chunk:
        chunks.append(chunk)

    texts = []
    for i, ch in enumerate(chunks):
        texts.append((f"cases_{i}", C.COQ_HEADER
                      + "From QV Require Import Bexp BexpTT Circ M_Decompiler M_Decopt P_Decopt Chk_Decompiler Chk_Decopt.\n"
                      + "Definition cases : list ocase := %s.\n" % C.clist(ch).replace("; (mkocase", ";\n (mkocase")
                      + "Eval vm_compute in (chk_ocases cases).\n"
                      + "Eval vm_compute in (map o_id (filter (fun o => match chk_ocase o with [] => false | _ => old_matches_opt o end) cases)).\n"
                      + "Eval vm_compute in (map o_id (filter (fun o => match chk_ocase o with [] => false | _ => old_index_matches o end) cases)).\n"
                      + "Eval vm_compute in (List.length (flat_map (fun o => filter (fun sr => accept (snd (fst sr)) (snd sr)) (combine (sections (o_circ o)) (o_news o))) cases)).\n"))
    res = C.run_cases(PID, texts)
    mismatches, old_like, old_index_like, coq_errors = [], set(), set(), []
    for name, (rc, so, se) in sorted(res.items()):
        if rc != 0:
            coq_errors.append(dict(file=name, error=(so + se)[-1500:]))
            continue
        vals = C.parse_results(so)
        try:
            flat = C.parse_N_list(vals[0])
            old_like.update(C.parse_N_list(vals[1]))
            old_index_like.update(C.parse_N_list(vals[2]))
            n_accepted += int(vals[3].replace("%nat", ""))
        except (ValueError, IndexError):
            coq_errors.append(dict(file=name, error="unparsable output: " + so[:300]))
            continue
        for j in range(0, len(flat), 4):
            cid, code, k, w = flat[j:j + 4]
            mismatches.append(dict(case=cid, code=code, what=CODES.get(code, "?"), section=k, witness=w,
                                   matches_acceptance_test_before_repair=cid in old_like))
    for m in mismatches:
        m["matches_acceptance_test_before_repair"] = m["case"] in old_like

    # ---------------- verdict ----------------
    direct_keys = {(d["num_qubits"], repr(d["gates"])) for d in direct}
    for d in direct[:20]:
        chk.violation("circuit_boolean_optimizer breaks the statement on a concrete circuit: " + d["failure"]["reason"], d)
    if coq_errors:
        chk.broken("the model could not be evaluated on some cases", coq_errors[:3])
    case_by_id = {c[0]: c for c in cases}
    unexplained = []
    for m in mismatches:
        _, nq, cir = case_by_id[m["case"]]
        if m["case"] in known_ids and (m["matches_acceptance_test_before_repair"] or m["code"] == 8):
            continue
        if "end-index-two-barriers" in known and m["code"] == 1 and m["case"] in old_index_like:
            continue  # recorded C11 finding: the replaced slice reached over one trailing barrier
        if (nq, repr([list(g) for g in cir])) in direct_keys:
            continue
        unexplained.append(dict(m, num_qubits=nq, gates=cir))
    if unexplained:
        chk.broken("model and implementation differ, or the verified equivalence check fails, and no failing input was found",
                   unexplained[:10])
    if status["timeout"] > len(cases) // 20:
        chk.broken("too many runs of the optimizer timed out", dict(status))

    chk.coverage.update(
        evaluations=len(cases) - status["timeout"], distinct_nontrivial=len(nontrivial), sections=n_sections,
        sections_replaced=n_accepted, circuits_changed=replaced, circuits_shrunk=shrunk, exhaustive=False,
        rule="seeded random circuits on 1..8 qubits from seven generators (random classical; qubit permutations from CX triples; runs "
             "followed by their inverse or doubled gates; sections on a strict subset of a wider register; classical sections "
             "separated by H/Z/CP/S/T/Swap/CZ/MCtrl gates and barriers; computation into occupied qubits; X only) plus the circuits of "
             "the library's own tests; every accepted replacement and every all-classical circuit is decided on ALL basis states; "
             "distinct = distinct circuits; non-trivial = the optimizer changed the gate list",
        per_generator=dict(per_origin), run_status=dict(status), model_mismatches=len(mismatches), impl_failures=len(direct),
        known_finding_hits=len(known_ids), model_files=len(texts),
        traces_validated_against_impl=len(cases) - status["timeout"] - len(coq_errors),
    )
    ex = [c for c in cases if c[0] in nontrivial][:3]
    chk.samples = [dict(num_qubits=c[1], gates=[(g[0], g[1]) for g in c[2]], optimized=[(g[0], g[1]) for g in observations[c[0]]["out"]],
                        simplified_expressions=observations[c[0]]["exprs"]) for c in ex]
    chk.assumptions = [
        "simplification (sympy) and re-synthesis (exprs_to_quantum) are not modelled: their output on each run is an input of the model, "
        "and is decided equivalent to the replaced slice on all basis states",
        "for circuits with non-classical gates, equality of the unitaries follows from C12_optimize_preserves under the reading that "
        "gate lists compose associatively and that classical gate lists with equal action on all basis states denote the same operator; "
        "the numpy comparison of the full unitaries (<= 8 qubits) is run on every case as a validation aid",
        "a gate counts as classical when its class is one of the library's ZB_GATES",
    ]
    return chk.finish(obl)


def replay(path):
    import json

    d = json.load(open(path))
    if "gates" not in d:  # a broken proof / correspondence, not a failing input
        print(json.dumps(d, indent=1)[:4000])
        return 1
    nq, cir = d["num_qubits"], [(g[0], list(g[1]), g[2]) for g in d["gates"]]
    obs = optimize_task((0, nq, cir))
    print("circuit:", cir)
    print("implementation:", obs)
    bad = obs["status"] != "ok" or bool(direct_check(nq, cir, obs))
    if obs["status"] == "ok":
        print("failures:", direct_check(nq, cir, obs))
    print("VIOLATION reproduced" if bad else "not reproduced")
    return 1 if bad else 0
