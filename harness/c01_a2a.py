"""C01, normaliser layer — correspondence between the REAL source-to-source normaliser
of qlasskit (qlasskit/ast2ast: ConstantFolder, ReplaceMultiTargetAssign, ASTRewriter,
ConstantFolder) and the Coq model M_A2A.v (a2a), and between the model's reference
evaluator and CPython.

For every program of the corpus:
  * the source is parsed with `ast`; the ORIGINAL tree is serialised into M_A2A's datatype by
    a fail-closed converter (anything outside the fragment: `unmodelled` with the reason);
  * the real `qlasskit.ast2ast.ast2ast.ast2ast` runs on a deep copy; its output body is
    serialised the same way (or: it raised / its output is outside the datatype);
  * the argument annotations the rewriter sees are read from a second deep copy after the real
    ConstantFolder + ReplaceTypeAnn (ReplaceTypeAnn is not modelled);
  * inside coqc (Chk_A2A.v): a2a(original) == implementation output EXACTLY (structural
    equality of the statement lists, raise <-> raise); the cases the model declines (Unmod)
    are counted as unmodelled; the reference evaluator runs on the original and on the
    implementation's output for a few argument values, compared with each other and with
    what CPython returned for the source function (annotations stripped, plain ints / bools /
    tuples); the decidable guard of the theorem and the theorem's instance per sample.

collect(tier, seed) -> dict(cases, distinct, mismatches, impl_failures, unmodelled,
                            distribution, coq_errors, harness_errors, timings, ...)
"""
import ast
import collections
import copy
import importlib
import multiprocessing as mp
import os
import random
import shutil
import signal
import subprocess
import sys
import time

from . import common as C

if C.REPO not in sys.path[:1]:
    sys.path.insert(0, C.REPO)

RUN_DIR = "C01_a2a"
MAX_FILES = 16
PER_FILE_MAX = 500


class Unmodelled(Exception):
    pass


class _Timeout(Exception):
    pass


def _alarm(signum, frame):
    raise _Timeout()


# --------------------------------------------------------------------------
# programs
# --------------------------------------------------------------------------
def a2a_templates():
    """Programs aimed at each branch of the four passes."""
    t = []
    B2 = "def test(a: bool, b: bool) -> bool:\n"
    B3 = "def test(a: bool, b: bool, c: bool) -> bool:\n"
    I2 = "def test(x: Qint[2], y: Qint[2]) -> Qint[4]:\n"
    I2B = "def test(x: Qint[2], y: Qint[2], c: bool) -> Qint[4]:\n"
    # ---- ReplaceMultiTargetAssign
    t.append(B2 + "    a, b = b, a\n    return a and not b")
    t.append(B3 + "    a, b, c = c, a, b\n    return a and not b or c")
    t.append(B2 + "    [a, b] = [b, a]\n    return a")
    t.append(B2 + "    (a, b) = (b, a)\n    a, b = b, a\n    return a")
    t.append(B2 + "    a, b = b, a\n    b, a = a, b\n    return a ^ b")
    t.append(I2 + "    x, y = y, x + y\n    x, y = y, x + y\n    return x + y")
    t.append(I2 + "    x, y = 1, 2\n    return x + y")
    t.append(I2 + "    x, y = 1, 2, 3\n    return x + y")
    t.append(I2 + "    x, y, z = 1, 2\n    return x + y")
    t.append("def test(t: Tuple[bool, bool]) -> bool:\n    a, b = t\n    return a and b")
    t.append("def test(t: Tuple[Tuple[bool, bool], bool]) -> bool:\n    t, a = t\n    return a")
    t.append("def test(t: Tuple[Tuple[bool, bool], bool]) -> bool:\n    a, t = t\n    return t")
    t.append("def test(t: Tuple[Tuple[bool, bool], bool]) -> bool:\n    (a, b), c = t\n    return c")
    t.append(B2 + "    a, = (b,)\n    return a")
    t.append(B2 + "    t = (a, b)\n    t[0], b = b, a\n    return b")
    t.append(B3 + "    if c:\n        a, b = b, a\n    return a")
    t.append(B3 + "    for i in range(2):\n        a, b = b, a ^ c\n    return a")
    t.append(I2 + "    x, y = y, x\n    return x - y if x > y else y - x")
    # ---- ASTRewriter.visit_If
    t.append(B3 + "    if a:\n        b = c\n    return b")
    t.append(B3 + "    if a:\n        b = c\n    else:\n        b = not c\n    return b")
    t.append(B3 + "    if a:\n        a = b\n        b = not a\n    else:\n        a = c\n    return a ^ b")
    t.append(B3 + "    if a:\n        a = not a\n    if a:\n        b = c\n    return b")
    t.append(B3 + "    if a:\n        b = b and c\n        c = b or a\n    elif b:\n        c = not c\n    else:\n        a = c\n        c = a ^ b\n    return c")
    t.append(B3 + "    if a:\n        if b:\n            c = not c\n    return c")
    t.append(B3 + "    if a:\n        c = not c\n    else:\n        if b:\n            c = a\n        else:\n            c = b\n    return c")
    t.append(B3 + "    if a:\n        c = not c\n    elif b:\n        c = a\n    elif c:\n        c = b\n    else:\n        c = True\n    return c")
    t.append(B3 + "    d = a\n    if d:\n        d = b\n        d = d ^ c\n        d ^= a\n    return d")
    t.append(B3 + "    if a:\n        return b\n    return c")
    t.append(B3 + "    if a:\n        print(b)\n    return c")
    t.append(B3 + "    if a:\n        pass\n    return c")
    t.append(B3 + "    if a:\n        b = c\n    else:\n        return a\n    return b")
    t.append(B3 + "    if a and b:\n        x = c\n    else:\n        x = not c\n    return x")
    t.append(B3 + "    if a:\n        x = c\n    return x")
    t.append(B3 + "    if True:\n        a = b\n    else:\n        a = c\n    return a")
    t.append(B3 + "    if 0:\n        a = b\n    return a")
    t.append(B3 + "    if 1 < 2:\n        a = b\n    elif c:\n        a = c\n    return a")
    t.append(B3 + "    if c:\n        if 3 >= 3:\n            a = b\n    return a")
    t.append(B3 + "    if a:\n        __b = c\n    return b")
    t.append(B3 + "    __b = c\n    if a:\n        __b = c\n    return b")
    t.append(I2B + "    if c:\n        x = x + 1\n        y += x\n    else:\n        x, y = y, x\n    return x + y")
    t.append(I2B + "    z = x\n    if x > y:\n        z = y\n        if c:\n            z = z + 1\n    elif x == y:\n        z = 0\n    return z")
    # sixteen ifs: the counter is printed in hexadecimal
    t.append(B3 + "".join(f"    if a:\n        b = not b\n" for _ in range(17)) + "    return b")
    # ---- ASTRewriter.visit_Assign / visit_AugAssign
    t.append(I2 + "    x = x + 1\n    return x")
    t.append(I2 + "    z = x + 1\n    z = z + 1\n    z = y\n    z = z\n    return z")
    t.append(I2 + "    p = 0\n    p = p + x\n    p = p + y\n    return p")
    t.append(I2 + "    p = 1\n    p = p + x\n    return p")
    t.append(I2 + "    p = False\n    p = p or x > y\n    return x if p else y")
    t.append(I2 + "    p = 0\n    p += x\n    p <<= 1\n    p -= y\n    p *= 2\n    p ^= 3\n    p |= 1\n    p &= 7\n    p %= 4\n    p >>= 1\n    return p")
    t.append(I2 + "    z = 2\n    z = 3\n    return x + z")
    t.append(I2 + "    z = (x, y)\n    z = (z[1], z[0])\n    return z[0]")
    t.append(I2 + "    z = [x, y]\n    z = [z[1], z[0]]\n    return z[0]")
    t.append(I2 + "    z = (x, y)\n    w = z\n    w = (w[0] + 1, w[1])\n    return w[0]")
    t.append(I2 + "    x **= 2\n    return x")
    t.append(I2 + "    __x = y\n    return x")
    t.append(I2 + "    z = __x\n    return x")
    t.append(I2 + "    x += __y\n    return x")
    t.append(I2 + "    x = y = 1\n    return x")
    t.append(I2 + "    z: Qint[2] = x\n    return z")
    t.append(I2 + "    z = (x ** 2, len((x, y)))\n    return z[0]")
    t.append(I2 + "    z = [x ** 2, y]\n    return z[0]")
    t.append(I2 + "    z = ((x, y)[x], 1)\n    return z[0]")
    t.append(I2 + "    x = (x, y)\n    return x[0]")
    t.append(I2 + "    f = x\n    f = f(y)\n    return f")
    # ---- visit_For
    t.append(I2 + "    s = 0\n    for i in range(3):\n        s = s + i\n    return s + x")
    t.append(I2 + "    s = x\n    for i in range(1, 4):\n        s += i\n    return s")
    t.append(I2 + "    s = x\n    for i in range(6, 0, -2):\n        s = s + i\n    return s")
    t.append(I2 + "    s = x\n    for i in range(0):\n        s = s + i\n    return s")
    t.append(I2 + "    s = x\n    for i in range(1 + 1):\n        s = s + i\n    return s")
    t.append(I2 + "    s = x\n    for i in range(y):\n        s = s + i\n    return s")
    t.append(I2 + "    s = x\n    for i in range(2, 0):\n        s = s + i\n    return s")
    t.append(I2 + "    s = x\n    for i in range(0, 2, 0):\n        s = s + i\n    return s")
    t.append(I2 + "    s = x\n    for i in range(True):\n        s = s + i\n    return s")
    t.append(I2 + "    s = x\n    for i in range():\n        s = s + i\n    return s")
    t.append(I2 + "    s = x\n    for i in range(4):\n        if i >= 2:\n            s = s + i\n    return s")
    t.append(I2 + "    s = x\n    for i in range(4):\n        if i > 1 and x >= i:\n            s = s + i\n        elif i <= 0:\n            s = s + 1\n    return s")
    t.append(I2 + "    s = x\n    for i in range(3):\n        for j in range(2):\n            s = s + i * j\n    return s")
    t.append(I2 + "    s = x\n    for i in range(2):\n        for i in range(2):\n            s = s + i\n    return s")
    t.append(I2 + "    s = x\n    for i in range(2):\n        i = i + 1\n        s = s + i\n    return s")
    t.append(I2 + "    s = x\n    for i in range(2):\n        i += 1\n    return s")
    t.append(I2 + "    s = x\n    for i in range(2):\n        for j in range(0):\n            i = 3\n    return s")
    t.append(I2 + "    s = x\n    for i in range(2):\n        s = s + 1\n    else:\n        s = 0\n    return s")
    t.append(I2 + "    for i in range(2):\n        return x + i\n    return y")
    t.append(I2 + "    s = x\n    for i in [1, 2, 3]:\n        s = s + i\n    return s")
    t.append(I2 + "    s = x\n    for i in (1, True, 3):\n        s = s + i\n    return s")
    t.append(I2 + "    s = x\n    for i in [(1, 2), (3, 0)]:\n        s = s + i[0] + i[1]\n    return s")
    t.append(I2 + "    s = x\n    for i in [x, y]:\n        s = s + i\n    return s")
    t.append(I2 + "    s = x\n    t = (1, 2)\n    for i in t:\n        s = s + i\n    return s")
    t.append(I2 + "    s = x\n    t = (x, y)\n    for i in t:\n        s = s + i\n    return s")
    t.append(I2 + "    s = x\n    t = (x, y)\n    x = 0\n    for i in t:\n        s = s + i\n    return s")
    t.append(I2 + "    t = (1, 2, 3)\n    s = x\n    for i in range(3):\n        s = s + t[i]\n    return s")
    t.append(I2 + "    t = (x, y, 3)\n    s = 0\n    for i in range(len(t)):\n        s = s + t[i]\n    return s")
    t.append("def test(a: Qlist[bool, 3]) -> bool:\n    c = False\n    for x in a:\n        c = c ^ x\n    return c")
    t.append("def test(a: Qlist[bool, 3], b: bool) -> bool:\n    c = False\n    for x in a:\n        if x:\n            c = not c\n        else:\n            c = c and b\n    return c")
    t.append("def test(a: Tuple[bool, bool]) -> bool:\n    s = False\n    for x in a:\n        a = (s, x)\n        s = s ^ x\n    return s")
    t.append("def test(a: Qlist[Qint[2], 3]) -> Qint[4]:\n    s = 0\n    for i in range(3):\n        s += a[i]\n    return s")
    t.append("def test(m: Qmatrix[bool, 2, 3]) -> bool:\n    r = False\n    for x in m[0]:\n        r = r ^ x\n    return r")
    t.append("def test(m: Qmatrix[bool, 2, 2]) -> bool:\n    r = False\n    for row in m:\n        for x in row:\n            r = r ^ x\n    return r")
    t.append("def test(m: Qmatrix[bool, 2, 2]) -> bool:\n    r = False\n    for i in range(2):\n        for j in range(2):\n            r = r ^ m[i][j]\n    return r")
    t.append("def test(m: Qmatrix[bool, 3, 2]) -> bool:\n    r = False\n    for i in range(3):\n        for x in m[i]:\n            r = r ^ x\n    return r")
    t.append("def test(a: Tuple[bool]) -> bool:\n    c = False\n    for x in a:\n        c = c ^ x\n    return c")
    t.append("def test(a: Qint[2]) -> Qint[2]:\n    for x in a:\n        a = a + 1\n    return a")
    # ---- visit_Subscript
    t.append("def test(a: Qlist[bool, 3], i: Qint[2]) -> bool:\n    return a[i]")
    t.append("def test(a: Tuple[bool, bool, bool, bool], i: Qint[2]) -> bool:\n    return a[i]")
    t.append("def test(m: Qmatrix[bool, 2, 2], i: Qint[2], j: Qint[2]) -> bool:\n    return m[i][j]")
    t.append("def test(m: Qmatrix[bool, 2, 3], i: Qint[2], j: Qint[2]) -> bool:\n    return m[i][j]")
    t.append("def test(m: Qmatrix[bool, 3, 2], i: Qint[2], j: Qint[2]) -> bool:\n    return m[i][j]")
    t.append("def test(a: bool, b: bool, i: Qint[2]) -> bool:\n    return (a, b)[i]")
    t.append("def test(a: bool, b: bool, i: Qint[2]) -> bool:\n    t = (a, b)\n    return t[i]")
    t.append("def test(a: bool, b: bool, i: Qint[2]) -> bool:\n    t = [a, b, not a]\n    return t[i]")
    t.append("def test(a: bool, b: bool, u: Tuple[Qint[2], bool]) -> bool:\n    t = (a, b)\n    return t[u[0]]")
    t.append("def test(a: bool, b: bool, u: Tuple[Qint[2], bool]) -> bool:\n    t = (a, b)\n    a = not a\n    return t[u[0]]")
    t.append("def test(a: bool, b: bool, c: bool, u: Tuple[Qint[2], bool]) -> bool:\n    t = (a, b)\n    if c:\n        t = (b, a)\n    return t[u[0]]")
    t.append("def test(a: bool, b: bool, u: Tuple[Qint[2], bool], v: Tuple[bool, bool]) -> bool:\n    t = (a, b)\n    t = v\n    return t[u[0]]")
    t.append("def test(a: bool, u: Tuple[Qint[2], bool]) -> bool:\n    return a[u[0]]")
    t.append("def test(i: Qint[2]) -> Qint[4]:\n    c = [1, 5, 9, 3]\n    return c[i]")
    t.append("def test(i: Qint[2]) -> Qint[4]:\n    return [1, 5, 9, 3][i]")
    t.append("def test(i: Qint[2]) -> Qint[4]:\n    return [1, 5, 9, 3][2] + i")
    t.append("def test(i: Qint[2]) -> Qint[4]:\n    return [1, 5, 9, 3][-1] + [1, 2][True] + i")
    t.append("def test(i: Qint[2]) -> Qint[4]:\n    return [1, 5, 9, 3][7] + i")
    t.append("def test(i: Qint[2]) -> Qint[4]:\n    return (1, 5, 9, 3)[2] + i")
    t.append("def test(i: Qint[2]) -> Qint[4]:\n    return [1, i][0] + i")
    t.append("def test(c: bool, t: Tuple[bool, bool]) -> bool:\n    i = 0\n    if c:\n        i = 1\n    return t[i]")
    t.append("def test(t: Tuple[bool, bool]) -> bool:\n    i = 1\n    return t[i]")
    t.append("def test(t: List[bool]) -> bool:\n    return t[0]")
    t.append("def test(a: Qint[4], i: Qint[2]) -> bool:\n    return a[i]")
    t.append("def test(a: Qint[4]) -> bool:\n    return a[0] and a[3]")
    t.append("def test(a: Qlist[bool, 2], i: Qint[2]) -> bool:\n    i = i + 1\n    return a[i]")
    t.append("def test(a: Qlist[bool, 2]) -> bool:\n    return a[0:1][0]")
    # ---- visit_Call
    t.append("def test(a: Qlist[bool, 3]) -> bool:\n    return all(a) or any(a)")
    t.append("def test(a: bool, b: bool) -> bool:\n    return all((a, b)) ^ any([a, b])")
    t.append("def test(a: bool) -> bool:\n    return all((a,))")
    t.append("def test(a: bool) -> bool:\n    return all(()) and a")
    t.append("def test(a: bool) -> bool:\n    return all(a)")
    t.append("def test(a: bool) -> bool:\n    return all(a, a)")
    t.append("def test(a: Qlist[Qint[2], 3]) -> Qint[4]:\n    return sum(a) + len(a)")
    t.append("def test(x: Qint[2], y: Qint[2]) -> Qint[4]:\n    return sum((x, y, 1)) + len((x, y)) + len(x)")
    t.append("def test(x: Qint[2], y: Qint[2]) -> Qint[4]:\n    return sum([x]) + sum((1, 2)) + len([])")
    t.append("def test(x: Qint[2], y: Qint[2]) -> Qint[4]:\n    return sum(()) + x")
    t.append("def test(x: Qint[2], y: Qint[2]) -> Qint[4]:\n    return max(x, y) + min(x, y)")
    t.append("def test(x: Qint[2], y: Qint[2], z: Qint[2]) -> Qint[4]:\n    return max(x, y, z) - min(x, y, z)")
    t.append("def test(a: Qlist[Qint[2], 3]) -> Qint[2]:\n    return max(a) - min(a)")
    t.append("def test(x: Qint[2]) -> Qint[2]:\n    return max(x) + min((x,)) + max(1, 2) + min([3, 1, 2]) + abs(-1)")
    t.append("def test(x: Qint[2]) -> Qint[2]:\n    return max()")
    t.append("def test(x: Qint[2]) -> Qint[4]:\n    t = (x, 1, 2)\n    return sum(t) + len(t) + max(t)")
    t.append("def test(x: Qint[2]) -> Qint[4]:\n    t = (x, 1, 2)\n    t = 3\n    return len(t)")
    t.append("def test(m: Qmatrix[Qint[2], 2, 2]) -> Qint[4]:\n    return sum(m[0]) + len(m[1]) + max(m[0])")
    t.append("def test(m: Qmatrix[Qint[2], 2, 3]) -> Qint[4]:\n    return sum(m[0]) + len(m[1])")
    t.append("def test(x: Qint[2]) -> Qint[4]:\n    return x ** 2 + x ** 1 + x ** 0 + x ** 3")
    t.append("def test(x: Qint[2]) -> Qint[4]:\n    return (x + 1) ** 2")
    t.append("def test(x: Qint[2], y: Qint[2]) -> Qint[4]:\n    return x ** y + 2 ** 3 + x ** True + x ** False")
    t.append("def test(x: Qint[2]) -> Qint[4]:\n    return x ** -1")
    t.append("def test(x: Qint[2]) -> Qint[4]:\n    return (x ** 2) ** 2")
    t.append("def test(a: bool) -> bool:\n    print(a)\n    return a")
    t.append("def test(a: bool) -> bool:\n    print(a, not a, 1)\n    print()\n    return a")
    t.append("def test(a: bool) -> bool:\n    a\n    a and not a\n    return a")
    t.append("def test(a: Qchar) -> Qchar:\n    return chr(ord(a))")
    t.append("def test(a: Qint[2]) -> Qint[2]:\n    return Qint2(1) + int(a) + a")
    t.append("def test(a: Qint[2]) -> Qint[2]:\n    return len(range(3)) + a")
    # ---- ConstantFolder
    t.append(I2 + "    return x + (1 + 2) * 3 - (7 // 2) + (7 % 3) + (1 << 3) + (9 >> 1) + (6 & 3) + (6 | 3) + (6 ^ 3)")
    t.append(I2 + "    return x + (-7 // 2) + (-7 % 3) + (7 // -2) + (7 % -3) + (-9 >> 1) + (-(3)) + (~5) + (+4)")
    t.append(I2 + "    return x + (True + True) + (True & False) + (True | 2) + (True ^ True) + (not 0) + (not 3)")
    t.append(I2 + "    return x + 2 ** 10 + 2 ** 0 + 0 ** 0 + (-2) ** 3")
    t.append(I2 + "    return x + 2 ** -1")
    t.append(I2 + "    return x + 1 // 0")
    t.append(I2 + "    return x + 1 % 0")
    t.append(I2 + "    return x + (1 << -1)")
    t.append(I2 + "    return x + 4 / 2")
    t.append(I2 + "    return x + 1 / 0")
    for op in ("==", "!=", "<", "<=", ">", ">="):
        for a_, b_ in ((2, 3), (3, 3), (4, 3), (True, 1), (0, False)):
            t.append(I2 + f"    return x if {a_} {op} {b_} else y")
    t.append(I2 + "    return x if 1 < 2 < 3 else y")
    t.append(I2 + "    return x if 1 is 1 else y")
    t.append(I2 + "    return x if 1 in (1, 2) else y")
    t.append(I2 + "    return x if True else y")
    t.append(I2 + "    return x if 0 else y")
    t.append(I2 + "    return x if (1 if 0 else 0) else y")
    t.append(I2 + "    return x if not (2 >= 2) else y")
    t.append(I2 + "    return x if 'a' == 'a' else y")
    t.append(I2 + "    return x if None else y")
    t.append(I2 + "    return x if 0.5 < 1 else y")
    t.append(I2 + "    return x + len((1, 2, 3)) + len([1, 2]) + sum((1, 2)) + sum([True, True]) + max(3, 4) + min([4, 2, 3])")
    t.append(I2 + "    return x + abs(-3) + abs(True) + max(True, 1) + max(1, True) + min(False, 0)")
    t.append(I2 + "    return x if all([1, 2]) and any((0, 0)) else y")
    t.append(I2 + "    return x if all([]) else y")
    t.append(I2 + "    return x + max([])")
    t.append(I2 + "    return x + len(3)")
    t.append(I2 + "    return x + min(3)")
    t.append(I2 + "    return x + max(1, (1 + 1))")
    t.append(I2 + "    return x + max((1, y))")
    t.append(I2 + "    return x + sum([1, 2], 3)")
    t.append(I2 + "    return x + ord('a')")
    t.append(I2 + "    return x + (1 if y > 2 else 2) * (1 + 1)")
    t.append(I2 + "    z = (1 + 1, 2 * 2)\n    return x + z[0]")
    t.append(I2B + "    z = x\n    if c and 1 > 0:\n        z = y + (2 - 2)\n    return z")
    t.append(I2B + "    for i in range(2 * 2):\n        if i % 2 == 0:\n            x = x + i\n        if 2 >= i:\n            y = y + 1\n    return x + y")
    # ---- regression corpus: the ten defects repaired in /repo (cc7fed2 .. d025bfb) and their neighbours
    t.append("def test(t: Tuple[Tuple[bool, bool], bool]) -> bool:\n    t, a = t\n    return a")                                    # D1
    t.append("def test(t: Tuple[Tuple[bool, bool], bool]) -> bool:\n    a, t = t\n    return t")
    t.append("def test(t: Tuple[bool, bool], u: Tuple[bool, bool]) -> bool:\n    t, u = u\n    return t and u")
    t.append("def test(t: Tuple[Tuple[bool, bool], bool], c: bool) -> bool:\n    a = c\n    if c:\n        t, a = t\n    return a")
    t.append("def test(a: bool, b: bool, u: Tuple[Qint[2], bool]) -> bool:\n    t = (a, b)\n    a = not a\n    return t[u[0]]")     # D2
    t.append("def test(a: bool, b: bool, c: bool, u: Tuple[Qint[2], bool]) -> bool:\n    t = (a, b)\n    if c:\n        t = (b, a)\n    return t[u[0]]")  # D3
    t.append("def test(a: bool, b: bool, u: Tuple[Qint[2], bool], v: Tuple[bool, bool]) -> bool:\n    t = (a, b)\n    t = v\n    return t[u[0]]")      # D4
    t.append("def test(u: Tuple[Qint[2], bool]) -> Qint[4]:\n    t = (1, 2)\n    t = (3, 4)\n    return t[u[0]]")
    t.append("def test(a: Qint[2], u: Tuple[Qint[2], bool]) -> Qint[4]:\n    t = (1, a)\n    a = a + 1\n    return t[u[0]]")
    t.append("def test(a: Qint[2], u: Tuple[Qint[2], bool]) -> Qint[4]:\n    t = (1, 2)\n    w = t\n    t = (a, 3)\n    return w[u[0]] + t[u[0]]")
    t.append("def test(m: Qmatrix[bool, 2, 3]) -> bool:\n    r = False\n    for x in m[0]:\n        r = r ^ x\n    return r")                          # D5
    t.append("def test(m: Qmatrix[bool, 2, 3]) -> bool:\n    r = False\n    for x in m[1]:\n        r = r ^ x\n    return r")
    t.append("def test(m: Qmatrix[bool, 3, 2]) -> bool:\n    r = False\n    for x in m[2]:\n        r = r ^ x\n    return r")
    t.append("def test(m: Qmatrix[bool, 2, 3]) -> bool:\n    r = False\n    for x in m[-1]:\n        r = r ^ x\n    return r")
    t.append("def test(m: Qmatrix[bool, 2, 3]) -> bool:\n    r = False\n    for x in m[2]:\n        r = r ^ x\n    return r")
    t.append("def test(m: Qmatrix[bool, 2, 3]) -> bool:\n    r = False\n    for x in m[True]:\n        r = r ^ x\n    return r")
    t.append("def test(m: Tuple[Tuple[bool, bool], Tuple[bool, bool, bool]]) -> bool:\n    r = False\n    for x in m[1]:\n        r = r ^ x\n    return r")
    t.append("def test(m: Tuple[bool, Tuple[bool, bool, bool]]) -> bool:\n    r = False\n    for x in m[0]:\n        r = r ^ x\n    return r")
    t.append("def test(m: Qmatrix[Qint[2], 2, 3]) -> Qint[4]:\n    return sum(m[1]) + len(m[0]) + max(m[1])")
    t.append("def test(m: Qmatrix[bool, 2, 3], i: Qint[2], j: Qint[2]) -> bool:\n    return m[i][j]")                                               # D6
    t.append("def test(m: Qmatrix[bool, 3, 2], i: Qint[2], j: Qint[2]) -> bool:\n    return m[i][j]")
    t.append("def test(m: Qmatrix[bool, 1, 3], i: Qint[2], j: Qint[2]) -> bool:\n    return m[i][j]")
    t.append("def test(a: Tuple[bool, bool]) -> bool:\n    s = False\n    for x in a:\n        a = (s, x)\n        s = s ^ x\n    return s")       # D7
    t.append("def test(a: Tuple[bool, bool], c: bool) -> bool:\n    s = False\n    for x in a:\n        if c:\n            a = (s, x)\n        s = s ^ x\n    return s")
    t.append("def test(a: Tuple[Qint[2], Qint[2]]) -> Qint[4]:\n    s = 0\n    for x in a:\n        for i in range(2):\n            a = (s, x)\n        s = s + x\n    return s")
    t.append("def test(a: Tuple[bool, bool]) -> bool:\n    s = False\n    for x in a:\n        s = s ^ x\n    a = (s, s)\n    return a[0]")
    t.append("def test(a: Tuple[bool, bool], b: Tuple[bool, bool]) -> bool:\n    s = False\n    for x in a:\n        a, b = b, a\n        s = s ^ x\n    return s")
    t.append("def test(a: bool, b: bool) -> bool:\n    s = False\n    t = (a, b)\n    for x in t:\n        t = (s, x)\n        s = s ^ x\n    return s")
    t.append("def test(a: Qint[2]) -> Qint[4]:\n    s = 0\n    t = (1, 2)\n    for x in t:\n        t = (s, x)\n        s = s + x + a\n    return s")
    t.append("def test(a: Tuple[bool, bool]) -> bool:\n    s = False\n    for x in a:\n        if x:\n            s = not s\n    for y in a:\n        a = (s, y)\n        if y:\n            s = not s\n    return s")
    t.append("def test(a: bool) -> bool:\n    r = a\n    for x in [()]:\n        r = a if x else not a\n    return r")                                  # D8
    t.append("def test(a: bool) -> bool:\n    r = a\n    for x in [(1, 2), ()]:\n        r = r if x else not r\n    return r")
    t.append("def test(a: bool) -> bool:\n    r = a\n    for x in [()]:\n        if x:\n            r = not a\n    return r")
    t.append("def test(x: Qint[2]) -> Qint[4]:\n    s = x\n    for i in range(2):\n        s = s + 1\n    else:\n        s = 0\n    return s")    # D9
    t.append("def test(x: Qint[2], c: bool) -> Qint[4]:\n    s = x\n    for i in range(2):\n        s = s + i\n    else:\n        if c:\n            s = s + 4\n        i = 7\n    return s + i")
    t.append("def test(x: Qint[2]) -> Qint[4]:\n    s = x\n    for i in range(0):\n        s = s + 1\n    else:\n        s = s + 2\n    return s")
    t.append("def test(x: Qint[2]) -> Qint[4]:\n    s = x\n    for i in range(2):\n        for j in range(2):\n            s = s + j\n        else:\n            s = s + i\n    else:\n        x, s = s, x\n    return s + x")
    t.append("def test(x: Qint[2]) -> Qint[4]:\n    s = x\n    for i in range(2):\n        s = s + 1\n    else:\n        for i in range(1 + 1):\n            s += i\n    return s")
    t.append("def test(x: Qint[2]) -> Qint[4]:\n    for i in range(2):\n        x = x + 1\n    else:\n        return x\n    return 0")
    t.append("def test(a: Qint[2]) -> Qint[4]:\n    return len(range(3)) + a")                                                                         # D10
    t.append("def test(a: Qint[2]) -> Qint[4]:\n    return sum(range(4)) + max(range(1, 4)) + min(range(2, 5)) + a")
    t.append("def test(a: Qint[2]) -> bool:\n    return all(range(1, 3)) and any(range(2)) and a > 1")
    t.append("def test(a: Qint[2]) -> Qint[4]:\n    return len(range(a)) + a")
    t.append("def test(a: Qint[2]) -> Qint[4]:\n    return max(range(3), 1) + a")
    t.append("def test(a: Qint[2]) -> Qint[4]:\n    return sum(range(0)) + a")
    t.append("def test(a: Qint[2]) -> Qint[4]:\n    return abs(range(3)) + a")
    # ---- second regression group: repaired by cbb039f (reserved names: now rejected), 31c53a1 (ragged rows), e979369
    t.append("def test(c: bool, u: Tuple[Qint[2], bool]) -> bool:\n    t = (True, False)\n    if c:\n        t = (False, True)\n    return t[u[0]]")
    t.append("def test(c: bool, u: Tuple[Qint[2], bool]) -> Qint[4]:\n    t = (1, 2)\n    if c:\n        t = (3, 4)\n    return t[u[0]]")
    t.append("def test(m: Tuple[Tuple[bool, bool], Tuple[bool, bool, bool]], i: Qint[2], j: Qint[2]) -> bool:\n    return m[i][j]")
    t.append("def test(a: bool, b: bool) -> bool:\n    _temptup = (a, b)\n    a, b = b, a\n    return _temptup[0]")
    t.append("def test(a: bool, b: bool, c: bool) -> bool:\n    _iftarg2 = c\n    if a:\n        b = not b\n    return _iftarg2")
    t.append("def test(a: bool, b: bool, c: bool) -> bool:\n    if a:\n        _iftarg9 = c\n    else:\n        _iftarg9 = b\n    return _iftarg9")
    t.append("def test(a: bool, b: bool) -> bool:\n    _temptup = a\n    a, b = b, _temptup\n    return a and _temptup")
    t.append("def test(_forit3: bool) -> bool:\n    return _forit3")
    t.append("def test(a: bool) -> bool:\n    _x = a\n    _y, _z = _x, not _x\n    if _y:\n        _z ^= _x\n    return _z")
    t.append("def test(m: Tuple[Tuple[bool, bool, bool], Tuple[bool]], i: Qint[2], j: Qint[2]) -> bool:\n    return m[i][j]")
    t.append("def test(m: Tuple[Tuple[bool, bool], bool], i: Qint[2], j: Qint[2]) -> bool:\n    return m[i][j]")
    # ---- parameters bound to constants and then re-assigned (what bind() injects)
    t.append("def test(a: Qint[2]) -> Qint[4]:\n    p = 0\n    q = 3\n    p = p + a\n    q = q + p\n    return q")
    t.append("def test(a: Qint[2]) -> Qint[4]:\n    p = False\n    p = not p\n    return a if p else a + 1")
    t.append("def test(a: Qint[2]) -> Qint[4]:\n    p = 0\n    if a > 1:\n        p = p + 2\n    return p + a")
    t.append("def test(a: Qint[2]) -> Qint[4]:\n    p = 0\n    for i in range(2):\n        p = p + a\n    return p")
    t.append("def test(a: Qint[2]) -> Qint[4]:\n    p = (0, 1)\n    p = (p[1], p[0])\n    return a + p[0]")
    t.append("def test(a: Qint[2]) -> Qint[4]:\n    p = a\n    p = 0\n    p = p + 1\n    return p")
    return t


def open_finding_templates():
    """Programs the CURRENT /repo accepts and mis-translates (reported, not yet repaired or listed in
    known_findings.json).  Their evaluation failures are returned as `open_findings`, not as
    `impl_failures`; once repaired they belong in a2a_templates().  Empty at /repo e979369."""
    return []


def _cond(rng, bools, ints, loopvars, depth=2):
    r = rng.random()
    if depth == 0 or r < 0.3:
        if bools and rng.random() < 0.6:
            return rng.choice(bools)
        if ints:
            a = rng.choice(ints + loopvars) if loopvars and rng.random() < 0.5 else rng.choice(ints)
            return f"{a} {rng.choice(['==', '!=', '<', '<=', '>', '>='])} {rng.choice(ints + loopvars + ['0', '1', '2', '3'])}"
        return rng.choice(["True", "False"])
    if r < 0.45 and loopvars:
        return f"{rng.choice(loopvars)} {rng.choice(['>=', '<=', '>', '<', '==', '!='])} {rng.randint(0, 3)}"
    if r < 0.55:
        k = rng.randint(0, 4)
        return f"{k} {rng.choice(['>=', '<=', '>', '<', '==', '!='])} {rng.randint(max(0, k - 1), k + 1)}"
    if r < 0.7:
        return f"not ({_cond(rng, bools, ints, loopvars, depth - 1)})"
    op = rng.choice(["and", "or"])
    return f"({_cond(rng, bools, ints, loopvars, depth - 1)}) {op} ({_cond(rng, bools, ints, loopvars, depth - 1)})"


def _iexp(rng, ints, loopvars, depth=2):
    if depth == 0 or rng.random() < 0.3:
        pool = ints + loopvars + [str(rng.randint(0, 3))]
        return rng.choice(pool)
    op = rng.choice(["+", "+", "-", "*", "&", "|", "^", "<<", ">>"])
    if op in ("<<", ">>"):
        return f"({_iexp(rng, ints, loopvars, depth - 1)} {op} {rng.randint(0, 2)})"
    return f"({_iexp(rng, ints, loopvars, depth - 1)} {op} {_iexp(rng, ints, loopvars, depth - 1)})"


def rw_program(rng):
    """A random program aimed at the rewriter: nested if / elif / else with re-assignments of the
    condition variable, swaps, loops with conditions inside, augmented assignments, names bound to a
    constant and re-assigned, constant comparisons at / below / above their boundary."""
    nb, ni = rng.randint(1, 3), rng.randint(1, 2)
    bools = ["a", "b", "c"][:nb]
    ints = ["x", "y"][:ni]
    sig = ", ".join([f"{v}: bool" for v in bools] + [f"{v}: Qint[{rng.choice([2, 2, 3])}]" for v in ints])
    withtup = rng.random() < 0.25
    if withtup:
        sig += ", t: Qlist[bool, 3]" if rng.random() < 0.5 else ", t: Tuple[bool, bool]"
    lines = []
    locs_b, locs_i = list(bools), list(ints)
    if rng.random() < 0.5:
        k = rng.choice([0, 0, 1, 3])
        lines.append(f"    p = {k}")
        locs_i.append("p")
    if rng.random() < 0.3:
        lines.append(f"    q = {rng.choice(['False', 'True'])}")
        locs_b.append("q")

    def block(ind, depth, loopvars, budget):
        out = []
        for _ in range(rng.randint(1, budget)):
            k = rng.choice(["asg", "asg", "self", "aug", "swap", "if", "if", "for", "cmpif"])
            pad = "    " * ind
            if k == "asg":
                if rng.random() < 0.5:
                    out.append(f"{pad}{rng.choice(locs_b)} = {_cond(rng, locs_b, locs_i, loopvars)}")
                else:
                    out.append(f"{pad}{rng.choice(locs_i)} = {_iexp(rng, locs_i, loopvars)}")
            elif k == "self":
                if rng.random() < 0.5:
                    v = rng.choice(locs_b)
                    out.append(f"{pad}{v} = {rng.choice(['not ' + v, v + ' and ' + rng.choice(locs_b), v + ' ^ ' + rng.choice(locs_b), rng.choice(locs_b) + ' or ' + v])}")
                else:
                    v = rng.choice(locs_i)
                    out.append(f"{pad}{v} = {v} {rng.choice(['+', '-', '^', '*'])} {_iexp(rng, locs_i, loopvars, 1)}")
            elif k == "aug":
                v = rng.choice(locs_i)
                op = rng.choice(['+=', '-=', '^=', '|=', '&=', '*=', '<<=', '>>='])
                # shift amounts stay constants: `x <<= x` inside a loop makes numbers of 10^8 bits
                rhs = rng.choice(['1', '2']) if op in ('<<=', '>>=') else rng.choice(locs_i + loopvars + ['1', '2'])
                out.append(f"{pad}{v} {op} {rhs}")
            elif k == "swap":
                if len(locs_b) >= 2 and rng.random() < 0.5:
                    u, v = rng.sample(locs_b, 2)
                    out.append(f"{pad}{u}, {v} = {rng.choice([v + ', ' + u, v + ', not ' + u, u + ' ^ ' + v + ', ' + u])}")
                elif len(locs_i) >= 2:
                    u, v = rng.sample(locs_i, 2)
                    out.append(f"{pad}{u}, {v} = {rng.choice([v + ', ' + u, v + ', ' + u + ' + ' + v, '1, ' + u])}")
                else:
                    out.append(f"{pad}{locs_i[0]} = {locs_i[0]} + 1")
            elif k in ("if", "cmpif") and depth > 0:
                cond = _cond(rng, locs_b, locs_i, loopvars) if k == "if" else _cond(rng, [], [], loopvars, 1)
                if k == "if" and rng.random() < 0.4:
                    cond = rng.choice(locs_b)          # a bare variable, re-assigned inside
                out.append(f"{pad}if {cond}:")
                body = block(ind + 1, depth - 1, loopvars, 2)
                if cond in locs_b and rng.random() < 0.6:
                    body.insert(rng.randint(0, len(body)), f"{pad}    {cond} = {_cond(rng, locs_b, locs_i, loopvars, 1)}")
                out += body
                r = rng.random()
                if r < 0.3:
                    out.append(f"{pad}elif {_cond(rng, locs_b, locs_i, loopvars, 1)}:")
                    out += block(ind + 1, depth - 1, loopvars, 2)
                if r < 0.6:
                    out.append(f"{pad}else:")
                    out += block(ind + 1, depth - 1, loopvars, 2)
            elif k == "for" and depth > 0 and len(loopvars) < 2:
                lv = "ij"[len(loopvars)]
                if withtup and rng.random() < 0.3:
                    out.append(f"{pad}for e in t:")
                    v = rng.choice(locs_b)
                    out.append(f"{pad}    {v} = {v} {rng.choice(['^', 'and', 'or'])} e")
                else:
                    rg = rng.choice([f"range({rng.randint(0, 3)})", f"range({rng.randint(0, 1)}, {rng.randint(2, 4)})",
                                     "[1, 3]", "(0, 2, 1)"])
                    out.append(f"{pad}for {lv} in {rg}:")
                    out += block(ind + 1, depth - 1, loopvars + [lv], 2)
            else:
                out.append(f"{pad}{rng.choice(locs_b)} = {_cond(rng, locs_b, locs_i, loopvars, 1)}")
        return out

    lines += block(1, 2, [], 4)
    if rng.random() < 0.5:
        ret, rt = _cond(rng, locs_b, locs_i, [], 1), "bool"
    else:
        ret, rt = _iexp(rng, locs_i, [], 1), "Qint[4]"
    return f"def test({sig}) -> {rt}:\n" + "\n".join(lines) + f"\n    return {ret}"


def programs(tier, seed):
    from . import c01, c01_texp
    out = list(c01.corpus(tier, seed))
    out += [("texp-template", s) for s in c01_texp.fixed_templates()]
    out += [("a2a-template", s) for s in a2a_templates()]
    out += [("a2a-open-finding", s) for s in open_finding_templates()]
    rng = random.Random(seed * 104729 + 31)
    n = 250 if tier == "quick" else 4000
    out += [("a2a-rand", rw_program(rng)) for _ in range(n)]
    seen, res = set(), []
    for o, s in out:
        if s not in seen:
            seen.add(s)
            res.append((o, s))
    return res


# --------------------------------------------------------------------------
# Python ast -> Coq terms of M_A2A
# --------------------------------------------------------------------------
def c_pos(n):
    s = "xH"
    for b in bin(n)[3:]:
        s = f"({'xI' if b == '1' else 'xO'} {s})"
    return s


def c_Z(n):
    if n == 0:
        return "Z0"
    return f"(Zpos {c_pos(n)})" if n > 0 else f"(Zneg {c_pos(-n)})"


def c_N(n):
    return "N0" if n == 0 else f"(Npos {c_pos(n)})"


def c_str(s):
    if not isinstance(s, str) or any(ord(ch) < 32 or ord(ch) > 126 for ch in s):
        raise Unmodelled("identifier or string outside printable ASCII")
    return '"' + s.replace('"', '""') + '"'


def c_list(items):
    return "[" + "; ".join(items) + "]"


BOOLOPS = {ast.And: "And", ast.Or: "Or"}
UNOPS = {ast.UAdd: "UAdd", ast.USub: "USub", ast.Not: "Not", ast.Invert: "Invert"}
BINOPS = {ast.Add: "Add", ast.Sub: "Sub", ast.Mult: "Mult", ast.Div: "Div", ast.FloorDiv: "FloorDiv", ast.Mod: "Mod",
          ast.Pow: "Pow", ast.LShift: "LShift", ast.RShift: "RShift", ast.BitOr: "BitOr", ast.BitXor: "BitXor",
          ast.BitAnd: "BitAnd", ast.MatMult: "MatMult"}
CMPOPS = {ast.Eq: "Eq", ast.NotEq: "NotEq", ast.Lt: "Lt", ast.LtE: "LtE", ast.Gt: "Gt", ast.GtE: "GtE", ast.Is: "Is",
          ast.IsNot: "IsNot", ast.In: "In", ast.NotIn: "NotIn"}


class Ser:
    """Fail-closed serialiser; `used` counts the constructs met."""

    def __init__(self):
        self.used = collections.Counter()

    def cst(self, v):
        if v is True or v is False:
            return f"(CBool {'true' if v else 'false'})"
        if isinstance(v, int):
            if abs(v) >= 1 << 4096:
                raise Unmodelled("huge integer constant")
            return f"(CInt {c_Z(v)})"
        if isinstance(v, float):
            if v != v or v in (float("inf"), float("-inf")):
                raise Unmodelled("non-finite float constant")
            num, den = v.as_integer_ratio()
            k = den.bit_length() - 1
            if den != 1 << k or (num == 0 and str(v).startswith("-")):
                raise Unmodelled("float constant")
            self.used["const-float"] += 1
            return f"(CFloat {c_Z(num)} {c_N(k)})"
        if isinstance(v, str):
            self.used["const-str"] += 1
            return f"(CStr {c_str(v)})"
        if v is None:
            self.used["const-None"] += 1
            return "CNone"
        raise Unmodelled(f"constant of type {type(v).__name__}")

    def exp(self, e):  # noqa: C901
        u = self.used
        if isinstance(e, ast.Name):
            return f"(EName {c_str(e.id)})"
        if isinstance(e, ast.Constant):
            if isinstance(e.value, ast.AST):
                u["Constant(node)"] += 1
                return f"(EConstNode {self.exp(e.value)})"
            return f"(EConst {self.cst(e.value)})"
        if isinstance(e, ast.BoolOp):
            u["BoolOp"] += 1
            return f"(EBoolOp {BOOLOPS[type(e.op)]} {c_list([self.exp(x) for x in e.values])})"
        if isinstance(e, ast.BinOp):
            u["BinOp"] += 1
            return f"(EBinOp {BINOPS[type(e.op)]} {self.exp(e.left)} {self.exp(e.right)})"
        if isinstance(e, ast.UnaryOp):
            u["UnaryOp"] += 1
            return f"(EUnOp {UNOPS[type(e.op)]} {self.exp(e.operand)})"
        if isinstance(e, ast.Compare):
            if len(e.ops) != 1 or len(e.comparators) != 1:
                raise Unmodelled("comparison chain")
            u["Compare"] += 1
            return f"(ECompare {CMPOPS[type(e.ops[0])]} {self.exp(e.left)} {self.exp(e.comparators[0])})"
        if isinstance(e, ast.IfExp):
            u["IfExp"] += 1
            return f"(EIfExp {self.exp(e.test)} {self.exp(e.body)} {self.exp(e.orelse)})"
        if isinstance(e, ast.Tuple):
            u["Tuple"] += 1
            return f"(ETuple {c_list([self.exp(x) for x in e.elts])})"
        if isinstance(e, ast.List):
            u["List"] += 1
            return f"(EList {c_list([self.exp(x) for x in e.elts])})"
        if isinstance(e, ast.Subscript):
            if not isinstance(e.slice, ast.AST):
                raise Unmodelled("subscript whose index is a raw Python value")
            if isinstance(e.slice, ast.Slice):
                raise Unmodelled("slice")
            u["Subscript" if isinstance(e.slice, ast.Constant) else "Subscript(non-constant)"] += 1
            return f"(ESubscript {self.exp(e.value)} {self.exp(e.slice)})"
        if isinstance(e, ast.Call):
            if not isinstance(e.func, ast.Name):
                raise Unmodelled("call through an attribute / expression")
            if e.keywords:
                raise Unmodelled("keyword arguments")
            if any(isinstance(a, ast.Starred) for a in e.args):
                raise Unmodelled("starred argument")
            u["Call " + (e.func.id if e.func.id in KNOWN_CALLS else "(other)")] += 1
            return f"(ECall {c_str(e.func.id)} {c_list([self.exp(x) for x in e.args])})"
        raise Unmodelled(f"expression {type(e).__name__}")

    def target(self, t):
        if isinstance(t, ast.Name):
            return f"(TName {c_str(t.id)})"
        if isinstance(t, (ast.Tuple, ast.List)):
            if any(isinstance(x, ast.Starred) for x in t.elts):
                raise Unmodelled("starred target")
            self.used["Assign(tuple target)"] += 1
            return f"(TTuple {c_list([self.exp(x) for x in t.elts])})"
        raise Unmodelled(f"assignment target {type(t).__name__}")

    def stmt(self, s):  # noqa: C901
        u = self.used
        if isinstance(s, ast.Assign):
            if len(s.targets) != 1:
                raise Unmodelled("chained assignment")
            u["Assign"] += 1
            return f"(SAssign {self.target(s.targets[0])} {self.exp(s.value)})"
        if isinstance(s, ast.AugAssign):
            if not isinstance(s.target, ast.Name):
                raise Unmodelled("augmented assignment to a non-name")
            u["AugAssign"] += 1
            return f"(SAugAssign {c_str(s.target.id)} {BINOPS[type(s.op)]} {self.exp(s.value)})"
        if isinstance(s, ast.If):
            u["If"] += 1
            if s.orelse:
                u["If-else"] += 1
            return f"(SIf {self.exp(s.test)} {self.stmts(s.body)} {self.stmts(s.orelse)})"
        if isinstance(s, ast.For):
            if not isinstance(s.target, ast.Name):
                raise Unmodelled("for with a non-name target")
            u["For"] += 1
            if s.orelse:
                u["For-else"] += 1
            return f"(SFor {c_str(s.target.id)} {self.exp(s.iter)} {self.stmts(s.body)} {self.stmts(s.orelse)})"
        if isinstance(s, ast.Return):
            if s.value is None:
                raise Unmodelled("bare return")
            u["Return"] += 1
            return f"(SReturn {self.exp(s.value)})"
        if isinstance(s, ast.Expr):
            u["Expr"] += 1
            if not hasattr(s, "value"):
                return "(SExpr None)"
            return f"(SExpr (Some {self.exp(s.value)}))"
        raise Unmodelled(f"statement {type(s).__name__}")

    def stmts(self, l):
        return c_list([self.stmt(s) for s in l])


KNOWN_CALLS = {"len", "sum", "all", "any", "min", "max", "abs", "int", "float", "print", "range", "ord", "chr"}


# --------------------------------------------------------------------------
# sample argument values and CPython
# --------------------------------------------------------------------------
def _ann_sampler(a):  # noqa: C901
    """A function rng -> value for the annotation ast `a`, or None when the type is not plain
    bool / int / tuple (Qfixed, Qchar, unknown)."""
    if isinstance(a, ast.Name):
        if a.id == "bool":
            return lambda r: r.random() < 0.5
        if a.id.startswith("Qint") and a.id[4:].isdigit():
            w = int(a.id[4:])
            return lambda r: r.getrandbits(w)
        return None
    if isinstance(a, ast.Subscript) and isinstance(a.value, ast.Name):
        sl = a.slice
        if a.value.id == "Qint" and isinstance(sl, ast.Constant) and isinstance(sl.value, int):
            w = sl.value
            return lambda r: r.getrandbits(w)
        if a.value.id == "Tuple":
            elts = sl.elts if isinstance(sl, ast.Tuple) else [sl]
            subs = [_ann_sampler(x) for x in elts]
            if any(s is None for s in subs):
                return None
            return lambda r: tuple(s(r) for s in subs)
        if a.value.id == "Qlist" and isinstance(sl, ast.Tuple) and len(sl.elts) == 2 and isinstance(sl.elts[1], ast.Constant):
            s, n = _ann_sampler(sl.elts[0]), sl.elts[1].value
            if s is None or not isinstance(n, int):
                return None
            return lambda r: tuple(s(r) for _ in range(n))
        if a.value.id == "Qmatrix" and isinstance(sl, ast.Tuple) and len(sl.elts) == 3 and all(
                isinstance(x, ast.Constant) and isinstance(x.value, int) for x in sl.elts[1:]):
            s, n, m = _ann_sampler(sl.elts[0]), sl.elts[1].value, sl.elts[2].value
            if s is None:
                return None
            return lambda r: tuple(tuple(s(r) for _ in range(m)) for _ in range(n))
    return None


def c_val(v):
    if v is True or v is False:
        return f"(VBool {'true' if v else 'false'})"
    if isinstance(v, int):
        return f"(VInt {c_Z(int(v))})"
    if isinstance(v, (tuple, list)):
        return f"(VTup {c_list([c_val(x) for x in v])})"
    raise ValueError("value outside bool / int / tuple")


def _strip_annotations(tree):
    t = copy.deepcopy(tree)
    for a in t.args.args:
        a.annotation = None
    t.returns = None
    t.decorator_list = []
    for n in ast.walk(t):
        if isinstance(n, ast.AnnAssign):
            raise Unmodelled("AnnAssign")
    return ast.fix_missing_locations(ast.Module(body=[t], type_ignores=[]))


def _py_namespace():
    import qlasskit.types as T
    ns = {n: getattr(T, n) for n in dir(T) if n.startswith("Qint") and n[4:].isdigit()}
    ns["print"] = lambda *a, **k: None
    return ns


# --------------------------------------------------------------------------
# worker
# --------------------------------------------------------------------------
_W = {}


def _winit(tier, seed):
    sys.setrecursionlimit(20000)
    if C.REPO not in sys.path[:1]:
        sys.path.insert(0, C.REPO)
    import qlasskit  # noqa
    _W.update(tier=tier, seed=seed,
              a2a=importlib.import_module("qlasskit.ast2ast.ast2ast"),
              cf=importlib.import_module("qlasskit.ast2ast.constantfolder"),
              rta=importlib.import_module("qlasskit.ast2ast.replacetypeann"),
              repo=os.path.dirname(os.path.dirname(os.path.abspath(qlasskit.__file__))))
    signal.signal(signal.SIGVTALRM, _alarm)


def do_prog(job):  # noqa: C901
    idx, origin, src = job
    out = dict(id=idx, origin=origin, src=src, status="ok", used={})
    tier = _W["tier"]
    signal.setitimer(signal.ITIMER_VIRTUAL, 20 if tier == "quick" else 60)
    try:
        try:
            tree = ast.parse(src).body[0]
        except SyntaxError:
            return dict(out, status="unmodelled", why="syntax error")
        if not isinstance(tree, ast.FunctionDef):
            return dict(out, status="unmodelled", why="not a function")
        a = tree.args
        if a.vararg or a.kwarg or a.kwonlyargs or a.posonlyargs or a.defaults or a.kw_defaults:
            return dict(out, status="unmodelled", why="argument kinds / defaults")
        # the original, serialised
        ser = Ser()
        try:
            body0 = ser.stmts(tree.body)
        except Unmodelled as e:
            return dict(out, status="unmodelled", why=str(e))
        # the annotations as ASTRewriter sees them: after the real ConstantFolder + ReplaceTypeAnn
        try:
            t2 = _W["rta"].ReplaceTypeAnn().visit(_W["cf"].ConstantFolder().visit(copy.deepcopy(tree)))
            anns = [(x.arg, x.annotation) for x in t2.args.args]
            rann = t2.returns
        except _Timeout:
            raise
        except BaseException as e:
            # the first ConstantFolder raises (the model must raise too): the annotations do not matter
            try:
                t2 = _W["rta"].ReplaceTypeAnn().visit(copy.deepcopy(tree))
                anns = [(x.arg, x.annotation) for x in t2.args.args]
                rann = t2.returns
            except _Timeout:
                raise
            except BaseException as e:
                return dict(out, status="unmodelled", why="ReplaceTypeAnn raises",
                            detail=f"{type(e).__name__}: {e}"[:120])
        sa = Ser()
        try:
            args_coq = c_list([f"({c_str(n)}, {'None' if an is None else '(Some %s)' % sa.exp(an)})" for n, an in anns])
            ret_coq = "None" if rann is None else f"(Some {sa.exp(rann)})"
        except Unmodelled as e:
            return dict(out, status="unmodelled", why=f"annotation: {e}")
        out["used"] = dict(ser.used)
        out["fun"] = f"(mkfun {args_coq} {ret_coq} {body0})"
        # the implementation
        try:
            norm = _W["a2a"].ast2ast(copy.deepcopy(tree))
            raised = None
        except _Timeout:
            raise
        except RecursionError as e:
            norm, raised = None, "RecursionError"
        except BaseException as e:
            norm, raised = None, f"{type(e).__name__}: {e}"[:160]
        out["raised"] = raised
        so = Ser()
        if raised is not None:
            out["obs"] = "IRaise"
        else:
            try:
                out["obs"] = f"(IOk {so.stmts(norm.body)})"
                out["norm_src"] = "\n".join(_unparse(s) for s in norm.body)
            except Unmodelled as e:
                out["obs"] = "IUnser"
                out["unser"] = str(e)
        # samples: CPython on the source function
        samples = []
        samplers = [_ann_sampler(x.annotation) if x.annotation is not None else None for x in tree.args.args]
        if raised is None and out["obs"] != "IUnser" and all(s is not None for s in samplers):
            try:
                code = compile(_strip_annotations(tree), "<a2a>", "exec")
                ns = _py_namespace()
                exec(code, ns)
                fn = ns[tree.name]
            except _Timeout:
                raise
            except BaseException:
                fn = None
            if fn is not None:
                rng = random.Random(_W["seed"] * 1000003 + idx)
                k = 4 if tier == "quick" else 10
                if origin in ("a2a-template", "a2a-open-finding"):
                    k = 32          # the regression corpus is small: sample it densely
                seen = set()
                for _ in range(k):
                    vals = tuple(s(rng) for s in samplers)
                    if vals in seen:
                        continue
                    seen.add(vals)
                    try:
                        r = fn(*vals)
                        py = f"(Some {c_val(r)})"
                    except _Timeout:
                        raise
                    except BaseException:
                        py = "None"
                    samples.append(f"({c_list([c_val(v) for v in vals])}, {py})")
        out["samples"] = samples
        out["size"] = len(out["fun"]) + len(out["obs"])
        return out
    except _Timeout:
        return dict(out, status="impl-timeout")
    except BaseException as e:  # noqa
        import traceback
        return dict(out, status="harness-error", error=f"{type(e).__name__}: {e}"[:300], tb=traceback.format_exc()[-800:])
    finally:
        signal.setitimer(signal.ITIMER_VIRTUAL, 0)


def _unparse(s):
    if isinstance(s, ast.Expr) and not hasattr(s, "value"):
        return "<Expr without value>"
    try:
        return ast.unparse(ast.fix_missing_locations(copy.deepcopy(s)))
    except BaseException:
        return ast.dump(s)


# --------------------------------------------------------------------------
# Coq side
# --------------------------------------------------------------------------
HDR = ("From Coq Require Import List Bool NArith ZArith Arith String.\nImport ListNotations.\n"
       "From QV Require Import M_A2A Chk_A2A.\n"
       "Local Open Scope string_scope.\nLocal Open Scope list_scope.\n")
HDR_NOGUARD = HDR


def have_guard():
    return "Definition chk_guard" in open(os.path.join(C.THEORIES, "Chk_A2A.v")).read()


def build_files(results, with_guard, per_file=PER_FILE_MAX):
    ok = [r for r in results if r["status"] == "ok"]
    ok.sort(key=lambda r: -r["size"])
    nfiles = max(min(MAX_FILES, len(ok)), (len(ok) + per_file - 1) // per_file, 1)
    bins = [[] for _ in range(nfiles)]
    for i, r in enumerate(ok):
        bins[i % nfiles].append(r)
    files = []
    for fi, rs in enumerate(bins):
        if not rs:
            continue
        txt = HDR if with_guard else HDR_NOGUARD
        for r in rs:
            txt += f"Definition f_{r['id']} : fundef := {r['fun']}.\nDefinition o_{r['id']} : iobs := {r['obs']}.\n"
        txt += "Definition cs : list (N * acase) := %s.\n" % c_list(
            [f"({c_N(r['id'])}, mkcase f_{r['id']} o_{r['id']})" for r in rs])
        txt += "Definition ss : list (N * list sample) := %s.\n" % c_list(
            [f"({c_N(r['id'])}, {c_list(r['samples'])})" for r in rs if r["samples"]])
        txt += "Eval vm_compute in (chk_rewrite cs).\n"
        txt += "Eval vm_compute in (chk_unmod cs).\n"
        txt += "Eval vm_compute in (chk_eval cs ss).\n"
        txt += "Eval vm_compute in (chk_stats cs ss).\n"
        if with_guard:
            txt += "Eval vm_compute in (chk_guard cs ss).\n"
        files.append((f"a{fi:04d}", txt, [r["id"] for r in rs]))
    return files


def ensure_vo():
    th = C.THEORIES
    log = ""
    names = ["M_A2A", "Chk_A2A"]
    with C._Lock():
        newest = 0
        for f in names:
            v, vo = os.path.join(th, f + ".v"), os.path.join(th, f + ".vo")
            stale = (not os.path.exists(vo)) or os.path.getmtime(vo) < max(os.path.getmtime(v), newest)
            if stale:
                r = subprocess.run(["timeout", "1800", "coqc", "-Q", "theories", "QV", f"theories/{f}.v"],
                                   cwd=C.COQ, capture_output=True, text=True)
                if r.returncode != 0:
                    return False, (r.stdout + r.stderr)[-3000:]
                log += f"compiled {f}.v\n"
            newest = max(newest, os.path.getmtime(vo))
    return True, log


REWRITE_CODES = {1: "model rewrites, implementation raises", 2: "model raises, implementation rewrites",
                 3: "model and implementation rewrite to different statement lists",
                 4: "implementation output outside the datatype but the model has an answer"}
EVAL_CODES = {1: "original and normalised program have different values (reference evaluator)",
              2: "normalised program has a value different from what CPython returns for the source",
              3: "reference evaluator disagrees with CPython on the original",
              4: "reference evaluator gives a value where CPython raises"}
STAT_NAMES = ["samples", "original_has_value", "normalised_has_value", "both_have_value", "cpython_has_value",
              "original_equals_cpython", "normalised_equals_cpython", "only_normalised_has_value", "only_original_has_value"]
GUARD_NAMES = ["programs_in_guard", "programs_rewritten_ok", "theorem_instances_checked", "theorem_instances_FAIL",
               "normal_form_FAIL"]


def _unmod_reason(r):
    s = r["src"]
    u = r.get("used", {})
    if u.get("const-float") or u.get("const-str") or u.get("const-None"):
        return "model declines: float / str / None constant reaches the constant folder or range()"
    if "print(" in s or "range(" in s:
        return "model declines: print / range in another position, or a loop over > 2000 values"
    if u.get("Subscript(non-constant)"):
        return "model declines: subscript by a name bound to a constant (raw Python value left as index)"
    return "model declines: other (in-place mutation visible, is / in on constants, fuel)"


def collect(tier, seed, jobs=16, only=None, progs=None):
    t0 = time.time()
    progs = programs(tier, seed) if progs is None else progs
    if only is not None:
        progs = [p for p in progs if only(p)]
    jobs_l = [(i, o, s) for i, (o, s) in enumerate(progs)]
    ctx = mp.get_context("fork")
    with ctx.Pool(jobs, initializer=_winit, initargs=(tier, seed)) as pool:
        results = pool.map(do_prog, jobs_l, chunksize=8)
    t_impl = time.time() - t0
    by_id = {r["id"]: r for r in results}
    status = collections.Counter(r["status"] for r in results)
    unmodelled = collections.Counter(r.get("why", "") for r in results if r["status"] == "unmodelled")
    unmodelled_ex = {}
    for r in results:
        if r["status"] == "unmodelled":
            unmodelled_ex.setdefault(r["why"], r["src"])
    herr = [dict(source=r["src"], error=r.get("error"), tb=r.get("tb")) for r in results
            if r["status"] in ("harness-error", "impl-timeout")]
    ok_vo, log = ensure_vo()
    with_guard = ok_vo and have_guard()
    files = build_files(results, with_guard, PER_FILE_MAX if tier == "quick" else 200)
    t1 = time.time()
    mismatches, coq_err, impl_failures, evaluator_vs_cpython, open_findings = [], [], [], [], []
    declined, checked = set(), set()
    stats = [0] * len(STAT_NAMES)
    guard = [0] * len(GUARD_NAMES)
    guard_fail = []
    if ok_vo:
        saved = C.COQC_TIMEOUT
        C.COQC_TIMEOUT = min(saved, 600 if tier == "quick" else 1800)
        try:
            res = C.run_cases(RUN_DIR, [(n, t) for n, t, _ in files], jobs=jobs)
        finally:
            C.COQC_TIMEOUT = saved
        nvals = 5 if with_guard else 4
        for name, _, ids_ in files:
            rc, so, se = res[name]
            if rc != 0:
                coq_err.append(dict(file=name, programs=len(ids_), error=(so + se)[-800:] or f"coqc exit code {rc} (timeout?)"))
                continue
            vals = C.parse_results(so)
            if len(vals) != nvals:
                coq_err.append(dict(file=name, error=f"{nvals} evaluations expected, {len(vals)} printed"))
                continue
            try:
                parsed = [C.parse_N_list(v) for v in vals]
            except Exception:
                coq_err.append(dict(file=name, error="unparsable output: " + so[-300:]))
                continue
            lr, lu, le, lst = parsed[:4]
            checked.update(ids_)
            declined.update(lu)
            for code in lr:
                r = by_id[code // 10]
                mismatches.append(dict(kind=REWRITE_CODES.get(code % 10, str(code % 10)), source=r["src"], origin=r["origin"],
                                       implementation_raised=r.get("raised"), implementation_output=r.get("norm_src"),
                                       unserialisable=r.get("unser"), file=name, id=r["id"]))
            for code in le:
                r = by_id[code // 10]
                d = dict(kind=EVAL_CODES.get(code % 10, str(code % 10)), source=r["src"], origin=r["origin"],
                         implementation_output=r.get("norm_src"), id=r["id"])
                if code % 10 in (1, 2):
                    (open_findings if r["origin"] == "a2a-open-finding" else impl_failures).append(d)
                else:
                    evaluator_vs_cpython.append(d)
            stats = [a + b for a, b in zip(stats, lst)]
            if with_guard:
                lg = parsed[4]
                guard = [a + b for a, b in zip(guard, lg[:len(GUARD_NAMES)])]
                guard_fail += lg[len(GUARD_NAMES):]
        if not coq_err and not mismatches and not os.environ.get("QV_KEEP_CASES"):
            shutil.rmtree(os.path.join(C.BUILD, f"{RUN_DIR}.{os.getpid()}"), ignore_errors=True)
    else:
        coq_err.append(dict(file="(theories)", error=log))
    t_coq = time.time() - t1
    okr = [r for r in results if r["status"] == "ok" and r["id"] in checked]
    modelled = [r for r in okr if r["id"] not in declined]
    for i in sorted(declined):
        why = _unmod_reason(by_id[i])
        unmodelled[why] += 1
        unmodelled_ex.setdefault(why, by_id[i]["src"])
    used = collections.Counter()
    for r in modelled:
        for k in r["used"]:
            used[k] += 1
    per_origin = collections.Counter(r["origin"] for r in modelled)
    repo = None
    return dict(
        cases=len(modelled), distinct=len({r["src"] for r in modelled}),
        mismatches=mismatches, impl_failures=impl_failures, open_findings=open_findings,
        evaluator_vs_cpython=evaluator_vs_cpython,
        theorem_instances=(dict(checked=guard[2], FAIL=guard[3]) if with_guard else None),
        guard_coverage=(dict(in_guard=guard[0], modelled=len(modelled)) if with_guard else None),
        unmodelled=dict(count=status.get("unmodelled", 0) + len(declined), outside_datatype=status.get("unmodelled", 0),
                        model_declines=len(declined), reasons=dict(unmodelled.most_common()), examples=unmodelled_ex),
        distribution=dict(programs=len(progs), status=dict(status), modelled=len(modelled),
                          accepted_by_impl=len([r for r in modelled if r.get("raised") is None]),
                          rejected_by_impl=len([r for r in modelled if r.get("raised") is not None]),
                          per_origin=dict(per_origin), constructs=dict(used.most_common()), coq_files=len(files),
                          programs_with_samples=len([r for r in modelled if r.get("samples")]),
                          repo=C.REPO),
        evaluation=dict(zip(STAT_NAMES, stats)),
        theorem_guard=(dict(zip(GUARD_NAMES, guard), failing_ids=guard_fail[:20],
                            failing_sources=[by_id[i]["src"] for i in guard_fail[:5] if i in by_id]) if with_guard else None),
        harness_errors=herr, coq_errors=coq_err,
        timings=dict(implementation_s=round(t_impl, 1), coq_s=round(t_coq, 1), total_s=round(time.time() - t0, 1)),
    )


if __name__ == "__main__":
    import json
    tier = sys.argv[1] if len(sys.argv) > 1 else "quick"
    r = collect(tier, C.seed_from_env(0))
    r["mismatches"] = r["mismatches"][:25]
    r["impl_failures"] = r["impl_failures"][:15]
    r["evaluator_vs_cpython"] = r["evaluator_vs_cpython"][:15]
    print(json.dumps(r, indent=1, default=str))
