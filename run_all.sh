#!/bin/sh
# run_all.sh quick|thorough : every check in turn, one summary line each
tier=${1:-quick}
cd /verif
for i in 01 02 03 04 05 06 07 08 09 10 11 12 13 14 15 16 17 18; do
  s=$(date +%s)
  o=$(./check C$i --tier $tier 2>&1 | grep -E "^(OK|VIOLATION|KNOWN-FINDING)" | cut -c1-160 | head -4 | tr '\n' ';')
  echo "C$i $(( $(date +%s) - s ))s $o"
done
