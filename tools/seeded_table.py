#!/usr/bin/env python3
"""Regenerate the seeded-changes table of DESIGN.md from /verif/seeded/*/meta.json."""
import glob, json, os, re
rows = []
for p in sorted(glob.glob("/verif/seeded/*/meta.json")):
    m = json.load(open(p))
    checks = m.get("checks_run", "")
    caught = ", ".join(re.findall(r"\[(C\d+): VIOLATION", checks)) or "—"
    missed = ", ".join(re.findall(r"\[(C\d+): OK", checks))
    rows.append("| %s | %s | %s | %s | %s |" % (m.get("id"), m.get("property"), (m.get("summary") or "")[:150].replace("|", "/").replace("\n", " "),
                                             (m.get("needs") or "")[:110].replace("|", "/").replace("\n", " "), caught + ((" (not by " + missed + ")") if missed else "")))
tbl = "| id | property | change | needs | caught by (quick tier) |\n|---|---|---|---|---|\n" + "\n".join(rows) + "\n"
s = open("/verif/DESIGN.md").read()
new = "<!-- SEEDED-TABLE-BEGIN -->\n" + tbl + "<!-- SEEDED-TABLE-END -->"
s = re.sub(r"<!-- SEEDED-TABLE-BEGIN -->.*<!-- SEEDED-TABLE-END -->", lambda m: new, s, flags=re.S)
open("/verif/DESIGN.md", "w").write(s)
print(len(rows), "rows")
