#!/usr/bin/env python3
"""update_meta.py <seed id> <checks_run text> [note]: record a re-run of the named checks against a seeded change
(after a check was strengthened); keeps the first result under checks_run_first."""
import json, sys
i, txt = sys.argv[1], sys.argv[2]
p = f"/verif/seeded/{i}/meta.json"
m = json.load(open(p))
if "checks_run_first" not in m:
    m["checks_run_first"] = m.get("checks_run", "")
m["checks_run"] = txt
if len(sys.argv) > 3:
    m["rerun_note"] = sys.argv[3]
json.dump(m, open(p, "w"), indent=1)
