#!/bin/sh
# Independent re-check of every compiled property file (and everything it depends on) with coqchk;
# prints the context summary (axioms, type-in-type, unsafe fixpoints, assumed positivity).
cd /verif/coq || exit 2
mods=$(ls theories/Prop_*.vo | sed 's/theories\//QV./; s/\.vo//' | tr '\n' ' ')
timeout 3000 coqchk -o -silent -Q theories QV $mods > /verif/build/coqchk.log 2>&1
rc=$?
grep -n "CONTEXT SUMMARY" -A12 /verif/build/coqchk.log | grep -v "<="
echo "coqchk exit=$rc"
exit $rc
