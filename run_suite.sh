#!/bin/sh
# run_suite.sh [dir]: run the test suite of the qlasskit tree in dir (default /repo, guard off)
# and compare with BASELINE.json: prints the baseline-stable tests that no longer pass.
D="${1:-/repo}"
cd "$D" || exit 2
unset DAKK_QLASSKIT_VERIF
X=/tmp/qv_suite_$$.xml
PYTHONPATH="$D" timeout 3000 /venv/bin/python -m pytest -q -p no:cacheprovider --timeout=900 --continue-on-collection-errors -n 8 --junitxml=$X >/tmp/qv_suite.log 2>&1
git -C "$D" checkout -- .t_statistics 2>/dev/null
python3 - "$X" <<'PY'
import json, sys, xml.etree.ElementTree as ET
base=json.load(open('/root/.vp/BASELINE.json'))
stable=set(base['stable_pass'])
passed=set()
for tc in ET.parse(sys.argv[1]).getroot().iter('testcase'):
    name=f"{tc.get('classname')}::{tc.get('name')}"
    if not any(ch.tag in ('failure','error','skipped') for ch in tc):
        passed.add(name)
missing=sorted(stable-passed)
print(f"baseline stable: {len(stable)}  passing now: {len(stable&passed)}  missing: {len(missing)}")
for m in missing[:40]: print("  MISSING", m)
PY
rm -f $X
