#!/bin/sh
# Run /repo's test suite (guard off) and compare with BASELINE.json: prints the
# baseline-stable tests that no longer pass.
cd /repo || exit 2
unset DAKK_QLASSKIT_VERIF
rm -f /tmp/qv_suite.xml
timeout 3000 /venv/bin/python -m pytest -q -p no:cacheprovider --timeout=900 --continue-on-collection-errors -n 12 --junitxml=/tmp/qv_suite.xml >/tmp/qv_suite.log 2>&1
git -C /repo checkout -- .t_statistics 2>/dev/null
python3 - <<'PY'
import json, xml.etree.ElementTree as ET
base=json.load(open('/root/.vp/BASELINE.json'))
stable=set(base['stable_pass'])
passed=set()
for tc in ET.parse('/tmp/qv_suite.xml').getroot().iter('testcase'):
    name=f"{tc.get('classname')}::{tc.get('name')}"
    if not any(ch.tag in ('failure','error','skipped') for ch in tc):
        passed.add(name)
missing=sorted(stable-passed)
print(f"baseline stable: {len(stable)}  passing now: {len(stable&passed)}  missing: {len(missing)}")
for m in missing[:40]: print("  MISSING", m)
PY
