#!/bin/sh
# confirm_seed.sh <srcdir with patch.diff demo.py meta.json> <id> [checks...]
# (QV_VERIF=<copy of /verif> runs the checks from a frozen copy, so that /verif can be edited meanwhile)
# Confirms a seeded change in a scratch worktree (demo passes without / fails with the patch,
# baseline tests still pass), runs the named checks against it, and stores it under /verif/seeded/<id>/.
src="$1"; id="$2"; shift 2
wt=/tmp/confirm_$$
git -C /repo worktree add -q "$wt" HEAD || exit 2
out=/verif/seeded/$id
mkdir -p "$out"
cp "$src/patch.diff" "$src/demo.py" "$out/"
cd "$wt"
r0=$(PYTHONPATH="$wt" PYTHONHASHSEED=0 timeout 900 /venv/bin/python "$out/demo.py" >/tmp/confirm_demo0_$$ 2>&1; echo $?)
if ! git apply "$out/patch.diff"; then echo "$id: PATCH DOES NOT APPLY to current HEAD"; git -C /repo worktree remove --force "$wt"; exit 3; fi
r1=$(PYTHONPATH="$wt" PYTHONHASHSEED=0 timeout 900 /venv/bin/python "$out/demo.py" >/tmp/confirm_demo1_$$ 2>&1; echo $?)
suite=$(/verif/run_suite.sh "$wt" | head -3 | tr '\n' ' ')
res=""
for c in "$@"; do
  o=$(QV_REPO="$wt" "${QV_VERIF:-/verif}/check" "$c" --tier quick 2>&1 | grep -E "^(OK|VIOLATION)" | head -1 | cut -c1-120)
  res="$res [$c: $o]"
done
cd /verif
git -C /repo worktree remove --force "$wt"
python3 - "$src/meta.json" "$out/meta.json" "$id" "$r0" "$r1" "$suite" "$res" <<'PY'
import json,sys
src,dst,id_,r0,r1,suite,res=sys.argv[1:8]
try: m=json.load(open(src))
except Exception: m={}
m.update(dict(id=id_, demo_exit_without_patch=int(r0), demo_exit_with_patch=int(r1), suite_with_patch=suite.strip(),
              checks_run=res.strip(), ran="confirm_seed.sh: scratch worktree of /repo HEAD; demo.py without and with patch.diff; baseline test suite with the patch; the named /verif checks (quick tier) with QV_REPO pointing at the patched worktree"))
json.dump(m,open(dst,'w'),indent=1)
print(id_, "demo", r0, "->", r1, "|", suite.strip(), "|", res.strip())
PY
rm -f /tmp/confirm_demo0_$$ /tmp/confirm_demo1_$$
