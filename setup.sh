#!/bin/sh
# Build the Coq development from files on disk only (offline).
cd "$(dirname "$0")" || exit 2
export PYTHONPATH=/repo:/verif PYTHONHASHSEED=0 PYTHONDONTWRITEBYTECODE=1
mkdir -p build evidence
/venv/bin/python -W ignore -c "from harness import common, gen_all; common.write_generated()" || exit 1
cd coq && coq_makefile -f _CoqProject -o Makefile >/dev/null && timeout 3000 make -j16 2>&1 | grep -v "^COQ\|Closed under the global context" ; test -f theories/Prop_C09.vo
