#!/bin/sh
# seedtest.sh <patch.diff> <Cxx> [<Cyy> ...] : run checks against a scratch worktree of /repo with the patch applied
patch="$1"; shift
wt=/tmp/seedapply_$$
git -C /repo worktree add -q "$wt" HEAD || exit 2
if ! git -C "$wt" apply "$patch"; then echo "PATCH DOES NOT APPLY"; git -C /repo worktree remove --force "$wt"; exit 3; fi
for c in "$@"; do
  echo "== $c on $(basename "$patch")"
  QV_REPO="$wt" "${QV_VERIF:-/verif}/check" "$c" --tier quick 2>&1 | grep -E "^(OK|VIOLATION|KNOWN)" | cut -c1-220 | head -6
done
git -C /repo worktree remove --force "$wt"
