#!/bin/sh
# usage: dbg.sh theories/F.v LINE  — show the goal just before LINE
f=$1; n=$2
head -n $((n-1)) "$f" > /tmp/dbg_tmp.v
echo "Show." >> /tmp/dbg_tmp.v
cd /verif/coq && timeout 120 coqtop -Q theories QV -batch -l /tmp/dbg_tmp.v 2>&1 | tail -${3:-40}
