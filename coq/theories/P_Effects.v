From Coq Require Import List Arith Bool Lia.
From QV Require Import BexpTT M_Effects.
Import ListNotations.

Section EffectsProofs.
  Variable obj : Type.
  Variable dflt : obj.
  Notation step := (step obj dflt).
  Notation run_op := (run_op obj dflt).
  Notation exec_step := (exec_step obj dflt).
  Notation exec_history := (exec_history obj dflt).
  Notation write_back := (write_back obj dflt).

  Lemma fold_pure acts : pure_op obj acts = true -> forall ops loc,
    fst (fold_left step acts (ops, loc)) = ops.
  Proof.
    induction acts as [|a acts IH]; intros Hp ops loc; [reflexivity|].
    cbn [pure_op forallb] in Hp. apply andb_true_iff in Hp as [Ha Hp]. cbn [fold_left].
    destruct a as [o|[k|k]|k f|k f]; cbn [step pure_action] in *; try discriminate; now apply IH.
  Qed.

  (* a pure operation leaves its operands as they were *)
  Lemma run_op_pure acts ops : pure_op obj acts = true -> fst (run_op acts ops) = ops.
  Proof. intros H. now apply fold_pure. Qed.

  Lemma upd_same (h : list obj) a : (a < length h)%nat -> upd dflt h a (nth a h dflt) = h.
  Proof.
    revert a; induction h as [|x h IH]; intros a Ha; [cbn in Ha; lia|].
    destruct a as [|a]; cbn [upd nth]; [reflexivity|]. f_equal. apply IH. cbn in Ha. lia.
  Qed.

  Lemma write_back_same h addrs : Forall (fun a => a < length h)%nat addrs ->
    write_back h addrs (map (fun a => nth a h dflt) addrs) = h.
  Proof.
    induction 1 as [|a ar Ha _ IH]; [reflexivity|]. cbn [map M_Effects.write_back].
    rewrite upd_same by exact Ha. exact IH.
  Qed.

  Definition wf_step (h : list obj) (s : hstep obj) : Prop :=
    pure_op obj (s_acts obj s) = true /\ Forall (fun a => a < length h)%nat (s_args obj s).

  (* one pure step: the heap is extended, nothing that existed changes, and the
     result is the operation run on the operands' contents *)
  Lemma exec_step_pure h s : wf_step h s ->
    exec_step h s = (h ++ snd (run_op (s_acts obj s) (map (fun a => nth a h dflt) (s_args obj s))),
                     snd (run_op (s_acts obj s) (map (fun a => nth a h dflt) (s_args obj s)))).
  Proof.
    intros [Hp Ha]. unfold M_Effects.exec_step.
    pose proof (run_op_pure (s_acts obj s) (map (fun a => nth a h dflt) (s_args obj s)) Hp) as Hf.
    destruct (run_op (s_acts obj s) (map (fun a => nth a h dflt) (s_args obj s))) as [ops' loc].
    cbn [fst snd] in *. subst ops'. now rewrite write_back_same.
  Qed.

  (* histories whose every step is pure and reads existing objects *)
  Fixpoint wf_history (h : list obj) (hs : list (hstep obj)) : Prop :=
    match hs with
    | [] => True
    | s :: r => wf_step h s /\ wf_history (fst (exec_step h s)) r
    end.

  (* frame: whatever happens later, an object keeps the content it had *)
  Theorem history_frame hs : forall h, wf_history h hs ->
    forall a, (a < length h)%nat -> nth a (fst (exec_history h hs)) dflt = nth a h dflt.
  Proof.
    induction hs as [|s r IH]; intros h Hwf a Ha; [reflexivity|].
    destruct Hwf as [Hs Hr]. cbn [M_Effects.exec_history].
    rewrite (exec_step_pure h s Hs) in *. cbn [fst] in Hr.
    set (loc := snd (run_op (s_acts obj s) (map (fun a0 => nth a0 h dflt) (s_args obj s)))) in *.
    specialize (IH (h ++ loc) Hr a).
    destruct (exec_history (h ++ loc) r) as [h'' rs]. cbn [fst] in *.
    rewrite IH by (rewrite app_length; lia). now apply app_nth1.
  Qed.

  (* determinism: the result of a step is the operation applied to the contents of
     its operands, which are the contents those objects had when they were created:
     it does not depend on anything else that happened before *)
  Theorem step_result_depends_on_operands_only h1 h2 s :
    wf_step h1 s -> wf_step h2 s ->
    (forall a, In a (s_args obj s) -> nth a h1 dflt = nth a h2 dflt) ->
    snd (exec_step h1 s) = snd (exec_step h2 s).
  Proof.
    intros H1 H2 Hag. rewrite (exec_step_pure h1 s H1), (exec_step_pure h2 s H2). cbn [snd].
    f_equal. f_equal. apply map_ext_in. exact Hag.
  Qed.
End EffectsProofs.
