(* Prop_C06.v — "Predicates compile to xor-oracles |x>|y> -> |x>|y xor f(x)>":
   meaning of a passing verdict of c06_check, for every program. *)
From Coq Require Import List Bool NArith Arith.
From QV Require Import Bexp BexpTT Circ Compiled.
Import ListNotations.
Local Open Scope N_scope.

(* for every input x AND both initial values y of the output qubit: inputs
   unchanged, output = y xor f(x), every other qubit back to zero *)
Theorem C06_checker_sound_and_complete : forall n nq c ds ret out,
  (n <= out < nq)%nat ->
  (c06_check n nq c ds ret out = Some 0 <->
   defs_avoid n ds = true /\ ret <> n /\ all_classical c = true /\ c06_holds n nq c ds ret out).
Proof. exact c06_check_correct. Qed.
Print Assumptions C06_checker_sound_and_complete.

Theorem C06_holds_means : forall n nq c ds ret out,
  c06_holds n nq c ds ret out <->
  (forall x, x < pow2n n -> forall y : bool,
    exists f, fsim (basis6 n out x y) c = Some f /\
      forall q, (q < nq)%nat ->
        f q = if Nat.ltb q n then N.testbit x (N.of_nat q)
              else if Nat.eqb q out then xorb y (run_defs (asg x) ds ret) else false).
Proof. intros; reflexivity. Qed.
Print Assumptions C06_holds_means.

Example C06_example_pass :
  c06_check 2 3 [mkg KCCX [0;1;2]%nat None] [(3%nat, BAnd [BSym 0; BSym 1])] 3 2 = Some 0.
Proof. vm_compute. reflexivity. Qed.
(* a synthesis that is right for y = 0 but overwrites instead of xoring *)
Example C06_example_overwrite :
  exists d, c06_check 1 3 [mkg KCX [1;1]%nat None; mkg KCX [0;1]%nat None] [(2%nat, BSym 0)] 2 1 = Some d /\ d <> 0.
Proof. eexists. split; [vm_compute; reflexivity|discriminate]. Qed.
