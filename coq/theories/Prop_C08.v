(* Prop_C08.v — "Binding parameters is specialisation", on the model of
   UnboundQlassf.bind (M_Bind.v): for EVERY body, any number of parameters, any
   keyword order. The statements are for an arbitrary type of names/values with
   decidable equality; they are instantiated below so nothing is vacuous. *)
From Coq Require Import List Bool Arith String Permutation.
From QV Require Import M_Bind P_Bind.
Import ListNotations.

Theorem C08_keyword_order_irrelevant :
  forall (name value : Type) (name_eqb : name -> name -> bool),
  (forall a b, name_eqb a b = true <-> a = b) ->
  forall kw kw' (e : env name value) x,
  NoDup (map fst kw) -> Permutation kw kw' ->
  run_assigns name value name_eqb kw e x = run_assigns name value name_eqb kw' e x.
Proof. intros name value name_eqb H. exact (bind_order_irrelevant name value name_eqb H). Qed.
Print Assumptions C08_keyword_order_irrelevant.

Theorem C08_bind_is_specialisation :
  forall (name value result : Type) (name_eqb : name -> name -> bool),
  (forall a b, name_eqb a b = true <-> a = b) ->
  forall (body : env name value -> result) kw formals actuals all_formals all_actuals,
  NoDup (map fst kw) -> NoDup all_formals -> List.length all_formals = List.length all_actuals ->
  List.length formals = List.length actuals -> NoDup formals ->
  (forall k, In k (map fst kw) -> ~ In k formals) ->
  (forall k v, In (k, v) kw -> In (k, v) (combine all_formals all_actuals)) ->
  (forall k v, In (k, v) (combine formals actuals) -> In (k, v) (combine all_formals all_actuals)) ->
  (forall k, In k all_formals -> In k (map fst kw) \/ In k formals) ->
  (forall e1 e2 : env name value, (forall x, e1 x = e2 x) -> body e1 = body e2) ->
  bound_call name value result name_eqb body kw formals actuals =
  body (call_env name value name_eqb all_formals all_actuals).
Proof. intros name value result name_eqb H. exact (bind_is_specialisation name value result name_eqb H). Qed.
Print Assumptions C08_bind_is_specialisation.

(* non-vacuity: def test(c: P, a, d: P): bind(d=7, c=5) then call with a=1 *)
Example C08_example :
  let body := fun e : env string nat => (e "c"%string, e "a"%string, e "d"%string) in
  bound_call string nat _ String.eqb body [("d"%string, 7); ("c"%string, 5)] ["a"%string] [1]
  = body (call_env string nat String.eqb ["c"%string; "a"%string; "d"%string] [5; 1; 7]).
Proof. reflexivity. Qed.

(* ================================================================== *)
(* The same property on CONCRETE syntax: M_BindAst.bind_ast is UnboundQlassf.bind on the
   language of M_A2A.v (tied to /repo on every run: the model's output is compared, by
   structural equality inside coqc, with the AST the real bind() hands to the translator),
   and `run` is the reference evaluator of that language (bool / unbounded int / tuple).
     bind_ast f kw        Ok f' | Raise; kw = the keywords in call order, values as pv
     run_injected kw rho  the environment after the injected assignments (None: a value the
                          evaluator has no meaning for, i.e. float / str / None constants)
     kw_vals kw           the keywords with the evaluator's values
     merge_actuals        the actuals of the UNBOUND function: the bound value at every
                          parameter position, the remaining actuals elsewhere *)
From Coq Require Import ZArith.
From QV Require Import M_A2A M_BindAst P_BindAst.

Theorem C08a_bound_body_runs_like_unbound :
  forall ext f kw f' rho rho',
  bind_ast f kw = Ok f' -> run_injected kw rho = Some rho' ->
  run ext (f_body f') rho = run ext (f_body f) rho'.
Proof. exact bind_ast_runs. Qed.
Print Assumptions C08a_bound_body_runs_like_unbound.

Theorem C08a_bind_is_specialisation :
  forall ext f kw f' kwv actuals all,
  bind_ast f kw = Ok f' ->
  NoDup (map fst (f_args f)) -> NoDup (map fst kw) ->
  kw_vals kw = Some kwv ->
  merge_actuals (f_args f) kwv actuals = Some all ->
  run ext (f_body f') (call_env (map fst (f_args f')) actuals empty_env)
  = run ext (f_body f) (call_env (map fst (f_args f)) all empty_env).
Proof. exact bind_ast_specialises. Qed.
Print Assumptions C08a_bind_is_specialisation.

Theorem C08a_keyword_order_irrelevant :
  forall ext f kw kw' f1 rho,
  Permutation kw kw' -> NoDup (map fst kw) -> bind_ast f kw = Ok f1 ->
  exists f2, bind_ast f kw' = Ok f2 /\ f_args f2 = f_args f1 /\ f_ret f2 = f_ret f1 /\
             (forall r1, run_injected kw rho = Some r1 -> run ext (f_body f1) rho = run ext (f_body f2) rho).
Proof. exact bind_ast_order. Qed.
Print Assumptions C08a_keyword_order_irrelevant.

Theorem C08a_wrong_keyword_set_rejected :
  forall f kw,
  List.length kw <> List.length (parameters f) \/ (exists k, List.In k (map fst kw) /\ ~ List.In k (parameters f)) ->
  bind_ast f kw = Raise.
Proof. exact bind_ast_rejects. Qed.
Print Assumptions C08a_wrong_keyword_set_rejected.

Theorem C08a_bound_function_has_no_parameter :
  forall f kw f', bind_ast f kw = Ok f' -> parameters f' = [].
Proof. exact bind_ast_closed. Qed.
Print Assumptions C08a_bound_function_has_no_parameter.

Theorem C08a_evaluator_reads_env_pointwise :
  forall ext body r r', (forall x, r x = r' x) -> run ext body r = run ext body r'.
Proof. exact run_ext. Qed.
Print Assumptions C08a_evaluator_reads_env_pointwise.

(* non-vacuity: def test(c: Parameter[int], a: Qint[2], d: Parameter[List[bool]]) -> Qint[2]:
                    return a + c if d[1] else a
   bound with d=[False, True], c=3 and called with a=2, against the unbound call *)
Definition C08a_f : fundef :=
  mkfun [("c", Some (ESubscript (EName "Parameter") (EName "int")));
         ("a", Some (ESubscript (EName "Qint") (EConst (CInt 2%Z))));
         ("d", Some (ESubscript (EName "Parameter") (ESubscript (EName "List") (EName "bool"))))]%string
        (Some (ESubscript (EName "Qint") (EConst (CInt 2%Z))))%string
        [SReturn (EIfExp (ESubscript (EName "d") (EConst (CInt 1%Z)))
                         (EBinOp Add (EName "a") (EName "c")) (EName "a"))]%string.
Definition C08a_kw : list (string * pv) :=
  [("d", PSeq [PCst (CBool false); PCst (CBool true)]); ("c", PCst (CInt 3%Z))]%string.
Example C08a_example :
  exists f', bind_ast C08a_f C08a_kw = Ok f' /\
    map fst (f_args f') = ["a"%string] /\
    kw_vals C08a_kw = Some [("d"%string, VTup [VBool false; VBool true]); ("c"%string, VInt 3%Z)] /\
    merge_actuals (f_args C08a_f) [("d"%string, VTup [VBool false; VBool true]); ("c"%string, VInt 3%Z)] [VInt 2%Z]
      = Some [VInt 3%Z; VInt 2%Z; VTup [VBool false; VBool true]] /\
    run (fun _ _ => None) (f_body f') (call_env ["a"%string] [VInt 2%Z] empty_env) = Some (VInt 5%Z).
Proof. eexists. repeat split; vm_compute; reflexivity. Qed.
