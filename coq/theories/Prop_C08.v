(* Prop_C08.v — "Binding parameters is specialisation", on the model of
   UnboundQlassf.bind (M_Bind.v): for EVERY body, any number of parameters, any
   keyword order. The statements are for an arbitrary type of names/values with
   decidable equality; they are instantiated below so nothing is vacuous. *)
From Coq Require Import List Bool Arith String Permutation.
From QV Require Import M_Bind P_Bind.
Import ListNotations.

Theorem C08_keyword_order_irrelevant :
  forall (name value : Type) (name_eqb : name -> name -> bool),
  (forall a b, name_eqb a b = true <-> a = b) ->
  forall kw kw' (e : env name value) x,
  NoDup (map fst kw) -> Permutation kw kw' ->
  run_assigns name value name_eqb kw e x = run_assigns name value name_eqb kw' e x.
Proof. intros name value name_eqb H. exact (bind_order_irrelevant name value name_eqb H). Qed.
Print Assumptions C08_keyword_order_irrelevant.

Theorem C08_bind_is_specialisation :
  forall (name value result : Type) (name_eqb : name -> name -> bool),
  (forall a b, name_eqb a b = true <-> a = b) ->
  forall (body : env name value -> result) kw formals actuals all_formals all_actuals,
  NoDup (map fst kw) -> NoDup all_formals -> List.length all_formals = List.length all_actuals ->
  List.length formals = List.length actuals -> NoDup formals ->
  (forall k, In k (map fst kw) -> ~ In k formals) ->
  (forall k v, In (k, v) kw -> In (k, v) (combine all_formals all_actuals)) ->
  (forall k v, In (k, v) (combine formals actuals) -> In (k, v) (combine all_formals all_actuals)) ->
  (forall k, In k all_formals -> In k (map fst kw) \/ In k formals) ->
  (forall e1 e2 : env name value, (forall x, e1 x = e2 x) -> body e1 = body e2) ->
  bound_call name value result name_eqb body kw formals actuals =
  body (call_env name value name_eqb all_formals all_actuals).
Proof. intros name value result name_eqb H. exact (bind_is_specialisation name value result name_eqb H). Qed.
Print Assumptions C08_bind_is_specialisation.

(* non-vacuity: def test(c: P, a, d: P): bind(d=7, c=5) then call with a=1 *)
Example C08_example :
  let body := fun e : env string nat => (e "c"%string, e "a"%string, e "d"%string) in
  bound_call string nat _ String.eqb body [("d"%string, 7); ("c"%string, 5)] ["a"%string] [1]
  = body (call_env string nat String.eqb ["c"%string; "a"%string; "d"%string] [5; 1; 7]).
Proof. reflexivity. Qed.
