(* Chk_Compiled.v — what the harness evaluates for each compiled program:
   the verified checkers of Compiled.v on the implementation's gate list,
   expression list and qubit map. *)
From Coq Require Import List Bool NArith Arith.
From QV Require Import Bexp BexpTT Circ Compiled.
Import ListNotations.
Local Open Scope N_scope.

(* (status, witness): 0 = holds on every input; 1 = fails, witness is a failing
   assignment number; 2 = not decidable here (non-classical gate / symbol clash);
   3 = not requested *)
Definition verdict (r : option N) : list N :=
  match r with
  | None => [2; 0]
  | Some 0 => [0; 0]
  | Some d => [1; N.log2 d]
  end.

Record prog := mkprog {
  p_id : N; p_n : nat; p_nq : nat; p_gates : circuit; p_defs : defs;
  p_rets : list (nat * nat);     (* (return symbol, qubit) *)
  p_outs : list nat;             (* output qubits *)
  p_c03 : bool;
  p_c06 : option (nat * nat) }.  (* (return symbol, output qubit) *)

Definition run_prog (p : prog) : list N :=
  p_id p ::
  verdict (c02_check (p_n p) (p_nq p) (p_gates p) (p_defs p) (p_rets p)) ++
  (if p_c03 p then verdict (c03_check (p_n p) (p_nq p) (p_gates p) (p_outs p)) else [3; 0]) ++
  (match p_c06 p with
   | Some (r, o) => verdict (c06_check (p_n p) (p_nq p) (p_gates p) (p_defs p) r o)
   | None => [3; 0]
   end).

Definition bad (r : list N) : bool :=
  match r with
  | [_; a; _; b; _; c; _] => negb (((a =? 0) || (a =? 3)) && ((b =? 0) || (b =? 3)) && ((c =? 0) || (c =? 3)))
  | _ => true
  end.

Definition failing_progs (ps : list prog) : list N :=
  concat (filter bad (map run_prog ps)).
