(* P_Dimacs.v — lemmas about the model of py2bexp (M_Dimacs.v). *)
From Coq Require Import List Bool NArith ZArith Arith Lia String Ascii Sorted.
From QV Require Import Bexp BexpTT M_Dimacs.
Import ListNotations.
Local Open Scope Z_scope.

(* ------------------------------------------------------------------ *)
(* the numbering                                                       *)
Lemma index_of_some i order : forall k, index_of i order = Some k ->
  (k < List.length order)%nat /\ nth k order O = i.
Proof.
  induction order as [|x r IH]; intros k H; cbn [index_of] in H; [discriminate|].
  destruct (Nat.eqb_spec x i) as [->|Hne].
  - injection H as <-. cbn. split; [lia|reflexivity].
  - destruct (index_of i r) as [k'|] eqn:E; [|discriminate]. cbn in H. injection H as <-.
    destruct (IH k' eq_refl) as [Hl Hn]. cbn [List.length nth]. split; [lia|exact Hn].
Qed.

Lemma index_of_in i order : In i order -> exists k, index_of i order = Some k.
Proof.
  induction order as [|x r IH]; intros H; [destruct H|]. cbn [index_of].
  destruct (Nat.eqb_spec x i) as [->|Hne]; [now exists O|].
  destruct H as [H|H]; [congruence|]. destruct (IH H) as [k ->]. now exists (S k).
Qed.

Lemma index_of_notin i order : ~ In i order -> index_of i order = None.
Proof.
  induction order as [|x r IH]; intros H; [reflexivity|]. cbn [index_of].
  destruct (Nat.eqb_spec x i) as [->|Hne]; [exfalso; apply H; now left|].
  rewrite IH; [reflexivity|]. intros Hi; apply H; now right.
Qed.

Lemma index_of_nth order : NoDup order -> forall k, (k < List.length order)%nat ->
  index_of (nth k order O) order = Some k.
Proof.
  induction 1 as [|x r Hx Hnd IH]; intros k Hk; cbn [List.length] in Hk; [lia|].
  destruct k as [|k]; cbn [nth index_of].
  - now rewrite Nat.eqb_refl.
  - destruct (Nat.eqb_spec x (nth k r O)) as [->|Hne].
    + exfalso. apply Hx. apply nth_In. lia.
    + rewrite IH by lia. reflexivity.
Qed.

(* the number given to symbol i (0 when it has none) *)
Definition num (order : list nat) (i : nat) : nat :=
  match var_num order i with Some z => Z.to_nat z | None => O end.
(* the symbol carrying number k *)
Definition unnum (order : list nat) (k : nat) : nat := nth (k - 1) order O.

Lemma num_in order i : In i order ->
  exists k, index_of i order = Some k /\ num order i = S k /\ (S k <= List.length order)%nat.
Proof.
  intros H. destruct (index_of_in i order H) as [k Hk]. exists k. split; [exact Hk|].
  unfold num, var_num. rewrite Hk. cbn [option_map]. rewrite Nat2Z.id.
  destruct (index_of_some _ _ _ Hk). split; [reflexivity|lia].
Qed.

Lemma unnum_num order i : In i order -> unnum order (num order i) = i.
Proof.
  intros H. destruct (num_in order i H) as [k [Hk [-> _]]]. unfold unnum.
  replace (S k - 1)%nat with k by lia. now destruct (index_of_some _ _ _ Hk).
Qed.

Lemma num_unnum order k : NoDup order -> (1 <= k <= List.length order)%nat ->
  num order (unnum order k) = k.
Proof.
  intros Hnd Hk. unfold num, var_num, unnum. rewrite index_of_nth by (assumption || lia).
  cbn [option_map]. rewrite Nat2Z.id. lia.
Qed.

Lemma num_range order i : In i order -> (1 <= num order i <= List.length order)%nat.
Proof. intros H. destruct (num_in order i H) as [k [_ [-> Hl]]]. lia. Qed.

Lemma num_injective order i j : In i order -> In j order -> num order i = num order j -> i = j.
Proof. intros Hi Hj H. rewrite <- (unnum_num order i Hi), <- (unnum_num order j Hj). now rewrite H. Qed.

(* ------------------------------------------------------------------ *)
(* literals, clauses, clause lists                                     *)
Definition senv (order : list nat) (s : nat -> bool) : nat -> bool := fun i => s (num order i).

Lemma lit_ok order l : is_lit l = true -> incl (bsyms l) order ->
  exists z, lit_num order l = Some z /\ lit_in_range (List.length order) z = true /\
            forall s, lit_sat s z = beval (senv order s) l.
Proof.
  intros Hl Hin. destruct l as [b|i|e|?|?|?|? ? ?|? ?]; try discriminate.
  - assert (Hi : In i order) by (apply Hin; now left).
    destruct (num_in order i Hi) as [k [Hk [Hn Hr]]].
    exists (Z.of_nat (S k)). unfold lit_num, var_num. rewrite Hk. cbn [option_map].
    split; [reflexivity|]. split.
    + unfold lit_in_range. apply andb_true_iff. split.
      * apply negb_true_iff. apply Z.eqb_neq. lia.
      * apply Z.leb_le. lia.
    + intros s. unfold lit_sat. replace (0 <? Z.of_nat (S k)) with true by (symmetry; apply Z.ltb_lt; lia).
      rewrite Nat2Z.id. unfold beval, senv. cbn [geval]. now rewrite Hn.
  - destruct e as [b|i|?|?|?|?|? ? ?|? ?]; try discriminate.
    assert (Hi : In i order) by (apply Hin; now left).
    destruct (num_in order i Hi) as [k [Hk [Hn Hr]]].
    exists (- Z.of_nat (S k)). unfold lit_num, var_num. rewrite Hk. cbn [option_map].
    split; [reflexivity|]. split.
    + unfold lit_in_range. apply andb_true_iff. split.
      * apply negb_true_iff. apply Z.eqb_neq. lia.
      * apply Z.leb_le. lia.
    + intros s. unfold lit_sat. replace (0 <? - Z.of_nat (S k)) with false by (symmetry; apply Z.ltb_ge; lia).
      rewrite Z.opp_involutive, Nat2Z.id. rewrite beval_not. unfold beval, senv. cbn [geval]. now rewrite Hn.
Qed.

Lemma lits_ok order l : forallb is_lit l = true -> incl (flat_map bsyms l) order ->
  exists zs, mapM (lit_num order) l = Some zs /\ forallb (lit_in_range (List.length order)) zs = true /\
             forall s, clause_sat s zs = existsb (beval (senv order s)) l.
Proof.
  induction l as [|x r IH]; intros Hl Hin.
  - exists []. repeat split.
  - cbn [forallb] in Hl. apply andb_true_iff in Hl as [Hx Hr]. cbn [flat_map] in Hin.
    destruct (lit_ok order x Hx) as [z [Hz [Hzr Hzs]]].
    { intros i Hi. apply Hin, in_or_app. now left. }
    destruct (IH Hr) as [zs [Hzs1 [Hzs2 Hzs3]]].
    { intros i Hi. apply Hin, in_or_app. now right. }
    exists (z :: zs). cbn [mapM]. rewrite Hz, Hzs1. split; [reflexivity|]. split.
    + cbn [forallb]. now rewrite Hzr, Hzs2.
    + intros s. unfold clause_sat in *. cbn [existsb]. now rewrite Hzs, Hzs3.
Qed.

Lemma clause_ok order c : is_clause c = true -> incl (bsyms c) order ->
  exists zs, mapM (lit_num order) (lits_fixed c) = Some zs /\
             forallb (lit_in_range (List.length order)) zs = true /\
             forall s, clause_sat s zs = beval (senv order s) c.
Proof.
  intros Hc Hin.
  assert (Hlit : is_lit c = true -> exists zs, mapM (lit_num order) [c] = Some zs /\
             forallb (lit_in_range (List.length order)) zs = true /\
             forall s, clause_sat s zs = beval (senv order s) c).
  { intros Hl. destruct (lit_ok order c Hl Hin) as [z [Hz [Hzr Hzs]]].
    exists [z]. cbn [mapM]. rewrite Hz. split; [reflexivity|]. split.
    - cbn [forallb]. now rewrite Hzr.
    - intros s. unfold clause_sat. cbn [existsb]. now rewrite Hzs, orb_false_r. }
  destruct c as [b|i|e|l|l|l|? ? ?|? ?]; try discriminate; cbn [lits_fixed].
  - destruct b; [discriminate|]. exists []. repeat split.
  - apply Hlit. reflexivity.
  - apply Hlit. exact Hc.
  - cbn [is_clause] in Hc. cbn [bsyms] in Hin.
    destruct (lits_ok order l Hc Hin) as [zs [H1 [H2 H3]]]. exists zs. split; [exact H1|]. split; [exact H2|].
    intros s. rewrite beval_or. apply H3.
Qed.

Lemma clauses_ok order l : forallb is_clause l = true -> incl (flat_map bsyms l) order ->
  exists cls, mapM (fun c => mapM (lit_num order) (lits_fixed c)) l = Some cls /\
              List.length cls = List.length l /\
              well_numbered (List.length order) cls = true /\
              forall s, dimacs_sat s cls = forallb (beval (senv order s)) l.
Proof.
  induction l as [|x r IH]; intros Hl Hin.
  - exists []. repeat split.
  - cbn [forallb] in Hl. apply andb_true_iff in Hl as [Hx Hr]. cbn [flat_map] in Hin.
    destruct (clause_ok order x Hx) as [zs [Hz [Hzr Hzs]]].
    { intros i Hi. apply Hin, in_or_app. now left. }
    destruct (IH Hr) as [cls [H1 [H2 [H3 H4]]]].
    { intros i Hi. apply Hin, in_or_app. now right. }
    exists (zs :: cls). cbn [mapM]. rewrite Hz, H1. split; [reflexivity|]. split; [cbn; now rewrite H2|]. split.
    + unfold well_numbered in *. cbn [forallb]. now rewrite Hzr, H3.
    + intros s. unfold dimacs_sat in *. cbn [forallb]. now rewrite Hzs, H4.
Qed.

(* the clauses the fixed extraction takes from an expression in CNF shape *)
Lemma clauses_fixed_shape cnf : cnf_shape cnf = true ->
  forallb is_clause (clauses_fixed cnf) = true /\
  (forall env, beval env cnf = forallb (beval env) (clauses_fixed cnf)) /\
  incl (flat_map bsyms (clauses_fixed cnf)) (bsyms cnf).
Proof.
  intros H.
  assert (Hone : is_clause cnf = true -> clauses_fixed cnf = [cnf] ->
     forallb is_clause (clauses_fixed cnf) = true /\
     (forall env, beval env cnf = forallb (beval env) (clauses_fixed cnf)) /\
     incl (flat_map bsyms (clauses_fixed cnf)) (bsyms cnf)).
  { intros Hc ->. cbn [forallb flat_map]. rewrite Hc, app_nil_r. split; [reflexivity|]. split.
    - intros env. now rewrite andb_true_r.
    - apply incl_refl. }
  destruct cnf as [b|i|e|l|l|l|? ? ?|? ?]; try discriminate.
  - destruct b.
    + cbn [clauses_fixed forallb flat_map]. split; [reflexivity|]. split; [reflexivity|]. apply incl_refl.
    + apply Hone; reflexivity.
  - apply Hone; reflexivity.
  - apply Hone; [exact H|reflexivity].
  - cbn [cnf_shape] in H. cbn [clauses_fixed bsyms]. split; [exact H|]. split; [|apply incl_refl].
    intros env. apply beval_and.
  - apply Hone; [exact H|reflexivity].
Qed.

(* ---- dimacs_models_iff: the printed clause list means the expression ---- *)
Theorem dimacs_models_iff_lemma : forall cnf order,
  cnf_shape cnf = true -> NoDup order -> incl (bsyms cnf) order ->
  exists cls,
    to_dimacs_fixed cnf order = Some (List.length order, List.length cls, cls) /\
    List.length cls = List.length (clauses_fixed cnf) /\
    well_numbered (List.length order) cls = true /\
    (* every assignment of the numbers 1..nvars *)
    (forall s, dimacs_sat s cls = beval (fun i => s (num order i)) cnf) /\
    (* every assignment of the expression's symbols *)
    (forall env, dimacs_sat (fun k => env (unnum order k)) cls = beval env cnf).
Proof.
  intros cnf order Hs Hnd Hin.
  destruct (clauses_fixed_shape cnf Hs) as [Hc [Hev Hsy]].
  destruct (clauses_ok order (clauses_fixed cnf) Hc) as [cls [H1 [H2 [H3 H4]]]].
  { intros i Hi. apply Hin, Hsy, Hi. }
  exists cls. unfold to_dimacs_fixed. rewrite H1. split; [reflexivity|]. split; [exact H2|]. split; [exact H3|].
  assert (Hnum : forall s, dimacs_sat s cls = beval (fun i => s (num order i)) cnf).
  { intros s. rewrite H4, Hev. reflexivity. }
  split; [exact Hnum|].
  intros env. rewrite Hnum. unfold beval. apply (geval_ext bool_alg). intros i Hi.
  now rewrite unnum_num by (apply Hin, Hi).
Qed.

(* the numbering is one-to-one between the listed symbols and 1..nvars *)
Theorem numbering_bijective_lemma : forall order, NoDup order ->
  (forall i, In i order -> (1 <= num order i <= List.length order)%nat /\ unnum order (num order i) = i) /\
  (forall k, (1 <= k <= List.length order)%nat -> In (unnum order k) order /\ num order (unnum order k) = k) /\
  (forall i j, In i order -> In j order -> num order i = num order j -> i = j).
Proof.
  intros order Hnd. split; [|split].
  - intros i Hi. split; [now apply num_range|now apply unnum_num].
  - intros k Hk. split; [unfold unnum; apply nth_In; lia|now apply num_unnum].
  - apply num_injective.
Qed.

(* ---- today's extraction ---- *)
(* it agrees with the fixed one on a conjunction of two or more proper clauses *)
Definition is_clause_nf (c : bexp) : bool :=
  match c with BConst _ => false | _ => is_clause c end.

Lemma lits_today_fixed c : is_clause_nf c = true -> lits_today c = lits_fixed c.
Proof. destruct c as [b|i|e|l|l|l|? ? ?|? ?]; try discriminate; reflexivity. Qed.

Lemma mapM_ext {A B} (f g : A -> option B) l : (forall x, In x l -> f x = g x) -> mapM f l = mapM g l.
Proof.
  induction l as [|x r IH]; intros H; [reflexivity|]. cbn [mapM].
  rewrite (H x) by now left. rewrite IH; [reflexivity|]. intros y Hy. apply H. now right.
Qed.

Theorem dimacs_today_partial_lemma : forall l order,
  (2 <= List.length l)%nat -> forallb is_clause_nf l = true ->
  to_dimacs_today (BAnd l) order = to_dimacs_fixed (BAnd l) order.
Proof.
  intros l order Hlen Hcl. unfold to_dimacs_today, to_dimacs_fixed. cbn [sargs clauses_fixed].
  assert (E : mapM (fun c => mapM (lit_num order) (lits_today c)) l =
              mapM (fun c => mapM (lit_num order) (lits_fixed c)) l).
  { apply mapM_ext. intros c Hc. rewrite forallb_forall in Hcl. now rewrite lits_today_fixed by (apply Hcl, Hc). }
  rewrite E. destruct l as [|a [|b r]]; cbn [List.length] in Hlen; try lia. destruct a; reflexivity.
Qed.

(* ------------------------------------------------------------------ *)
(* which expressions are conjoined                                     *)
Lemma conj_fixed_equiv_lemma : forall exprs merged rets n,
  merge_contract exprs merged rets n ->
  syms_below n (conj_fixed merged) = true /\
  forall env, beval env (conj_fixed merged) = rets_all_true env exprs rets.
Proof.
  intros exprs merged rets n [Hf [Hs He]]. unfold conj_fixed, rets_all_true. subst rets. split.
  - unfold syms_below. cbn [bsyms]. apply forallb_forall. intros i Hi.
    apply in_flat_map in Hi as [e [He1 He2]]. apply in_map_iff in He1 as [[s e'] [<- Hin]].
    specialize (Hs s e' Hin). unfold syms_below in Hs. rewrite forallb_forall in Hs. now apply Hs.
  - intros env. rewrite beval_and. clear Hs.
    induction merged as [|[s e] r IH]; [reflexivity|]. cbn [map forallb fst snd].
    rewrite (He env s e) by now left. f_equal. apply IH. intros env' s' e' H. apply He. now right.
Qed.

Lemma run_defs_notin ds : forall env j, ~ In j (map fst ds) -> run_defs env ds j = env j.
Proof.
  induction ds as [|[s e] r IH]; intros env j H; [reflexivity|].
  rewrite run_defs_cons, IH.
  - cbn [map fst] in H. destruct (Nat.eqb_spec j s) as [->|]; [exfalso; apply H; now left|reflexivity].
  - intros Hj. apply H. now right.
Qed.

Lemma run_defs_in ds : forall env s e, NoDup (map fst ds) -> In (s, e) ds ->
  (forall i, In i (bsyms e) -> ~ In i (map fst ds)) -> run_defs env ds s = beval env e.
Proof.
  induction ds as [|[s0 e0] r IH]; intros env s e Hnd Hin Hfree; [destruct Hin|].
  cbn [map fst] in Hnd, Hfree. inversion Hnd as [|? ? Hn0 Hnd']; subst.
  rewrite run_defs_cons. destruct Hin as [Heq|Hin].
  - injection Heq as -> ->. rewrite run_defs_notin by exact Hn0. now rewrite Nat.eqb_refl.
  - rewrite (IH _ s e Hnd' Hin).
    + unfold beval. apply (geval_ext bool_alg). intros i Hi.
      destruct (Nat.eqb_spec i s0) as [->|]; [|reflexivity]. exfalso. apply (Hfree s0 Hi). now left.
    + intros i Hi Hr. apply (Hfree i Hi). now right.
Qed.

(* today's conjunction is right when the expression list has no intermediates:
   every right-hand side is over symbols that the list does not define *)
Theorem conj_today_partial_lemma : forall exprs,
  NoDup (map fst exprs) ->
  (forall s e, In (s, e) exprs -> forall i, In i (bsyms e) -> ~ In i (map fst exprs)) ->
  forall env, beval env (conj_today exprs) = rets_all_true env exprs (map fst exprs).
Proof.
  intros exprs Hnd Hfree env. unfold conj_today, rets_all_true. rewrite beval_and.
  assert (H : forall l, incl l exprs -> forallb (beval env) (map snd l) = forallb (run_defs env exprs) (map fst l)).
  { induction l as [|[s e] r IH]; intros Hl; [reflexivity|]. cbn [map forallb fst snd].
    rewrite (run_defs_in exprs env s e Hnd).
    - f_equal. apply IH. intros x Hx. apply Hl. now right.
    - apply Hl. now left.
    - apply (Hfree s e). apply Hl. now left. }
  apply H, incl_refl.
Qed.

(* the whole DIMACS path of py2bexp with the sympy calls as oracles *)
Section Pipeline.
  Variable to_cnf : bexp -> bexp.
  Hypothesis to_cnf_contract : forall e,
    cnf_shape (to_cnf e) = true /\ (forall env, beval env (to_cnf e) = beval env e) /\
    incl (bsyms (to_cnf e)) (bsyms e).

  Theorem dimacs_pipeline_lemma : forall exprs merged rets n expr order,
    merge_contract exprs merged rets n ->
    (forall env, beval env expr = beval env (conj_fixed merged)) ->   (* the normal-form oracle *)
    NoDup order -> incl (bsyms expr) order ->                          (* enumerate(expr.free_symbols) *)
    exists cls,
      to_dimacs_fixed (to_cnf expr) order = Some (List.length order, List.length cls, cls) /\
      well_numbered (List.length order) cls = true /\
      forall env, dimacs_sat (fun k => env (unnum order k)) cls = rets_all_true env exprs rets.
  Proof.
    intros exprs merged rets n expr order Hm Heq Hnd Hin.
    destruct (to_cnf_contract expr) as [Hs [He Hi]].
    destruct (dimacs_models_iff_lemma (to_cnf expr) order Hs Hnd) as [cls [H1 [_ [H3 [_ H5]]]]].
    { intros i H. apply Hin, Hi, H. }
    exists cls. split; [exact H1|]. split; [exact H3|].
    intros env. rewrite H5, He, Heq. now apply (conj_fixed_equiv_lemma exprs merged rets n).
  Qed.
End Pipeline.

(* ------------------------------------------------------------------ *)
(* entry-point selection                                               *)
Section SelectLemmas.
  Context {A : Type}.
  Implicit Types l : list (string * A).

  Lemma select_single_lemma (n : string) (x : A) : select None [(n, x)] = Some x.
  Proof. reflexivity. Qed.

  Lemma find_last_app l n x : find_last_qlassf (l ++ [(n, x)]) = Some x.
  Proof. unfold find_last_qlassf. now rewrite rev_app_distr. Qed.

  Lemma find_named_in l : forall n x, NoDup (map fst l) -> In (n, x) l -> find_named n l = Some x.
  Proof.
    unfold find_named. induction l as [|[m y] r IH]; intros n x Hnd Hin; [destruct Hin|].
    cbn [find fst]. cbn [map fst] in Hnd. inversion Hnd as [|? ? Hm Hnd']; subst.
    destruct Hin as [Heq|Hin].
    - injection Heq as -> ->. now rewrite String.eqb_refl.
    - destruct (String.eqb_spec m n) as [->|Hne].
      + exfalso. apply Hm. apply in_map_iff. now exists (n, x).
      + now apply IH.
  Qed.

  Lemma find_named_absent l n : ~ In n (map fst l) -> find_named n l = None.
  Proof.
    unfold find_named. induction l as [|[m y] r IH]; intros H; [reflexivity|].
    cbn [find fst]. cbn [map fst] in H. destruct (String.eqb_spec m n) as [->|Hne].
    - exfalso. apply H. now left.
    - apply IH. intros Hr. apply H. now right.
  Qed.

  (* "-e name" selects the member of that name *)
  Lemma select_members_named_lemma l n x :
    n <> EmptyString -> NoDup (map fst l) -> In (n, x) l -> select_members (Some n) l = Some x.
  Proof.
    intros Hn Hnd Hin. unfold select_members.
    destruct (String.eqb_spec n EmptyString) as [->|_]; [congruence|]. now apply find_named_in.
  Qed.

  Lemma select_members_absent_lemma l n :
    n <> EmptyString -> ~ In n (map fst l) -> select_members (Some n) l = None.
  Proof.
    intros Hn H. unfold select_members.
    destruct (String.eqb_spec n EmptyString) as [->|_]; [congruence|]. now apply find_named_absent.
  Qed.

  (* no option: the last member of the getmembers list *)
  Lemma select_members_default_lemma l n x : select_members None (l ++ [(n, x)]) = Some x.
  Proof. apply find_last_app. Qed.

  (* ---- getmembers sorts by name (strictly: one binding per name) ---- *)
  Definition str_ltb (a b : string) : bool := match String.compare a b with Lt => true | _ => false end.

  Lemma ascii_compare_eq a b : Ascii.compare a b = Eq -> a = b.
  Proof.
    unfold Ascii.compare. intros H. apply N.compare_eq in H.
    rewrite <- (ascii_N_embedding a), <- (ascii_N_embedding b). now rewrite H.
  Qed.

  Lemma ascii_compare_lt_trans a b c : Ascii.compare a b = Lt -> Ascii.compare b c = Lt -> Ascii.compare a c = Lt.
  Proof. unfold Ascii.compare. rewrite !N.compare_lt_iff. lia. Qed.

  Lemma str_lt_trans : forall a b c, String.compare a b = Lt -> String.compare b c = Lt -> String.compare a c = Lt.
  Proof.
    induction a as [|x a IH]; intros b c Hab Hbc.
    - destruct b as [|y b]; [discriminate|]. destruct c as [|z c]; [discriminate|reflexivity].
    - destruct b as [|y b]; [discriminate|]. destruct c as [|z c]; [discriminate|].
      cbn [String.compare] in *.
      destruct (Ascii.compare x y) eqn:Exy; try discriminate.
      + apply ascii_compare_eq in Exy. subst y.
        destruct (Ascii.compare x z) eqn:Exz; try discriminate; [|reflexivity]. now apply (IH b c).
      + destruct (Ascii.compare y z) eqn:Eyz; try discriminate.
        * apply ascii_compare_eq in Eyz. subst z. now rewrite Exy.
        * now rewrite (ascii_compare_lt_trans x y z Exy Eyz).
  Qed.

  Definition name_lt (p q : string * A) : Prop := String.compare (fst p) (fst q) = Lt.

  Lemma insert_member_sorted p : forall l, StronglySorted name_lt l ->
    StronglySorted name_lt (insert_member p l) /\
    (forall q, In q (insert_member p l) -> q = p \/ In q l).
  Proof.
    induction l as [|q r IH]; intros Hs.
    - cbn [insert_member]. split; [repeat constructor|]. intros q [<-|[]]. now left.
    - inversion Hs as [|? ? Hsr Hall]; subst. cbn [insert_member].
      destruct (String.eqb_spec (fst p) (fst q)) as [Heq|Hne].
      + split.
        * constructor; [exact Hsr|]. rewrite Forall_forall in *. intros y Hy. unfold name_lt. rewrite Heq. now apply Hall.
        * intros y [<-|Hy]; [now left|right; now right].
      + unfold str_leb. destruct (String.compare (fst p) (fst q)) eqn:Ec.
        * apply String.compare_eq_iff in Ec. congruence.
        * split.
          -- constructor; [exact Hs|]. constructor; [exact Ec|]. rewrite Forall_forall in *. intros y Hy.
             unfold name_lt. apply (str_lt_trans _ (fst q)); [exact Ec|now apply Hall].
          -- intros y [<-|Hy]; [now left|now right].
        * destruct (IH Hsr) as [IH1 IH2]. split.
          -- constructor; [exact IH1|]. rewrite Forall_forall in *. intros y Hy.
             destruct (IH2 y Hy) as [->|Hy'].
             ++ unfold name_lt. rewrite String.compare_antisym, Ec. reflexivity.
             ++ now apply Hall.
          -- intros y [<-|Hy]; [right; now left|]. destruct (IH2 y Hy) as [->|Hy']; [now left|right; now right].
  Qed.

  Lemma getmembers_sorted_lemma (ds : list (string * A)) : StronglySorted name_lt (getmembers ds).
  Proof.
    unfold getmembers.
    assert (H : forall acc, StronglySorted name_lt acc ->
              StronglySorted name_lt (fold_left (fun acc p => insert_member p acc) ds acc)).
    { induction ds as [|p r IH]; intros acc Hacc; [exact Hacc|]. cbn [fold_left]. apply IH.
      now apply insert_member_sorted. }
    apply H. constructor.
  Qed.

  (* hence the default choice is the member whose name is alphabetically greatest,
     whatever the order of definition in the script *)
  Lemma select_default_greatest_lemma (ds : list (string * A)) x :
    select None ds = Some x ->
    exists n, In (n, x) (getmembers ds) /\
      forall m y, In (m, y) (getmembers ds) -> m = n \/ String.compare m n = Lt.
  Proof.
    unfold select, select_members, find_last_qlassf. pose proof (getmembers_sorted_lemma ds) as Hs.
    set (g := getmembers ds) in *. clearbody g.
    destruct (rev g) as [|[n x0] r] eqn:E; [discriminate|]. cbn [snd]. intros H. injection H as ->.
    assert (Hg : g = rev r ++ [(n, x)]) by (rewrite <- (rev_involutive g), E; reflexivity).
    subst g. clear E. set (l := rev r) in *. clearbody l.
    exists n. split; [apply in_or_app; right; now left|].
    intros m y Hin. apply in_app_or in Hin as [Hin|[Heq|[]]].
    - right. induction l as [|q l IH]; [destruct Hin|].
      cbn [app] in Hs. inversion Hs as [|? ? Hsr Hall]; subst. destruct Hin as [->|Hin].
      + rewrite Forall_forall in Hall. apply (Hall (n, x)). apply in_or_app. right. now left.
      + now apply IH.
    - left. congruence.
  Qed.
End SelectLemmas.
