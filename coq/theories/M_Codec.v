(* M_Codec.v — executable model of the value codecs of qlasskit/types
   (qtype.py, qint.py, qfixed.py, qchar.py, types/__init__.py) and of
   QlassF.encode_input / decode_output (qlassfun.py).
   No proofs here: the model must still evaluate when a proof breaks. *)
From Coq Require Import List Bool NArith Arith.
From QV Require Import Bits.
Import ListNotations.
Local Open Scope N_scope.

(* ---- Python strings over the alphabet used by bin() ---- *)
Inductive ch := C0 | C1 | Cb.
Definition ch_of_bool (b : bool) : ch := if b then C1 else C0.
Definition is1 (c : ch) : bool := match c with C1 => true | _ => false end.

(* bin(n), n >= 0 *)
Definition py_bin (n : N) : list ch := C0 :: Cb :: map ch_of_bool (bin_digits n).

(* int(s, 2) for a string of '0'/'1' *)
Definition py_int2 (s : list ch) : N :=
  fold_left (fun acc c => 2 * acc + N.b2n (is1 c)) s 0.

(* qtype.py: bin_to_bool_list(b, bit_size=None) *)
Definition strip0b (s : list ch) : list ch :=
  match s with C0 :: Cb :: r => r | _ => s end.

Definition bin_to_bool_list (b : list ch) (bit_size : option nat) : list bool :=
  let b := strip0b b in
  let size := match bit_size with Some k => k | None => length b end in
  let s := map is1 (firstn size b) in
  repeat false (size - length s) ++ s.

(* qtype.py: bool_list_to_bin *)
Definition bool_list_to_bin (l : list bool) : list ch := map ch_of_bool l.

(* Qtype.fill / Qtype.crop on constant bit lists (the generic version over
   expressions is in M_Types.v) *)
Definition fill_b (w : nat) (l : list bool) : list bool :=
  if (w <=? length l)%nat then l else l ++ repeat false (w - length l).

(* ---- QintImp (width w) ---- *)
Definition qint_new (w : nat) (v : N) : N := v mod 2 ^ N.of_nat w.       (* __init__ *)
Definition qint_from_bool (w : nat) (v : list bool) : N :=
  qint_new w (py_int2 (bool_list_to_bin (rev v))).
Definition qint_to_bool (w : nat) (value : N) : list bool :=
  rev (bin_to_bool_list (py_bin value) (Some w)).
(* to_amplitudes: (length of the vector, index holding 1) *)
Definition qint_amp (w : nat) (value : N) : N * N := (2 ^ N.of_nat w, value).
Definition qint_const (w : nat) (v : N) : list bool :=
  let v := v mod 2 ^ N.of_nat w in
  let cval := map is1 (skipn 2 (py_bin v)) in
  fill_b w (rev cval).

(* ---- Qchar ---- *)
Definition qchar_to_bool (c : N) : list bool :=
  rev (bin_to_bool_list (py_bin c) (Some 8%nat)).
Definition qchar_from_bool (v : list bool) : N := py_int2 (rev (bool_list_to_bin v)).
Definition qchar_amp (c : N) : N * N := (2 ^ 8, c).
Definition qchar_const (c : N) : list bool :=
  fill_b 8 (rev (bin_to_bool_list (py_bin c) None)).

(* ---- QfixedImp (i integer bits, f fractional bits) ----
   Python floats are dyadic rationals; the operations the codec applies
   (int(), % 1, * 2, sums of 2^-k) are exact on them in the ranges involved.
   A value is dnum / 2^dexp. *)
Record dy := mkdy { dnum : N; dexp : nat }.
Definition dy_int (x : dy) : N := dnum x / 2 ^ N.of_nat (dexp x).
Definition dy_mod1 (x : dy) : dy := mkdy (dnum x mod 2 ^ N.of_nat (dexp x)) (dexp x).
Definition dy_dbl (x : dy) : dy := mkdy (2 * dnum x) (dexp x).
Definition dy_eqb (x y : dy) : bool :=
  dnum x * 2 ^ N.of_nat (dexp y) =? dnum y * 2 ^ N.of_nat (dexp x).

Definition qfixed_from_bool (i f : nat) (v : list bool) : dy :=
  let integer_part := firstn i v in
  let fractional_part := skipn i v in
  let integer_value := py_int2 (bool_list_to_bin (rev integer_part)) in
  (* sum over set bits j of 2^-(j+1), in closed form over 2^length *)
  let l := length fractional_part in
  mkdy (integer_value * 2 ^ N.of_nat l + py_int2 (bool_list_to_bin fractional_part)) l.

Fixpoint frac_loop (n : nat) (c : dy) : list bool :=
  match n with
  | O => []
  | S n' => let c := dy_dbl (dy_mod1 c) in (dy_int c =? 1) :: frac_loop n' c
  end.

Definition qfixed_to_bool (i f : nat) (x : dy) : list bool :=
  rev (bin_to_bool_list (py_bin (dy_int x mod 2 ^ N.of_nat i)) (Some i)) ++ frac_loop f x.

Definition qfixed_const (i f : nat) (x : dy) : list bool := qfixed_to_bool i f x.
Definition qfixed_amp (i f : nat) (x : dy) : N * N :=
  (2 ^ N.of_nat (i + f), py_int2 (rev (bool_list_to_bin (qfixed_to_bool i f x)))).

(* ---- types/__init__.py: const_to_qtype for int constants ---- *)
Definition const_widths : list nat := [2; 4; 6; 8; 12; 16]%nat.
Fixpoint const_int_search (ws : list nat) (v : N) : option (nat * list bool) :=
  match ws with
  | [] => None
  | w :: r => if v <? 2 ^ N.of_nat w then Some (w, qint_const w v) else const_int_search r v
  end.
Definition const_to_qtype_int (v : N) := const_int_search const_widths v.

(* ---- types/__init__.py: const_to_qtype for float constants ----
   first Qfixed type (in list order) whose encoding decodes to within 0.05 *)
Definition dy_add (x y : dy) : dy :=
  let k := Nat.max (dexp x) (dexp y) in
  mkdy (dnum x * 2 ^ N.of_nat (k - dexp x) + dnum y * 2 ^ N.of_nat (k - dexp y)) k.
Definition dy_ltb (x y : dy) : bool :=
  dnum x * 2 ^ N.of_nat (dexp y) <? dnum y * 2 ^ N.of_nat (dexp x).
(* the double nearest to 0.05 *)
Definition tol005 : dy := mkdy 3602879701896397 56.
Fixpoint const_float_search (ts : list (nat * nat)) (x : dy) : option (nat * nat * list bool) :=
  match ts with
  | [] => None
  | (i, f) :: r =>
      let bits := qfixed_const i f x in
      let c := qfixed_from_bool i f bits in
      if dy_ltb x (dy_add c tol005) && dy_ltb c (dy_add x tol005)
      then Some (i, f, bits) else const_float_search r x
  end.

(* ---- type trees and values ---- *)
Inductive ty := TBool | TQint (w : nat) | TQfixed (i f : nat) | TQchar | TTuple (l : list ty).
Inductive val := VBool (b : bool) | VInt (n : N) | VFix (x : dy) | VChar (c : N) | VTuple (l : list val).

Fixpoint ty_size (t : ty) : nat :=
  match t with
  | TBool => 1
  | TQint w => w
  | TQfixed i f => i + f
  | TQchar => 8
  | TTuple l => list_sum (map ty_size l)
  end%nat.

(* types/__init__.py: format_outcome on a string / list; the bits of the string, in string order *)
Definition format_outcome (out : list bool) (out_len : option nat) : list bool :=
  match out_len with
  | None => out
  | Some n => if (length out <? n)%nat then out ++ repeat false (n - length out) else out
  end.

(* the loop over get_args(qtype) of _interpret, abstracted over the recursive call *)
Section InterpList.
  Variables (f : ty -> list bool -> nat -> option val) (sz : ty -> nat) (out : list bool).
  Fixpoint interp_list (l : list ty) (idx : nat) : option (list val) :=
    match l with
    | [] => Some []
    | x :: r =>
        match f x (firstn (sz x) (skipn idx out)) (sz x), interp_list r (idx + sz x)%nat with
        | Some v, Some vs => Some (v :: vs)
        | _, _ => None
        end
    end.
End InterpList.

(* types/__init__.py: interpret_as_qtype._interpret *)
Fixpoint interpret (t : ty) (out : list bool) (out_len : nat) : option val :=
  match t with
  | TQint w => Some (VInt (qint_from_bool w (firstn out_len out)))
  | TQfixed i f => Some (VFix (qfixed_from_bool i f (firstn out_len out)))
  | TQchar => Some (VChar (qchar_from_bool (firstn out_len out)))
  | TBool => match out with b :: _ => Some (VBool b) | [] => None end
  | TTuple l => option_map VTuple (interp_list interpret ty_size out l 0%nat)
  end.

Definition interpret_as_qtype (out : list bool) (t : ty) (out_len : option nat) : option val :=
  let o := rev (format_outcome out out_len) in
  interpret t o (match out_len with Some n => n | None => length o end).

(* qlassfun.py: QlassF.encode_input.val_to_bin *)
(* zip(get_args(argt), val) loop, abstracted over the recursive call *)
Section ZipBin.
  Variable f : ty -> val -> option (list bool).
  Fixpoint zip_bin (ts : list ty) (vs : list val) : option (list bool) :=
    match ts, vs with
    | t :: ts', v :: vs' =>
        match f t v, zip_bin ts' vs' with
        | Some a, Some b => Some (a ++ b)
        | _, _ => None
        end
    | _, _ => Some []
    end.
End ZipBin.

Fixpoint val_to_bin (t : ty) (v : val) : option (list bool) :=
  match t, v with
  | TBool, VBool b => Some [b]
  | TQint w, VInt n => Some (qint_to_bool w n)
  | TQfixed i f, VFix x => Some (qfixed_to_bool i f x)
  | TQchar, VChar c => Some (qchar_to_bool c)
  | TTuple ts, VTuple vs => zip_bin val_to_bin ts vs
  | _, _ => None
  end.

(* encode_input( *qvals ): concatenate over the arguments, then reverse the string *)
Definition encode_args (ts : list ty) (vs : list val) : option (list bool) :=
  zip_bin val_to_bin ts vs.
Definition encode_input (ts : list ty) (vs : list val) : option (list bool) :=
  option_map (@rev bool) (encode_args ts vs).

(* decode_output(istr) for a string reading *)
Definition decode_output (ret : ty) (istr : list bool) : option val :=
  let fcome := rev (format_outcome istr None) in
  interpret_as_qtype (rev fcome) ret (Some (ty_size ret)).

(* well-formed values: what a caller can pass *)
Section WfList.
  Variable f : ty -> val -> bool.
  Fixpoint wf_list (ts : list ty) (vs : list val) : bool :=
    match ts, vs with
    | [], [] => true
    | t :: ts', v :: vs' => f t v && wf_list ts' vs'
    | _, _ => false
    end.
End WfList.

Fixpoint wf_val (t : ty) (v : val) : bool :=
  match t, v with
  | TBool, VBool _ => true
  | TQint w, VInt n => (0 <? w)%nat && (n <? 2 ^ N.of_nat w)
  | TQfixed i f, VFix x => Nat.eqb (dexp x) f && (dnum x <? 2 ^ N.of_nat (i + f))
  | TQchar, VChar c => c <? 2 ^ 8
  | TTuple ts, VTuple vs => wf_list wf_val ts vs
  | _, _ => false
  end.
