(* WH.v — Walsh-Hadamard algebra on integer amplitudes, for EVERY n.

   sumN n f           = sum of f x over x < 2^n (recursion on n)
   WH n psi i         = sum over x < 2^n of (-1)^(x.i) psi(i with its low n bits replaced by x)
   hlayer n psi       = the reference H gate of Amp.v applied to qubits 0, 1, .., n-1 in turn
   hlayer_WH          : the two agree pointwise (gate-by-gate  <->  layer)
   char_sum / WH_char : sum_x (-1)^(x.t) = 2^n [t = 0];  WH n (x |-> (-1)^(s.x)) y = 2^n [y = s]
   WH_zero            : WH n psi i = sum_x psi(..x..) when the low n bits of i are 0
   WH_add/scale/opp   : linearity;  WH_ext: extensionality (no functional extensionality axiom)
   hlayer_invol       : the layer applied twice is 2^n times the identity
   diffuser_is_reflection : H^n ; (sign flip on low bits = 0) ; H^n
                            = 2^n psi - 2 * (sum of psi over the low n bits)          *)
From Coq Require Import List Bool NArith ZArith Arith Lia.
From QV Require Import BexpTT Circ Amp.
Import ListNotations.
Local Open Scope N_scope.

(* ------------------------------------------------------------------ *)
(* ranges as bit conditions                                            *)
(* ------------------------------------------------------------------ *)
Lemma lt_pow2_bits x n : x < 2 ^ n <-> (forall m, n <= m -> N.testbit x m = false).
Proof.
  split.
  - intros H m Hm. apply testbit_small. eapply N.lt_le_trans; [exact H|]. apply N.pow_le_mono_r; lia.
  - intros H. destruct (N.eq_dec x 0) as [->|Hx]; [apply N.neq_0_lt_0, N.pow_nonzero; lia|].
    apply N.log2_lt_pow2; [lia|]. destruct (N.lt_ge_cases (N.log2 x) n) as [Hl|Hl]; [exact Hl|].
    specialize (H (N.log2 x) Hl). rewrite (N.bit_log2 x Hx) in H. discriminate.
Qed.

Definition inr (n : nat) (x : N) : Prop := x < pow2n n.

Lemma inr_bits n x : inr n x <-> (forall m, N.of_nat n <= m -> N.testbit x m = false).
Proof. apply lt_pow2_bits. Qed.

Lemma inr_high n x m : inr n x -> N.of_nat n <= m -> N.testbit x m = false.
Proof. intros H. now apply inr_bits. Qed.

Lemma inr_S n x : inr n x -> inr (S n) x.
Proof. rewrite !inr_bits. intros H m Hm. apply H. lia. Qed.

Lemma inr_setbit n x : inr n x -> inr (S n) (N.setbit x (N.of_nat n)).
Proof.
  rewrite !inr_bits. intros H m Hm. rewrite N.setbit_eqb, H by lia.
  destruct (N.eqb_spec (N.of_nat n) m); [lia|reflexivity].
Qed.

Lemma inr_top_clear n a : inr (S n) a -> N.testbit a (N.of_nat n) = false -> inr n a.
Proof.
  rewrite !inr_bits. intros H Hb m Hm. destruct (N.eq_dec m (N.of_nat n)) as [->|Hne]; [exact Hb|].
  apply H. lia.
Qed.

Lemma inr_clearbit n a : inr (S n) a -> inr n (N.clearbit a (N.of_nat n)).
Proof.
  rewrite !inr_bits. intros H m Hm. rewrite N.clearbit_eqb.
  destruct (N.eqb_spec (N.of_nat n) m) as [<-|Hne]; [apply andb_false_r|].
  rewrite H by lia. reflexivity.
Qed.

Lemma inr_O_eq a : inr 0 a -> a = 0.
Proof. unfold inr, pow2n. change (2 ^ N.of_nat 0) with 1. lia. Qed.

Lemma inr_0 n : inr n 0.
Proof. apply inr_bits. intros m _. apply N.bits_0. Qed.

(* ------------------------------------------------------------------ *)
(* sums over x < 2^n                                                   *)
(* ------------------------------------------------------------------ *)
Fixpoint sumN (n : nat) (f : N -> Z) : Z :=
  match n with
  | O => f 0
  | S m => (sumN m f + sumN m (fun x => f (N.setbit x (N.of_nat m))))%Z
  end.

Lemma sumN_ext n : forall f g, (forall x, inr n x -> f x = g x) -> sumN n f = sumN n g.
Proof.
  induction n as [|n IH]; intros f g H; cbn [sumN].
  - apply H, inr_0.
  - rewrite (IH f g), (IH (fun x => f (N.setbit x (N.of_nat n))) (fun x => g (N.setbit x (N.of_nat n)))); [reflexivity| |].
    + intros x Hx. apply H. now apply inr_setbit.
    + intros x Hx. apply H. now apply inr_S.
Qed.

Lemma sumN_add n : forall f g, sumN n (fun x => (f x + g x)%Z) = (sumN n f + sumN n g)%Z.
Proof. induction n as [|n IH]; intros f g; cbn [sumN]; [reflexivity|]. rewrite !IH. lia. Qed.

Lemma sumN_scale n c : forall f, sumN n (fun x => (c * f x)%Z) = (c * sumN n f)%Z.
Proof. induction n as [|n IH]; intros f; cbn [sumN]; [reflexivity|]. rewrite !IH. lia. Qed.

Lemma sumN_opp n f : sumN n (fun x => (- f x)%Z) = (- sumN n f)%Z.
Proof.
  rewrite (sumN_ext n _ (fun x => (-1 * f x)%Z)) by (intros; lia). rewrite sumN_scale. lia.
Qed.

Lemma sumN_zero n : sumN n (fun _ => 0%Z) = 0%Z.
Proof. induction n as [|n IH]; cbn [sumN]; [reflexivity|]. rewrite !IH. reflexivity. Qed.

Definition pow2z (n : nat) : Z := (2 ^ Z.of_nat n)%Z.
Lemma pow2z_0 : pow2z 0 = 1%Z.
Proof. reflexivity. Qed.
Lemma pow2z_S n : pow2z (S n) = (2 * pow2z n)%Z.
Proof. unfold pow2z. rewrite Nat2Z.inj_succ, Z.pow_succ_r by lia. reflexivity. Qed.

Lemma sumN_const n c : sumN n (fun _ => c) = (pow2z n * c)%Z.
Proof. induction n as [|n IH]; cbn [sumN]; [rewrite pow2z_0; lia|]. rewrite IH, pow2z_S. lia. Qed.

(* a single point *)
Lemma sumN_single n : forall a g, inr n a ->
  sumN n (fun x => if N.eqb x a then g x else 0%Z) = g a.
Proof.
  induction n as [|n IH]; intros a g Ha; cbn [sumN].
  - rewrite (inr_O_eq a Ha). reflexivity.
  - destruct (N.testbit a (N.of_nat n)) eqn:Hb.
    + rewrite (sumN_ext n _ (fun _ => 0%Z)), sumN_zero.
      * rewrite (sumN_ext n _ (fun x => if N.eqb x (N.clearbit a (N.of_nat n)) then g (N.setbit x (N.of_nat n)) else 0%Z)).
        -- rewrite (IH (N.clearbit a (N.of_nat n)) (fun x => g (N.setbit x (N.of_nat n)))) by now apply inr_clearbit.
           now rewrite setbit_clearbit.
        -- intros x Hx. assert (Hxb : N.testbit x (N.of_nat n) = false) by (apply (inr_high n x); [exact Hx|lia]).
           destruct (N.eqb_spec (N.setbit x (N.of_nat n)) a) as [E|E], (N.eqb_spec x (N.clearbit a (N.of_nat n))) as [E'|E']; try reflexivity.
           ++ exfalso. apply E'. rewrite <- E. symmetry. now apply clearbit_setbit.
           ++ exfalso. apply E. rewrite E'. now apply setbit_clearbit.
      * intros x Hx. destruct (N.eqb_spec x a) as [->|_]; [|reflexivity].
        rewrite (inr_high n a (N.of_nat n) Hx) in Hb by lia. discriminate.
    + rewrite (IH a g) by now apply inr_top_clear.
      rewrite (sumN_ext n _ (fun _ => 0%Z)), sumN_zero; [lia|].
      intros x Hx. destruct (N.eqb_spec (N.setbit x (N.of_nat n)) a) as [E|_]; [|reflexivity].
      rewrite <- E, testbit_setbit in Hb. discriminate.
Qed.

(* ------------------------------------------------------------------ *)
(* signs, dot product of the low n bits, replacing the low n bits      *)
(* ------------------------------------------------------------------ *)
Definition sgn (b : bool) (z : Z) : Z := if b then (- z)%Z else z.

Lemma sgn_xorb a b z : sgn (xorb a b) z = sgn a (sgn b z).
Proof. destruct a, b; cbn [sgn xorb]; lia. Qed.
Lemma sgn_mul b z : sgn b z = (sgn b 1 * z)%Z.
Proof. destruct b; cbn [sgn xorb]; lia. Qed.
Lemma sgn_add b x y : sgn b (x + y)%Z = (sgn b x + sgn b y)%Z.
Proof. destruct b; cbn [sgn xorb]; lia. Qed.
Lemma sgn_0 b : sgn b 0 = 0%Z.
Proof. now destruct b. Qed.
Lemma sgn_invol b z : sgn b (sgn b z) = z.
Proof. destruct b; cbn [sgn xorb]; lia. Qed.

Fixpoint dotb (n : nat) (x y : N) : bool :=
  match n with
  | O => false
  | S m => xorb (N.testbit x (N.of_nat m) && N.testbit y (N.of_nat m)) (dotb m x y)
  end.

Lemma dotb_ext n : forall x x' y y',
  (forall j, j < N.of_nat n -> N.testbit x j = N.testbit x' j) ->
  (forall j, j < N.of_nat n -> N.testbit y j = N.testbit y' j) -> dotb n x y = dotb n x' y'.
Proof.
  induction n as [|n IH]; intros x x' y y' Hx Hy; cbn [dotb]; [reflexivity|].
  rewrite Hx, Hy by lia. f_equal. apply IH; intros j Hj; [apply Hx|apply Hy]; lia.
Qed.

Lemma dotb_comm n x y : dotb n x y = dotb n y x.
Proof. induction n as [|n IH]; cbn [dotb]; [reflexivity|]. now rewrite IH, andb_comm. Qed.

Lemma dotb_lxor_r n x a b : dotb n x (N.lxor a b) = xorb (dotb n x a) (dotb n x b).
Proof.
  induction n as [|n IH]; cbn [dotb]; [reflexivity|]. rewrite IH, N.lxor_spec.
  destruct (N.testbit x (N.of_nat n)), (N.testbit a (N.of_nat n)), (N.testbit b (N.of_nat n)),
    (dotb n x a), (dotb n x b); reflexivity.
Qed.

(* the low n bits are all zero *)
Fixpoint lowz (n : nat) (t : N) : bool :=
  match n with O => true | S m => negb (N.testbit t (N.of_nat m)) && lowz m t end.

Lemma lowz_spec n t : lowz n t = true <-> (forall j, j < N.of_nat n -> N.testbit t j = false).
Proof.
  induction n as [|n IH]; cbn [lowz].
  - split; [intros _ j Hj; lia|reflexivity].
  - rewrite andb_true_iff, negb_true_iff, IH. split.
    + intros [H1 H2] j Hj. destruct (N.eq_dec j (N.of_nat n)) as [->|Hne]; [exact H1|apply H2; lia].
    + intros H. split; [apply H; lia|intros j Hj; apply H; lia].
Qed.

Lemma dotb_lowz n x t : lowz n t = true -> dotb n x t = false.
Proof.
  intros H. rewrite lowz_spec in H. induction n as [|n IH]; cbn [dotb]; [reflexivity|].
  rewrite H by lia. rewrite andb_false_r, IH; [reflexivity|]. intros j Hj. apply H. lia.
Qed.

(* index i with its low n bits replaced by those of x *)
Definition setlow (n : nat) (i x : N) : N :=
  N.lor (N.land x (N.ones (N.of_nat n))) (N.ldiff i (N.ones (N.of_nat n))).

Lemma setlow_bits n i x j :
  N.testbit (setlow n i x) j = if j <? N.of_nat n then N.testbit x j else N.testbit i j.
Proof.
  unfold setlow. rewrite N.lor_spec, N.land_spec, N.ldiff_spec.
  destruct (N.ltb_spec j (N.of_nat n)) as [H|H].
  - rewrite N.ones_spec_low by exact H. cbn. now rewrite andb_true_r, andb_false_r, orb_false_r.
  - rewrite N.ones_spec_high by exact H. cbn. now rewrite andb_false_r, andb_true_r.
Qed.

Lemma setlow_0 i x : setlow 0 i x = i.
Proof. apply N.bits_inj. intros j. rewrite setlow_bits. destruct (N.ltb_spec j (N.of_nat 0)); [lia|reflexivity]. Qed.

Lemma setlow_self n i : setlow n i i = i.
Proof. apply N.bits_inj. intros j. rewrite setlow_bits. now destruct (j <? N.of_nat n). Qed.

Lemma setlow_inr n x : inr n x -> setlow n 0 x = x.
Proof.
  intros H. apply N.bits_inj. intros j. rewrite setlow_bits.
  destruct (N.ltb_spec j (N.of_nat n)) as [Hj|Hj]; [reflexivity|].
  now rewrite (inr_high n x j H Hj), N.bits_0.
Qed.

Lemma setlow_setlow n i x y : setlow n (setlow n i x) y = setlow n i y.
Proof. apply N.bits_inj. intros j. rewrite !setlow_bits. now destruct (j <? N.of_nat n). Qed.

Lemma setlow_ext n i i' x x' :
  (forall j, N.of_nat n <= j -> N.testbit i j = N.testbit i' j) ->
  (forall j, j < N.of_nat n -> N.testbit x j = N.testbit x' j) -> setlow n i x = setlow n i' x'.
Proof.
  intros Hi Hx. apply N.bits_inj. intros j. rewrite !setlow_bits.
  destruct (N.ltb_spec j (N.of_nat n)); [now apply Hx|now apply Hi].
Qed.

(* ------------------------------------------------------------------ *)
(* the Walsh-Hadamard layer                                            *)
(* ------------------------------------------------------------------ *)
Definition WH (n : nat) (psi : N -> Z) : N -> Z :=
  fun i => sumN n (fun x => sgn (dotb n x i) (psi (setlow n i x))).

Lemma WH_ext n psi phi i : (forall j, psi j = phi j) -> WH n psi i = WH n phi i.
Proof. intros H. unfold WH. apply sumN_ext. intros x _. now rewrite H. Qed.

Lemma WH_add n psi phi i : WH n (fun j => (psi j + phi j)%Z) i = (WH n psi i + WH n phi i)%Z.
Proof. unfold WH. rewrite <- sumN_add. apply sumN_ext. intros x _. apply sgn_add. Qed.

Lemma WH_scale n c psi i : WH n (fun j => (c * psi j)%Z) i = (c * WH n psi i)%Z.
Proof. unfold WH. rewrite <- sumN_scale. apply sumN_ext. intros x _. destruct (dotb n x i); cbn [sgn xorb]; lia. Qed.

Lemma WH_opp n psi i : WH n (fun j => (- psi j)%Z) i = (- WH n psi i)%Z.
Proof. unfold WH. rewrite <- sumN_opp. apply sumN_ext. intros x _. destruct (dotb n x i); cbn [sgn xorb]; lia. Qed.

(* the layer read at an index whose low bits are zero is the plain sum *)
Lemma WH_zero n psi i : lowz n i = true -> WH n psi i = sumN n (fun x => psi (setlow n i x)).
Proof. intros H. unfold WH. apply sumN_ext. intros x _. now rewrite dotb_lowz. Qed.

Lemma WH_zero_0 n psi : WH n psi 0 = sumN n psi.
Proof.
  rewrite WH_zero by (apply lowz_spec; intros; apply N.bits_0).
  apply sumN_ext. intros x Hx. now rewrite setlow_inr.
Qed.

(* ---- gate by gate ---- *)
Fixpoint hlayer (n : nat) (psi : N -> Z) : N -> Z :=
  match n with O => psi | S m => refH (N.of_nat m) (hlayer m psi) end.

Lemma refH_ext q psi phi i : (forall j, psi j = phi j) -> refH q psi i = refH q phi i.
Proof. intros H. unfold refH. now rewrite !H. Qed.

Lemma hlayer_ext n : forall psi phi i, (forall j, psi j = phi j) -> hlayer n psi i = hlayer n phi i.
Proof.
  induction n as [|n IH]; intros psi phi i H; cbn [hlayer]; [apply H|].
  apply refH_ext. intros j. now apply IH.
Qed.

Lemma of_nat_S_lt j n : j < N.of_nat (S n) <-> j < N.of_nat n \/ j = N.of_nat n.
Proof. lia. Qed.

Theorem hlayer_WH n : forall psi i, hlayer n psi i = WH n psi i.
Proof.
  induction n as [|n IH]; intros psi i.
  - cbn [hlayer]. unfold WH. cbn [sumN dotb sgn]. now rewrite setlow_0.
  - cbn [hlayer]. unfold refH. rewrite !IH. unfold WH. cbn [sumN]. set (q := N.of_nat n).
    f_equal.
    + apply sumN_ext. intros x Hx.
      assert (Hxb : N.testbit x q = false) by (apply (inr_high n x); [exact Hx|unfold q; lia]).
      cbn [dotb]. fold q. rewrite Hxb, andb_false_l, xorb_false_l.
      f_equal.
      * apply dotb_ext; [reflexivity|]. intros j Hj. rewrite N.clearbit_eqb.
        destruct (N.eqb_spec q j); [unfold q in *; lia|now rewrite andb_true_r].
      * f_equal. apply N.bits_inj. intros j. rewrite !setlow_bits, N.clearbit_eqb. fold q.
        destruct (N.ltb_spec j q) as [H1|H1], (N.ltb_spec j (N.of_nat (S n))) as [H2|H2]; try (unfold q in *; lia); try reflexivity.
        -- assert (j = q) as -> by (unfold q in *; lia). now rewrite Hxb, N.eqb_refl, andb_false_r.
        -- destruct (N.eqb_spec q j); [unfold q in *; lia|now rewrite andb_true_r].
    + assert (E : forall x, inr n x ->
        sgn (dotb (S n) (N.setbit x q) i) (psi (setlow (S n) i (N.setbit x q))) =
        sgn (N.testbit i q) (sgn (dotb n x (N.setbit i q)) (psi (setlow n (N.setbit i q) x)))).
      { intros x Hx. cbn [dotb]. fold q. rewrite testbit_setbit. cbn [andb]. rewrite sgn_xorb. f_equal. f_equal.
        - apply dotb_ext; intros j Hj; rewrite N.setbit_eqb; (destruct (N.eqb_spec q j); [unfold q in *; lia|reflexivity]).
        - f_equal. apply N.bits_inj. intros j. rewrite !setlow_bits, !N.setbit_eqb. fold q.
          destruct (N.ltb_spec j q) as [H1|H1], (N.ltb_spec j (N.of_nat (S n))) as [H2|H2]; try (unfold q in *; lia); try reflexivity.
          + destruct (N.eqb_spec q j); [unfold q in *; lia|reflexivity].
          + assert (j = q) as -> by (unfold q in *; lia). now rewrite N.eqb_refl.
          + destruct (N.eqb_spec q j); [unfold q in *; lia|reflexivity]. }
      rewrite (sumN_ext n _ _ E). destruct (N.testbit i q); cbn [sgn]; [now rewrite sumN_opp|reflexivity].
Qed.

(* ---- characters ---- *)
Lemma char_sum n : forall t, sumN n (fun x => sgn (dotb n x t) 1%Z) = if lowz n t then pow2z n else 0%Z.
Proof.
  induction n as [|n IH]; intros t; [reflexivity|].
  cbn [sumN lowz]. set (q := N.of_nat n).
  rewrite (sumN_ext n _ (fun x => sgn (dotb n x t) 1%Z)).
  - rewrite (sumN_ext n (fun x => sgn (dotb (S n) (N.setbit x q) t) 1%Z) (fun x => (sgn (N.testbit t q) 1 * sgn (dotb n x t) 1)%Z)).
    + rewrite sumN_scale, IH, pow2z_S. fold q. destruct (N.testbit t q), (lowz n t); cbn [sgn negb andb]; lia.
    + intros x Hx. cbn [dotb]. fold q. rewrite testbit_setbit. cbn [andb]. rewrite sgn_xorb, <- sgn_mul. f_equal. f_equal.
      apply dotb_ext; [|reflexivity]. intros j Hj. rewrite N.setbit_eqb.
      destruct (N.eqb_spec q j); [unfold q in *; lia|reflexivity].
  - intros x Hx. cbn [dotb]. fold q.
    assert (Hxb : N.testbit x q = false) by (apply (inr_high n x); [exact Hx|unfold q; lia]).
    now rewrite Hxb, andb_false_l, xorb_false_l.
Qed.

Lemma lowz_lxor_eq n a b : inr n a -> inr n b -> lowz n (N.lxor a b) = true -> a = b.
Proof.
  intros Ha Hb H. rewrite lowz_spec in H. apply N.bits_inj. intros j.
  destruct (N.lt_ge_cases j (N.of_nat n)) as [Hj|Hj].
  - specialize (H j Hj). rewrite N.lxor_spec in H. now apply xorb_eq.
  - now rewrite (inr_high n a j Ha Hj), (inr_high n b j Hb Hj).
Qed.

Lemma lowz_lxor_refl n a : lowz n (N.lxor a a) = true.
Proof. apply lowz_spec. intros j _. now rewrite N.lxor_nilpotent, N.bits_0. Qed.

(* WH n (x |-> (-1)^(s.x)) y = 2^n if y = s, else 0   (s, y < 2^n) *)
Theorem WH_char n s y : inr n s -> inr n y ->
  WH n (fun x => sgn (dotb n s x) 1%Z) y = if N.eqb y s then pow2z n else 0%Z.
Proof.
  intros Hs Hy. unfold WH.
  rewrite (sumN_ext n _ (fun x => sgn (dotb n x (N.lxor y s)) 1%Z)).
  - rewrite char_sum. destruct (N.eqb_spec y s) as [->|Hne].
    + now rewrite lowz_lxor_refl.
    + destruct (lowz n (N.lxor y s)) eqn:E; [|reflexivity]. exfalso. apply Hne. now apply (lowz_lxor_eq n).
  - intros x Hx. rewrite dotb_lxor_r, sgn_xorb. f_equal. f_equal.
    rewrite dotb_comm. apply dotb_ext; [|reflexivity]. intros j Hj. rewrite setlow_bits.
    apply N.ltb_lt in Hj. now rewrite Hj.
Qed.

(* ---- the layer is an involution up to 2^n ---- *)
Ltac bits_eq i :=
  apply N.bits_inj; intros ?j; repeat (rewrite N.setbit_eqb || rewrite N.clearbit_eqb);
  repeat match goal with |- context [N.eqb ?a ?b] => destruct (N.eqb_spec a b); subst end;
  try congruence; cbn [orb andb negb]; rewrite ?andb_true_r, ?andb_false_r, ?orb_false_r, ?orb_true_r; try reflexivity;
  try (repeat match goal with |- context [N.testbit ?a ?b] => destruct (N.testbit a b) end; reflexivity).

Lemma clearbit_clearbit i q : N.clearbit (N.clearbit i q) q = N.clearbit i q.
Proof. bits_eq i. Qed.
Lemma setbit_setbit i q : N.setbit (N.setbit i q) q = N.setbit i q.
Proof. bits_eq i. Qed.
Lemma setbit_of_clearbit i q : N.setbit (N.clearbit i q) q = N.setbit i q.
Proof. bits_eq i. Qed.
Lemma clearbit_of_setbit i q : N.clearbit (N.setbit i q) q = N.clearbit i q.
Proof. bits_eq i. Qed.
Lemma clearbit_comm i a b : N.clearbit (N.clearbit i a) b = N.clearbit (N.clearbit i b) a.
Proof. bits_eq i; now destruct (N.testbit i j). Qed.
Lemma setbit_comm i a b : N.setbit (N.setbit i a) b = N.setbit (N.setbit i b) a.
Proof. bits_eq i; now destruct (N.testbit i j). Qed.
Lemma setbit_clearbit_comm i a b : a <> b -> N.setbit (N.clearbit i a) b = N.clearbit (N.setbit i b) a.
Proof. intros H. bits_eq i; now destruct (N.testbit i j). Qed.

Lemma refH_invol q psi i : refH q (refH q psi) i = (2 * psi i)%Z.
Proof.
  unfold refH. rewrite testbit_clearbit, testbit_setbit.
  rewrite clearbit_clearbit, setbit_of_clearbit, clearbit_of_setbit, setbit_setbit.
  destruct (N.testbit i q) eqn:E.
  - rewrite (setbit_id i q E). lia.
  - rewrite (clearbit_id i q E). lia.
Qed.

Lemma refH_comm a b psi i : a <> b -> refH a (refH b psi) i = refH b (refH a psi) i.
Proof.
  intros H. unfold refH.
  rewrite !N.clearbit_eqb, !N.setbit_eqb.
  destruct (N.eqb_spec a b) as [|_]; [contradiction|]. destruct (N.eqb_spec b a) as [E|_]; [now subst|].
  cbn [negb orb]. rewrite !andb_true_r.
  rewrite (clearbit_comm i a b), (setbit_comm i a b).
  rewrite (setbit_clearbit_comm i a b H), (setbit_clearbit_comm i b a) by congruence.
  destruct (N.testbit i a), (N.testbit i b); lia.
Qed.

Lemma hlayer_refH_comm n q : N.of_nat n <= q -> forall psi i, hlayer n (refH q psi) i = refH q (hlayer n psi) i.
Proof.
  intros Hq. induction n as [|n IH]; intros psi i; cbn [hlayer]; [reflexivity|].
  rewrite (refH_ext (N.of_nat n) _ (refH q (hlayer n psi))) by (intros j; apply IH; lia).
  apply refH_comm. lia.
Qed.

Lemma hlayer_scale n c psi i : hlayer n (fun j => (c * psi j)%Z) i = (c * hlayer n psi i)%Z.
Proof. rewrite !hlayer_WH. apply WH_scale. Qed.

Theorem hlayer_invol n : forall psi i, hlayer n (hlayer n psi) i = (pow2z n * psi i)%Z.
Proof.
  induction n as [|n IH]; intros psi i; cbn [hlayer]; [rewrite pow2z_0; lia|].
  rewrite (refH_ext (N.of_nat n) _ (refH (N.of_nat n) (hlayer n (hlayer n psi)))) by (intros j; apply hlayer_refH_comm; lia).
  rewrite refH_invol, IH, pow2z_S. lia.
Qed.

Theorem WH_invol n psi i : WH n (WH n psi) i = (pow2z n * psi i)%Z.
Proof.
  rewrite <- hlayer_WH. rewrite (hlayer_ext n _ (hlayer n psi)) by (intros j; symmetry; apply hlayer_WH).
  apply hlayer_invol.
Qed.

(* ---- the diffuser as a reflection ---- *)
(* sign flip of the component whose low n bits are all zero
   ( = X^n ; multi-controlled Z ; X^n ) *)
Definition Z0 (n : nat) (phi : N -> Z) : N -> Z := fun i => if lowz n i then (- phi i)%Z else phi i.

Lemma lowz_ext n a b : (forall j, j < N.of_nat n -> N.testbit a j = N.testbit b j) -> lowz n a = lowz n b.
Proof.
  induction n as [|n IH]; intros H; cbn [lowz]; [reflexivity|]. rewrite H by lia. f_equal. apply IH. intros j Hj. apply H. lia.
Qed.

Lemma lowz_inr n x : inr n x -> lowz n x = N.eqb x 0.
Proof.
  intros Hx. destruct (N.eqb_spec x 0) as [->|Hne].
  - apply lowz_spec. intros. apply N.bits_0.
  - destruct (lowz n x) eqn:E; [|reflexivity]. exfalso. apply Hne. apply N.bits_inj_0. intros j.
    rewrite lowz_spec in E. destruct (N.lt_ge_cases j (N.of_nat n)) as [Hj|Hj]; [now apply E|].
    now apply (inr_high n x).
Qed.

(* H^n ; Z0 ; H^n  =  2^n * identity  -  2 * (sum over the low n bits):
   divided by 2^n this is  psi - 2 * mean(psi), the inversion about the mean up to a global sign *)
Theorem diffuser_is_reflection n psi i :
  WH n (Z0 n (WH n psi)) i = (pow2z n * psi i - 2 * sumN n (fun x => psi (setlow n i x)))%Z.
Proof.
  set (phi := WH n psi).
  rewrite (WH_ext n (Z0 n phi) (fun j => (phi j + (-2) * (if lowz n j then phi j else 0))%Z))
    by (intros j; unfold Z0; destruct (lowz n j); lia).
  rewrite WH_add, WH_scale. unfold phi at 1. rewrite WH_invol.
  assert (E : WH n (fun j => if lowz n j then phi j else 0%Z) i = sumN n (fun x => psi (setlow n i x))).
  { unfold WH at 1.
    rewrite (sumN_ext n _ (fun x => if N.eqb x 0 then sgn (dotb n x i) (phi (setlow n i x)) else 0%Z)).
    - rewrite (sumN_single n 0 (fun x => sgn (dotb n x i) (phi (setlow n i x)))) by apply inr_0.
      rewrite dotb_comm, dotb_lowz by (apply lowz_spec; intros; apply N.bits_0). cbn [sgn].
      unfold phi. rewrite WH_zero.
      + apply sumN_ext. intros x _. now rewrite setlow_setlow.
      + apply lowz_spec. intros j Hj. rewrite setlow_bits. apply N.ltb_lt in Hj. rewrite Hj. apply N.bits_0.
    - intros x Hx. rewrite <- (lowz_inr n x Hx).
      rewrite (lowz_ext n (setlow n i x) x).
      + destruct (lowz n x); [reflexivity|apply sgn_0].
      + intros j Hj. rewrite setlow_bits. apply N.ltb_lt in Hj. now rewrite Hj. }
  rewrite E. lia.
Qed.

(* ---- reindexing a sum by xor with a constant below 2^n ---- *)
Lemma inr_lxor n a b : inr n a -> inr n b -> inr n (N.lxor a b).
Proof. rewrite !inr_bits. intros Ha Hb m Hm. now rewrite N.lxor_spec, Ha, Hb. Qed.

Lemma sumN_lxor n : forall s f, inr n s -> sumN n (fun x => f (N.lxor x s)) = sumN n f.
Proof.
  induction n as [|n IH]; intros s f Hs.
  - rewrite (inr_O_eq s Hs). reflexivity.
  - cbn [sumN]. set (q := N.of_nat n). destruct (N.testbit s q) eqn:Hb.
    + (* the two halves are exchanged *)
      set (s' := N.clearbit s q).
      assert (Hs' : inr n s') by now apply inr_clearbit.
      rewrite (sumN_ext n (fun x => f (N.lxor x s)) (fun x => f (N.setbit (N.lxor x s') q))).
      * rewrite (sumN_ext n (fun x => f (N.lxor (N.setbit x q) s)) (fun x => f (N.lxor x s'))).
        -- rewrite (IH s' f Hs'), (IH s' (fun x => f (N.setbit x q)) Hs'). lia.
        -- intros x Hx. f_equal. apply N.bits_inj. intros j. unfold s'.
           rewrite !N.lxor_spec, N.setbit_eqb, N.clearbit_eqb.
           destruct (N.eqb_spec q j) as [<-|_]; cbn [orb negb]; [|now rewrite andb_true_r].
           rewrite Hb. rewrite (inr_high n x q Hx) by (unfold q; lia). reflexivity.
      * intros x Hx. f_equal. apply N.bits_inj. intros j. unfold s'.
        rewrite N.setbit_eqb, !N.lxor_spec, N.clearbit_eqb.
        destruct (N.eqb_spec q j) as [<-|_]; cbn [orb negb]; [|now rewrite andb_true_r].
        rewrite Hb. rewrite (inr_high n x q Hx) by (unfold q; lia). reflexivity.
    + assert (Hs' : inr n s) by now apply inr_top_clear.
      rewrite (IH s f Hs').
      rewrite (sumN_ext n (fun x => f (N.lxor (N.setbit x q) s)) (fun x => f (N.setbit (N.lxor x s) q))).
      * now rewrite (IH s (fun x => f (N.setbit x q)) Hs').
      * intros x Hx. f_equal. apply N.bits_inj. intros j.
        rewrite N.setbit_eqb, !N.lxor_spec, N.setbit_eqb.
        destruct (N.eqb_spec q j) as [<-|_]; cbn [orb]; [now rewrite Hb|reflexivity].
Qed.
