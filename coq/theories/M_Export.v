(* M_Export.v — executable model of the exporters of qlasskit/qcircuit:
   exporter_qasm.py (export_v2 / export_v3, modes circuit / gate, with
   QCircuit.get_key_by_index), and the per-gate dispatch of exporter_qiskit.py,
   exporter_cirq.py, exporter_sympy.py as functions to an abstract op list.
   Also the parser of the emitted QASM dialect.  Definitions only; proofs in
   P_Export.v.

   The qubit map (a Python dict) is an association list in insertion order
   with unique keys.  A printed phase `{p:.2f}` is an opaque string supplied
   with the gate; whether `if p:` holds is computed from the exact value.

   [patched = true] is the code AFTER /verif/proposed_fixes/C13_*.diff:
     QASM: one formal per qubit index, in index order, named by
           get_key_by_index (a fresh q<i> when the qubit has no name), the
           body uses the same names;
     cirq: Barrier / NopGate entries are skipped.
   [patched = false] is today's code: one formal per NAME of the map, in
   insertion order; cirq raises on a barrier. *)
From Coq Require Import List Bool NArith ZArith Arith String Ascii DecimalString.
From QV Require Import Circ.
Import ListNotations.
Local Open Scope string_scope.

Inductive xparam := XNone | XNum (num : Z) (den : N) (printed : string).
Record xgate := mkx { xkind : gk; xqs : list nat; xpar : xparam }.

(* Python `if p:` *)
Definition truthy (p : xparam) : bool :=
  match p with XNone => false | XNum z _ _ => negb (Z.eqb z 0) end.

Fixpoint map_opt {A B} (f : A -> option B) (l : list A) : option (list B) :=
  match l with
  | [] => Some []
  | x :: r => match f x, map_opt f r with
              | Some y, Some r' => Some (y :: r')
              | _, _ => None
              end
  end.

Definition nat_str (n : nat) : string := NilEmpty.string_of_uint (Nat.to_uint n).

(* ---------------- gate names: g.__name__.lower() ---------------- *)
Definition base_lname (b : base) : string :=
  match b with
  | BI => "i" | BX => "x" | BY => "y" | BZ => "z" | BH => "h"
  | BS => "s" | BT => "t" | BP => "p" | BSwap => "swap"
  end.
Fixpoint rep_c (n : nat) (s : string) : string :=
  match n with 0 => s | S k => String "c" (rep_c k s) end.
(* None: a NopGate (skipped by the QASM printer) *)
Definition qasm_name (k : gk) : option string :=
  match k with
  | K1 b => Some (base_lname b)
  | KCX => Some "cx" | KCZ => Some "cz" | KCP => Some "cp" | KCCX => Some "ccx"
  | KMCX n => Some (rep_c n "x")
  | KMCtrl b n => Some (rep_c n (base_lname b))
  | KBarrier | KNop => None
  end.

(* ---------------- QCircuit.get_key_by_index: reversed scan ---------------- *)
Fixpoint find_key (l : list (string * nat)) (i : nat) : option string :=
  match l with
  | [] => None
  | (k, v) :: r => if Nat.eqb v i then Some k else find_key r i
  end.
Definition get_key_by_index (qm : list (string * nat)) (i : nat) : option string :=
  find_key (rev qm) i.

(* ---------------- names of the qubits (patched printer) ----------------
     name = get_key_by_index(i), or "q<i>" prefixed with "_" until it is neither
     a key of the map nor a name already given *)
Fixpoint fresh_name (fuel : nat) (used : list string) (s : string) : option string :=
  match fuel with
  | 0 => None
  | S f => if existsb (String.eqb s) used then fresh_name f used (String "_" s) else Some s
  end.
Definition name_of (qm : list (string * nat)) (acc : list string) (i : nat) : option string :=
  match get_key_by_index qm i with
  | Some k => Some k
  | None => let used := (map fst qm ++ acc)%list in fresh_name (S (List.length used)) used ("q" ++ nat_str i)
  end.
Fixpoint qubit_names_go (qm : list (string * nat)) (idx : list nat) (acc : list string)
  : option (list string) :=
  match idx with
  | [] => Some acc
  | i :: r => match name_of qm acc i with
              | Some k => qubit_names_go qm r (acc ++ [k])%list
              | None => None
              end
  end.
Definition qubit_names (n : nat) (qm : list (string * nat)) : option (list string) :=
  qubit_names_go qm (seq 0 n) [].

(* ---------------- the printer, as lines of space-separated tokens -------- *)
Definition TAB : string := String (ascii_of_nat 9) "".
Definition LF : ascii := ascii_of_nat 10.
Definition SP : ascii := ascii_of_nat 32.

(* " ".join(l) is one empty piece when l is empty *)
Definition spaced (l : list string) : list string := match l with [] => [""] | _ => l end.

Definition head_token (gname : string) (p : xparam) : string :=
  TAB ++ gname ++
  (match p with
   | XNum _ _ pr => if truthy p then "(" ++ pr ++ ")" else ""
   | XNone => ""
   end).

Fixpoint body_lines (nm : nat -> option string) (gl : list xgate) : option (list (list string)) :=
  match gl with
  | [] => Some []
  | g :: r =>
    match qasm_name (xkind g) with
    | None => body_lines nm r
    | Some gn =>
      match map_opt nm (xqs g), body_lines nm r with
      | Some qbs, Some rest => Some ((head_token gn (xpar g) :: spaced qbs) :: rest)
      | _, _ => None
      end
    end
  end.

Fixpoint join (sep : string) (l : list string) : string :=
  match l with
  | [] => ""
  | [x] => x
  | x :: r => x ++ sep ++ join sep r
  end.

Definition gate_block (name : string) (formals : list string) (body : list (list string))
  : list (list string) :=
  ((["gate"; name] ++ spaced formals ++ ["{"]) :: body ++ [["}"]; [""]])%list.

Definition actual (c : nat) : string := "q[" ++ nat_str c ++ "]".
Definition call_line (name : string) (n : nat) : list string :=
  [name; join "," (map actual (seq 0 n)) ++ ";"].

Definition qasm_lines (patched ver3 gate_mode : bool) (name : string) (n : nat)
           (qm : list (string * nat)) (gl : list xgate) : option (list (list string)) :=
  let fb :=
    if patched then
      match qubit_names n qm with
      | Some names => match body_lines (nth_error names) gl with
                      | Some b => Some (names, b)
                      | None => None
                      end
      | None => None
      end
    else
      match body_lines (get_key_by_index qm) gl with
      | Some b => Some (map fst qm, b)
      | None => None
      end in
  match fb with
  | None => None
  | Some (formals, body) =>
    let block := gate_block name formals body in
    Some (if gate_mode then block
          else if ver3 then ([["OPENQASM"; "3.0;"]; [""]] ++ block ++ [call_line name n])%list
          else ([["OPENQASM"; "2.0;"]; [""]; ["include"; """qelib1.inc"";"]; [""];
                 ["qreg"; ("q[" ++ nat_str n ++ "];")%string]] ++ block ++ [call_line name n])%list)
  end.

(* the text: tokens joined by one space, every line ended by a newline *)
Definition render_line (l : list string) : string := join " " l ++ String LF "".
Definition render (ls : list (list string)) : string := concat "" (map render_line ls).

Definition qasm_export (patched ver3 gate_mode : bool) (name : string) (n : nat)
           (qm : list (string * nat)) (gl : list xgate) : option string :=
  match qasm_lines patched ver3 gate_mode name n qm gl with
  | Some ls => Some (render ls)
  | None => None
  end.

(* ---------------- the parser of that dialect ---------------- *)
Fixpoint split (c : ascii) (s : string) : list string :=
  match s with
  | EmptyString => [EmptyString]
  | String a r =>
    if Ascii.eqb a c then EmptyString :: split c r
    else match split c r with
         | h :: t => String a h :: t
         | [] => [String a EmptyString]
         end
  end.

Definition tokenize (s : string) : list (list string) :=
  map (split SP) (removelast (split LF s)).

Definition unspaced (l : list string) : list string :=
  match l with [EmptyString] => [] | _ => l end.

Fixpoint index_of (l : list string) (s : string) : option nat :=
  match l with
  | [] => None
  | x :: r => if String.eqb x s then Some 0
              else match index_of r s with Some i => Some (S i) | None => None end
  end.

Definition LPAR : ascii := "("%char.
Definition RPAR : ascii := ")"%char.

(* "\tname" or "\tname(phase)" *)
Definition parse_head (tok : string) : option (string * option string) :=
  match tok with
  | String a rest =>
    if Ascii.eqb a (ascii_of_nat 9) then
      match split LPAR rest with
      | [gn] => Some (gn, None)
      | [gn; r2] => match split RPAR r2 with
                    | [ph; EmptyString] => Some (gn, Some ph)
                    | _ => None
                    end
      | _ => None
      end
    else None
  | EmptyString => None
  end.

Definition pgate := (string * option string * list nat)%type.

Record parsed := mkp {
  p_name : string;
  p_formals : list string;
  p_gates : list pgate;              (* gate name, printed phase, positions of the operands among the formals *)
  p_call : option (string * list string) }.   (* circuit mode: callee and actual arguments *)

Fixpoint parse_body (formals : list string) (ls : list (list string))
  : option (list pgate * list (list string)) :=
  match ls with
  | [] => None
  | l :: r =>
    match l with
    | ["}"] => Some ([], r)
    | hd :: qbs =>
      match parse_head hd, map_opt (index_of formals) (unspaced qbs), parse_body formals r with
      | Some (gn, ph), Some ix, Some (gs, rest) => Some ((gn, ph, ix) :: gs, rest)
      | _, _, _ => None
      end
    | [] => None
    end
  end.

Definition SEMI : ascii := ";"%char.
Definition COMMA : ascii := ","%char.

Definition parse_call (l : list string) : option (string * list string) :=
  match l with
  | [cname; args] =>
    match split SEMI args with
    | [a; EmptyString] => Some (cname, match a with EmptyString => [] | _ => split COMMA a end)
    | _ => None
    end
  | _ => None
  end.

Definition parse_block (ls : list (list string)) : option parsed :=
  match ls with
  | ("gate" :: name :: rest) :: body =>
    match rev rest with
    | "{" :: rf =>
      let formals := unspaced (rev rf) in
      match parse_body formals body with
      | Some (gs, [[EmptyString]]) => Some (mkp name formals gs None)
      | Some (gs, [[EmptyString]; cl]) =>
        match parse_call cl with
        | Some c => Some (mkp name formals gs (Some c))
        | None => None
        end
      | _ => None
      end
    | _ => None
    end
  | _ => None
  end.

(* the preamble of circuit mode (version, include, qreg) is skipped up to the gate declaration *)
Fixpoint parse_lines (ls : list (list string)) : option parsed :=
  match ls with
  | [] => None
  | l :: r => match l with
              | "gate" :: _ => parse_block ls
              | _ => parse_lines r
              end
  end.

Definition parse_qasm (s : string) : option parsed := parse_lines (tokenize s).

(* what the text must parse to *)
Definition expected_gates (gl : list xgate) : list pgate :=
  flat_map (fun g => match qasm_name (xkind g) with
                     | None => []
                     | Some gn => [(gn, match xpar g with
                                        | XNum _ _ pr => if truthy (xpar g) then Some pr else None
                                        | XNone => None
                                        end, xqs g)]
                     end) gl.

(* ---------------- Qiskit / Cirq / Sympy: per-gate dispatch ---------------- *)
(* an exported operation: a base gate with [ctrls] controls on the listed
   qubits (controls first), with its parameter; or a barrier *)
Inductive xop := XOp (ctrls : nat) (b : base) (qs : list nat) (par : option (Z * N)) | XBar.

Inductive xres (A : Type) := XOk (a : A) | XErr.
Arguments XOk {A} a.
Arguments XErr {A}.

Definition num_of (p : xparam) : option (Z * N) :=
  match p with XNum z d _ => Some (z, d) | XNone => None end.

(* the declared meaning of a gate class: (controls, base gate); None for NopGate classes *)
Definition canon (k : gk) : option (nat * base) :=
  match k with
  | K1 b => Some (0, b)
  | KCX => Some (1, BX) | KCZ => Some (1, BZ) | KCP => Some (1, BP) | KCCX => Some (2, BX)
  | KMCX n => Some (n, BX)
  | KMCtrl b n => Some (n, b)
  | KBarrier | KNop => None
  end.

(* g.__class__.__name__ *)
Definition class_name (k : gk) : string :=
  match k with
  | K1 BI => "I" | K1 BX => "X" | K1 BY => "Y" | K1 BZ => "Z" | K1 BH => "H"
  | K1 BS => "S" | K1 BT => "T" | K1 BP => "P" | K1 BSwap => "Swap"
  | KCX => "CX" | KCZ => "CZ" | KCP => "CP" | KCCX => "CCX"
  | KMCX _ => "MCX" | KMCtrl _ _ => "MCtrl" | KBarrier => "Barrier" | KNop => "NopGate"
  end.

Fixpoint lower (s : string) : string :=
  match s with
  | EmptyString => EmptyString
  | String a r =>
    let n := nat_of_ascii a in
    String (if Nat.leb 65 n && Nat.leb n 90 then ascii_of_nat (n + 32) else a) (lower r)
  end.

Definition has (tbl : list string) (s : string) : bool := existsb (String.eqb s) tbl.

Fixpoint collect {A} (l : list (xres (list A))) : xres (list A) :=
  match l with
  | [] => XOk []
  | XErr :: _ => XErr
  | XOk a :: r => match collect r with XOk b => XOk (a ++ b)%list | XErr => XErr end
  end.

(* exporter_qiskit.py; [attrs] = the lower-case gate names g for which hasattr(QuantumCircuit, g) *)
Definition qiskit_gate (attrs : list string) (gate_mode : bool) (g : xgate) : xres (list xop) :=
  let w := xqs g in
  match xkind g with
  | KMCX _ | KMCtrl BX _ => XOk [XOp (List.length w - 1) BX w None]         (* qc.mcx(w[0:-1], w[-1]) *)
  | KMCtrl BZ _ => XOk [XOp (List.length w - 1) BZ w None]                  (* ZGate().control(len(w[0:-1])) on w *)
  | KBarrier => if gate_mode then XOk [] else XOk [XBar]
  | KNop => XOk []
  | k =>
    if has attrs (lower (class_name k)) then
      match canon k with
      | Some (nc, b) =>
        let needs := match b with BP => true | _ => false end in
        (* getattr(qc, name)(p, *w) if p else getattr(qc, name)( *w): the library rejects a
           missing or a superfluous parameter *)
        if Bool.eqb needs (truthy (xpar g))
        then XOk [XOp nc b w (if needs then num_of (xpar g) else None)]
        else XErr
      | None => XErr
      end
    else XErr                                                          (* "Gate not handled" *)
  end.
Definition export_qiskit attrs gate_mode (gl : list xgate) : xres (list xop) :=
  collect (map (qiskit_gate attrs gate_mode) gl).

(* exporter_cirq.py; [attrs] = the names g for which hasattr(cirq, g) *)
Definition cirq_gate (patched : bool) (attrs : list string) (g : xgate) : xres (list xop) :=
  let w := xqs g in
  match xkind g with
  | KMCX _ | KMCtrl BX _ => XOk [XOp (List.length w - 1) BX w None]
  | KMCtrl BZ _ => XOk [XOp (List.length w - 1) BZ w None]
  | K1 BSwap => XOk [XOp 0 BSwap w None]
  | KCP => match num_of (xpar g) with
           | Some q => XOk [XOp 1 BP w (Some q)]                       (* CZPowGate(exponent=p/pi) *)
           | None => XErr                                              (* None / pi: TypeError *)
           end
  | KBarrier | KNop => if patched then XOk [] else XErr
  | k =>
    let nm := match k with KCX => "CNOT" | KCCX => "CCNOT" | _ => class_name k end in
    if has attrs nm then
      match canon k with
      | Some (nc, b) => XOk [XOp nc b w None]                          (* the parameter is not passed *)
      | None => XErr
      end
    else XErr
  end.
Definition export_cirq patched attrs (gl : list xgate) : xres (list xop) :=
  collect (map (cirq_gate patched attrs) gl).

(* exporter_sympy.py *)
Definition sympy_gate (g : xgate) : xres (list xop) :=
  let w := xqs g in
  match xkind g with
  | K1 BX => XOk [XOp 0 BX (firstn 1 w) None]                          (* X(w[0]) *)
  | K1 BH => XOk [XOp 0 BH (firstn 1 w) None]
  | KCX => XOk [XOp 1 BX (firstn 2 w) None]                            (* CNOT(w[0], w[1]) *)
  | K1 BSwap => XOk [XOp 0 BSwap (firstn 2 w) None]
  | KCCX | KMCX _ =>
    match List.length w - 1 with
    | 0 => XErr                                                        (* CGate((), ...): ValueError in sympy *)
    | nc => XOk [XOp nc BX w None]                                     (* CGate(tuple(w[0:-1]), XGate(w[-1])) *)
    end
  | KBarrier | KNop => XOk []
  | _ => XErr
  end.
Definition export_sympy (gl : list xgate) : xres (list xop) := collect (map sympy_gate gl).

(* the specification the three dispatches are compared with: one op per gate
   that is not a NopGate, with the gate's declared controls / base and its own
   qubit list; barriers kept only when [bars] *)
Definition spec_op (keep_par : bool) (g : xgate) : list xop :=
  match canon (xkind g) with
  | Some (nc, b) => [XOp nc b (xqs g)
                        (match b with BP => if keep_par then num_of (xpar g) else None | _ => None end)]
  | None => []
  end.
Definition spec_ops (bars : bool) (gl : list xgate) : list xop :=
  flat_map (fun g => match xkind g with
                     | KBarrier => if bars then [XBar] else []
                     | _ => spec_op true g
                     end) gl.

Definition base_arity (b : base) : nat := match b with BSwap => 2 | _ => 1 end.
Definition xarity (k : gk) : nat :=
  match canon k with Some (nc, b) => nc + base_arity b | None => 0 end.
Definition xwf (g : xgate) : bool := Nat.eqb (List.length (xqs g)) (xarity (xkind g)).
