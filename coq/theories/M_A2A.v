(* M_A2A.v — executable model of the SOURCE-TO-SOURCE NORMALISER of qlasskit,
   /repo/qlasskit/ast2ast/ : ast2ast.py (the order of the passes),
   constantfolder.py (ConstantFolder), replacemultitargetassign.py
   (ReplaceMultiTargetAssign), astrewriter.py (ASTRewriter, create_if_exp,
   IsNamePresent, NameValReplacer), env.py (Environment), together with a
   big-step REFERENCE EVALUATOR of the source language over Python-like values.

   THE FRAGMENT.  Expressions: Name, Constant (bool / int; float, str, None are
   carried as data but have no value), a Constant whose value is an ast node
   (the rewriter creates those), BoolOp, BinOp, UnaryOp, Compare with ONE
   operator, IfExp, Tuple, List, Subscript (any value and index expression),
   Call of a plain name with positional arguments.  Statements: Assign with one
   target (a name, or a tuple / list of element expressions), AugAssign of a
   name, If / elif / else, For (without else) over any iterator expression,
   Return of a value, Expr.
   LEFT OUT (the harness counts such programs as `unmodelled`, with the reason):
   comparison chains, slices, starred / keyword arguments, calls through an
   attribute, lambda, comprehensions, dict / set, f-strings, walrus, chained
   assignment a = b = e, subscript / attribute targets, AnnAssign, While, Pass,
   bare `return`, nested function definitions, `print` anywhere but as an
   expression statement, `range` anywhere but as a loop iterator or as the only
   argument of len / sum / all / any / min / max.
   ReplaceTypeAnn is not modelled: the argument annotations are taken AFTER it
   (they only feed Environment.types).

   [res]: Ok x | Raise (the Python code raises) | Unmod (this model does not
   describe what the code does there: Python values outside bool / int inside the
   constant folder, a raw Python value left in a node position, in-place mutation
   of a shared node that is visible, fuel exhausted).  Unmod is never a claim.

   The transcription follows what the code DOES (as of /repo e979369, i.e. after the repairs
   cc7fed2 .. e979369), including: a name starting with `_temptup`, `_iftarg` or `_forit`
   anywhere in the original function raises before any pass; the counter of `_iftargN` /
   `_foritN` is incremented AFTER the two branches have been visited and is printed in
   hexadecimal starting at 2; visit_Subscript / the Pow case of visit_BinOp do not visit
   their children; Environment.constants is never invalidated (flow-insensitive), but a
   NAMED tuple under a variable index is read through the name (L[k]), only its length comes
   from the recorded tuple; visit_Assign updates the environment BEFORE visiting the value
   and visits a tuple value twice; L[i][j] follows the length of every row of the annotation;
   NameValReplacer also replaces binding occurrences; a multi-target assignment whose value
   is one of its targets goes through `_temptup`; a loop over a name its body re-assigns
   iterates a `_foritN` copy; the else branch of a loop is appended.

   No proofs here: the model must still evaluate when a proof breaks. *)
From Coq Require Import List Bool NArith ZArith Arith String Ascii HexadecimalString HexadecimalN.
Import ListNotations.
Local Open Scope string_scope.
Local Open Scope list_scope.

(* ------------------------------------------------------------------ *)
(* results                                                             *)
(* ------------------------------------------------------------------ *)
Inductive res (A : Type) := Ok (a : A) | Raise | Unmod.
Arguments Ok {A} a.
Arguments Raise {A}.
Arguments Unmod {A}.

Definition bind {A B} (x : res A) (f : A -> res B) : res B :=
  match x with Ok a => f a | Raise => Raise | Unmod => Unmod end.
Notation "x <- e ;; f" := (bind e (fun x => f)) (at level 61, e at next level, right associativity).
Notation "' p <- e ;; f" := (bind e (fun p => f)) (at level 61, p pattern, e at next level, right associativity).

Section MapM.
  Context {A B : Type} (f : A -> res B).
  Fixpoint mapM (l : list A) : res (list B) :=
    match l with
    | [] => Ok []
    | x :: r => y <- f x ;; ys <- mapM r ;; Ok (y :: ys)
    end.
End MapM.

(* ------------------------------------------------------------------ *)
(* the source language                                                 *)
(* ------------------------------------------------------------------ *)
Inductive cst :=
| CBool (b : bool)
| CInt (z : Z)
| CFloat (m : Z) (k : N)        (* m / 2^k, as float.as_integer_ratio gives it *)
| CStr (s : string)
| CNone.

Inductive boolop := And | Or.
Inductive unop := UAdd | USub | Not | Invert.
Inductive binop := Add | Sub | Mult | Div | FloorDiv | Mod | Pow | LShift | RShift
                 | BitOr | BitXor | BitAnd | MatMult.
Inductive cmpop := Eq | NotEq | Lt | LtE | Gt | GtE | Is | IsNot | In | NotIn.

Inductive exp :=
| EName (x : string)
| EConst (c : cst)
| EConstNode (e : exp)                    (* ast.Constant(value = <an ast node>) *)
| EBoolOp (op : boolop) (l : list exp)
| EBinOp (op : binop) (a b : exp)
| EUnOp (op : unop) (a : exp)
| ECompare (op : cmpop) (a b : exp)
| EIfExp (c t f : exp)
| ETuple (l : list exp)
| EList (l : list exp)
| ESubscript (v s : exp)
| ECall (f : string) (args : list exp).

Inductive target :=
| TName (x : string)
| TTuple (l : list exp).                  (* Tuple / List target: its elements *)

Inductive stmt :=
| SAssign (t : target) (e : exp)
| SAugAssign (x : string) (op : binop) (e : exp)
| SIf (c : exp) (body orelse : list stmt)
| SFor (x : string) (it : exp) (body orelse : list stmt)   (* for ... else: there is no break *)
| SReturn (e : exp)
| SExpr (e : option exp).                 (* None: the Expr node whose value visit_Call removed *)

(* a function: arguments with their annotation (as ASTRewriter sees it), the
   return annotation, the body *)
Record fundef := mkfun { f_args : list (string * option exp); f_ret : option exp; f_body : list stmt }.

(* ------------------------------------------------------------------ *)
(* decidable equality (structural)                                     *)
(* ------------------------------------------------------------------ *)
Definition cst_eqb (a b : cst) : bool :=
  match a, b with
  | CBool x, CBool y => Bool.eqb x y
  | CInt x, CInt y => Z.eqb x y
  | CFloat m k, CFloat m' k' => Z.eqb m m' && N.eqb k k'
  | CStr s, CStr t => String.eqb s t
  | CNone, CNone => true
  | _, _ => false
  end.
Definition boolop_eqb (a b : boolop) := match a, b with And, And | Or, Or => true | _, _ => false end.
Definition unop_eqb (a b : unop) :=
  match a, b with UAdd, UAdd | USub, USub | Not, Not | Invert, Invert => true | _, _ => false end.
Definition binop_eqb (a b : binop) :=
  match a, b with
  | Add, Add | Sub, Sub | Mult, Mult | Div, Div | FloorDiv, FloorDiv | Mod, Mod | Pow, Pow
  | LShift, LShift | RShift, RShift | BitOr, BitOr | BitXor, BitXor | BitAnd, BitAnd
  | MatMult, MatMult => true
  | _, _ => false
  end.
Definition cmpop_eqb (a b : cmpop) :=
  match a, b with
  | Eq, Eq | NotEq, NotEq | Lt, Lt | LtE, LtE | Gt, Gt | GtE, GtE | Is, Is | IsNot, IsNot
  | In, In | NotIn, NotIn => true
  | _, _ => false
  end.

Section ListEqb.
  Context {A : Type} (eqb : A -> A -> bool).
  Fixpoint list_eqb (l m : list A) : bool :=
    match l, m with
    | [], [] => true
    | x :: l', y :: m' => eqb x y && list_eqb l' m'
    | _, _ => false
    end.
End ListEqb.

Fixpoint exp_eqb (a b : exp) {struct a} : bool :=
  match a, b with
  | EName x, EName y => String.eqb x y
  | EConst c, EConst d => cst_eqb c d
  | EConstNode e, EConstNode f => exp_eqb e f
  | EBoolOp o l, EBoolOp p m => boolop_eqb o p && list_eqb exp_eqb l m
  | EBinOp o a1 a2, EBinOp p b1 b2 => binop_eqb o p && exp_eqb a1 b1 && exp_eqb a2 b2
  | EUnOp o a1, EUnOp p b1 => unop_eqb o p && exp_eqb a1 b1
  | ECompare o a1 a2, ECompare p b1 b2 => cmpop_eqb o p && exp_eqb a1 b1 && exp_eqb a2 b2
  | EIfExp a1 a2 a3, EIfExp b1 b2 b3 => exp_eqb a1 b1 && exp_eqb a2 b2 && exp_eqb a3 b3
  | ETuple l, ETuple m => list_eqb exp_eqb l m
  | EList l, EList m => list_eqb exp_eqb l m
  | ESubscript a1 a2, ESubscript b1 b2 => exp_eqb a1 b1 && exp_eqb a2 b2
  | ECall f l, ECall g m => String.eqb f g && list_eqb exp_eqb l m
  | _, _ => false
  end.

Definition target_eqb (a b : target) : bool :=
  match a, b with
  | TName x, TName y => String.eqb x y
  | TTuple l, TTuple m => list_eqb exp_eqb l m
  | _, _ => false
  end.

Definition oexp_eqb (a b : option exp) : bool :=
  match a, b with
  | None, None => true
  | Some x, Some y => exp_eqb x y
  | _, _ => false
  end.

Fixpoint stmt_eqb (a b : stmt) {struct a} : bool :=
  match a, b with
  | SAssign t e, SAssign u f => target_eqb t u && exp_eqb e f
  | SAugAssign x o e, SAugAssign y p f => String.eqb x y && binop_eqb o p && exp_eqb e f
  | SIf c b1 o1, SIf d b2 o2 => exp_eqb c d && list_eqb stmt_eqb b1 b2 && list_eqb stmt_eqb o1 o2
  | SFor x i b1 o1, SFor y j b2 o2 =>
      String.eqb x y && exp_eqb i j && list_eqb stmt_eqb b1 b2 && list_eqb stmt_eqb o1 o2
  | SReturn e, SReturn f => exp_eqb e f
  | SExpr e, SExpr f => oexp_eqb e f
  | _, _ => false
  end.

(* ------------------------------------------------------------------ *)
(* Python values and operators (the meaning CPython gives, on bool /   *)
(* unbounded int / tuple; everything else has no value: None)          *)
(* ------------------------------------------------------------------ *)
Inductive val := VBool (b : bool) | VInt (z : Z) | VTup (l : list val).

Fixpoint val_eqb (a b : val) {struct a} : bool :=
  match a, b with
  | VBool x, VBool y => Bool.eqb x y
  | VInt x, VInt y => Z.eqb x y
  | VTup l, VTup m => list_eqb val_eqb l m
  | _, _ => false
  end.

Definition b2z (b : bool) : Z := if b then 1%Z else 0%Z.

Definition as_int (v : val) : option Z :=
  match v with VBool b => Some (b2z b) | VInt z => Some z | VTup _ => None end.

Definition truthy (v : val) : bool :=
  match v with
  | VBool b => b
  | VInt z => negb (Z.eqb z 0)
  | VTup l => match l with [] => false | _ => true end
  end.

(* Python's == : True == 1, tuples element-wise *)
Fixpoint py_eq (a b : val) {struct a} : bool :=
  match a, b with
  | VTup l, VTup m =>
      (fix go (l m : list val) : bool :=
         match l, m with
         | [], [] => true
         | x :: l', y :: m' => py_eq x y && go l' m'
         | _, _ => false
         end) l m
  | VTup _, _ | _, VTup _ => false
  | VBool x, VBool y => Bool.eqb x y
  | VBool x, VInt y => Z.eqb (b2z x) y
  | VInt x, VBool y => Z.eqb x (b2z y)
  | VInt x, VInt y => Z.eqb x y
  end.

Definition val_of_cst (c : cst) : option val :=
  match c with CBool b => Some (VBool b) | CInt z => Some (VInt z) | _ => None end.

Definition unop_val (op : unop) (v : val) : option val :=
  match op with
  | Not => Some (VBool (negb (truthy v)))
  | USub => option_map (fun z => VInt (- z)%Z) (as_int v)
  | UAdd => option_map VInt (as_int v)
  | Invert => option_map (fun z => VInt (- z - 1)%Z) (as_int v)
  end.

(* int (and bool) arithmetic; tuple + / * and float results have no value here *)
Definition binop_val (op : binop) (a b : val) : option val :=
  match a, b, op with
  | VBool x, VBool y, BitAnd => Some (VBool (x && y))
  | VBool x, VBool y, BitOr => Some (VBool (x || y))
  | VBool x, VBool y, BitXor => Some (VBool (xorb x y))
  | _, _, _ =>
      match as_int a, as_int b with
      | Some x, Some y =>
          match op with
          | Add => Some (VInt (x + y))
          | Sub => Some (VInt (x - y))
          | Mult => Some (VInt (x * y))
          | FloorDiv => if Z.eqb y 0 then None else Some (VInt (x / y))
          | Mod => if Z.eqb y 0 then None else Some (VInt (x mod y))
          | Pow => if Z.ltb y 0 then None else Some (VInt (x ^ y))
          | LShift => if Z.ltb y 0 then None else Some (VInt (Z.shiftl x y))
          | RShift => if Z.ltb y 0 then None else Some (VInt (Z.shiftr x y))
          | BitOr => Some (VInt (Z.lor x y))
          | BitXor => Some (VInt (Z.lxor x y))
          | BitAnd => Some (VInt (Z.land x y))
          | Div | MatMult => None
          end%Z
      | _, _ => None
      end
  end.

(* ordering only between ints (bools); Is / In have no value here *)
Definition cmp_val (op : cmpop) (a b : val) : option val :=
  match op with
  | Eq => Some (VBool (py_eq a b))
  | NotEq => Some (VBool (negb (py_eq a b)))
  | Lt | LtE | Gt | GtE =>
      match as_int a, as_int b with
      | Some x, Some y =>
          Some (VBool (match op with
                       | Lt => Z.ltb x y | LtE => Z.leb x y | Gt => Z.ltb y x | _ => Z.leb y x
                       end))
      | _, _ => None
      end
  | _ => None
  end.

(* t[i] with Python's negative indices *)
Definition index_list {A} (l : list A) (z : Z) : option A :=
  let n := Z.of_nat (List.length l) in
  if (0 <=? z)%Z && (z <? n)%Z then nth_error l (Z.to_nat z)
  else if (- n <=? z)%Z && (z <? 0)%Z then nth_error l (Z.to_nat (n + z))
  else None.

Definition subscript_val (v i : val) : option val :=
  match v, as_int i with
  | VTup l, Some z => index_list l z
  | _, _ => None
  end.

Fixpoint all_some {A} (l : list (option A)) : option (list A) :=
  match l with
  | [] => Some []
  | Some x :: r => option_map (cons x) (all_some r)
  | None :: _ => None
  end.

(* min / max keep the FIRST extreme element *)
Fixpoint extreme (is_max : bool) (cur : val) (zc : Z) (l : list val) : option val :=
  match l with
  | [] => Some cur
  | x :: r =>
      match as_int x with
      | Some zx => if (if is_max then Z.ltb zc zx else Z.ltb zx zc) then extreme is_max x zx r
                   else extreme is_max cur zc r
      | None => None
      end
  end.
Definition extreme_of (is_max : bool) (l : list val) : option val :=
  match l with
  | [] => None
  | x :: r => match as_int x with Some zx => extreme is_max x zx r | None => None end
  end.

Definition range_list (a b s : Z) : list Z :=
  if (0 <? s)%Z then
    map (fun i => (a + Z.of_nat i * s)%Z) (seq 0 (Z.to_nat ((b - a + s - 1) / s)))
  else if (s <? 0)%Z then
    map (fun i => (a + Z.of_nat i * s)%Z) (seq 0 (Z.to_nat ((a - b - s - 1) / (- s))))
  else [].
(* range(...) on integer arguments; step 0 raises *)
Definition range_of (args : list Z) : option (list Z) :=
  match args with
  | [b] => Some (range_list 0 b 1)
  | [a; b] => Some (range_list a b 1)
  | [a; b; s] => if Z.eqb s 0 then None else Some (range_list a b s)
  | _ => None
  end.

Definition is_builtin (f : string) : bool :=
  existsb (String.eqb f) ["len"; "sum"; "all"; "any"; "min"; "max"; "abs"; "int"; "print"; "range"; "ord"; "chr"].

Definition builtin_val (f : string) (args : list val) : option val :=
  if String.eqb f "len" then match args with [VTup l] => Some (VInt (Z.of_nat (List.length l))) | _ => None end
  else if String.eqb f "sum" then
    match args with
    | [VTup l] => option_map (fun zs => VInt (fold_left Z.add zs 0%Z)) (all_some (map as_int l))
    | _ => None
    end
  else if String.eqb f "all" then match args with [VTup l] => Some (VBool (forallb truthy l)) | _ => None end
  else if String.eqb f "any" then match args with [VTup l] => Some (VBool (existsb truthy l)) | _ => None end
  else if String.eqb f "min" then
    match args with [VTup l] => extreme_of false l | [_] => None | _ => extreme_of false args end
  else if String.eqb f "max" then
    match args with [VTup l] => extreme_of true l | [_] => None | _ => extreme_of true args end
  else if String.eqb f "abs" then match args with [v] => option_map (fun z => VInt (Z.abs z)) (as_int v) | _ => None end
  else if String.eqb f "int" then match args with [v] => option_map VInt (as_int v) | _ => None end
  else None.   (* print: only as a statement; range: only as an iterator; ord / chr: strings *)

(* ------------------------------------------------------------------ *)
(* the reference evaluator                                             *)
(* ------------------------------------------------------------------ *)
Definition env := string -> option val.
Definition upd (rho : env) (x : string) (v : val) : env :=
  fun y => if String.eqb x y then Some v else rho y.
Definition empty_env : env := fun _ => None.

Section BoolOpWith.
  Variable ev : exp -> option val.
  (* a and b and c: the first falsy operand, else the last; or: the first truthy *)
  Fixpoint boolop_with (op : boolop) (l : list exp) : option val :=
    match l with
    | [] => None
    | [x] => ev x
    | x :: r =>
        match ev x with
        | Some v => if (match op with And => negb (truthy v) | Or => truthy v end) then Some v
                    else boolop_with op r
        | None => None
        end
    end.
End BoolOpWith.

(* the arguments of a call of the plain name [f] *)
Definition is_call (f : string) (e : exp) : option (list exp) :=
  match e with
  | ECall g args => if String.eqb g f then Some args else None
  | _ => None
  end.

Section Eval.
  (* calls of names that are not builtins (casts, user functions): any fixed interpretation *)
  Variable ext : string -> list val -> option val.

  Fixpoint eval (rho : env) (e : exp) {struct e} : option val :=
    match e with
    | EName x => rho x
    | EConst c => val_of_cst c
    | EConstNode e' => eval rho e'          (* a Constant holding a node: that node's value *)
    | EBoolOp op l => boolop_with (eval rho) op l
    | EBinOp op a b =>
        match eval rho a, eval rho b with Some x, Some y => binop_val op x y | _, _ => None end
    | EUnOp op a => match eval rho a with Some x => unop_val op x | None => None end
    | ECompare op a b =>
        match eval rho a, eval rho b with Some x, Some y => cmp_val op x y | _, _ => None end
    | EIfExp c t f =>
        match eval rho c with Some v => if truthy v then eval rho t else eval rho f | None => None end
    | ETuple l | EList l => option_map VTup (all_some (map (eval rho) l))
    | ESubscript v s =>
        match eval rho v, eval rho s with Some x, Some i => subscript_val x i | _, _ => None end
    | ECall f args =>
        match all_some (map (eval rho) args) with
        | Some vs => if is_builtin f then builtin_val f vs else ext f vs
        | None => None
        end
    end.

  (* the values a for loop iterates over *)
  Definition iter_vals (rho : env) (it : exp) : option (list val) :=
    match is_call "range" it with
    | Some args =>
        match all_some (map (eval rho) args) with
        | Some vs => match all_some (map as_int vs) with
                     | Some zs => option_map (map VInt) (range_of zs)
                     | None => None
                     end
        | None => None
        end
    | None => match eval rho it with Some (VTup l) => Some l | _ => None end
    end.

  (* outcome of a statement: the new environment and the returned value, if any *)
  Definition outcome : Type := option (env * option val).

  Section ExecList.
    Variable ex : stmt -> env -> outcome.
    Fixpoint exec_list_with (l : list stmt) (rho : env) : outcome :=
      match l with
      | [] => Some (rho, None)
      | s :: r =>
          match ex s rho with
          | Some (rho', None) => exec_list_with r rho'
          | o => o
          end
      end.
  End ExecList.

  Section Loop.
    Variable body : env -> outcome.
    Fixpoint loop_with (x : string) (vs : list val) (rho : env) : outcome :=
      match vs with
      | [] => Some (rho, None)
      | v :: r =>
          match body (upd rho x v) with
          | Some (rho', None) => loop_with x r rho'
          | o => o
          end
      end.
  End Loop.

  Fixpoint assign_names (l : list exp) (vs : list val) (rho : env) : option env :=
    match l, vs with
    | [], [] => Some rho
    | EName x :: l', v :: vs' => assign_names l' vs' (upd rho x v)
    | _, _ => None
    end.

  Fixpoint exec (s : stmt) (rho : env) {struct s} : outcome :=
    match s with
    | SAssign (TName x) e =>
        match eval rho e with Some v => Some (upd rho x v, None) | None => None end
    | SAssign (TTuple l) e =>
        match eval rho e with
        | Some (VTup vs) => option_map (fun r => (r, None)) (assign_names l vs rho)
        | _ => None
        end
    | SAugAssign x op e =>
        match rho x, eval rho e with
        | Some a, Some b => option_map (fun v => (upd rho x v, None)) (binop_val op a b)
        | _, _ => None
        end
    | SIf c b o =>
        match eval rho c with
        | Some v => if truthy v then exec_list_with exec b rho else exec_list_with exec o rho
        | None => None
        end
    | SFor x it b o =>
        match iter_vals rho it with
        | Some vs =>
            match loop_with (exec_list_with exec b) x vs rho with
            | Some (rho', None) => exec_list_with exec o rho'
            | r => r
            end
        | None => None
        end
    | SReturn e => match eval rho e with Some v => Some (rho, Some v) | None => None end
    | SExpr None => Some (rho, None)
    | SExpr (Some e) =>
        match is_call "print" e with
        | Some args => match all_some (map (eval rho) args) with Some _ => Some (rho, None) | None => None end
        | None => match eval rho e with Some _ => Some (rho, None) | None => None end
        end
    end.

  Definition exec_list := exec_list_with exec.

  (* the value a function body returns (falling off the end returns None: no value) *)
  Definition run (body : list stmt) (rho : env) : option val :=
    match exec_list body rho with Some (_, Some v) => Some v | _ => None end.
End Eval.

Fixpoint env_of (l : list (string * val)) : env :=
  match l with
  | [] => empty_env
  | (x, v) :: r => upd (env_of r) x v
  end.

(* ================================================================== *)
(* constantfolder.py                                                   *)
(* ================================================================== *)
Definition cst_of_val (v : val) : res cst :=
  match v with VBool b => Ok (CBool b) | VInt z => Ok (CInt z) | VTup _ => Unmod end.

Definition is_constant (e : exp) : bool :=
  match e with EConst _ | EConstNode _ => true | _ => false end.

(* bool(c) of a constant's value *)
Definition cst_truthy (e : exp) : res bool :=
  match e with
  | EConst (CBool b) => Ok b
  | EConst (CInt z) => Ok (negb (Z.eqb z 0))
  | EConstNode _ => Ok true                     (* an ast node object is truthy *)
  | _ => Unmod                                  (* float / str / None *)
  end.

(* visit_IfExp: a Constant holding a tuple node is as true as the tuple is non empty *)
Definition ifexp_truthy (e : exp) : res bool :=
  match e with
  | EConstNode (ETuple l) => Ok (match l with [] => false | _ => true end)
  | _ => cst_truthy e
  end.

Definition fold_unop (op : unop) (c : cst) : res exp :=
  match val_of_cst c with
  | Some v => match unop_val op v with
              | Some r => k <- cst_of_val r ;; Ok (EConst k)
              | None => Unmod
              end
  | None => Unmod
  end.

Definition fold_binop (op : binop) (c d : cst) : res exp :=
  match val_of_cst c, val_of_cst d with
  | Some x, Some y =>
      match binop_val op x y with
      | Some r => k <- cst_of_val r ;; Ok (EConst k)
      | None =>
          match op with
          | FloorDiv | Mod | LShift | RShift | MatMult => Raise      (* ZeroDivisionError / ValueError / TypeError *)
          | Div => match as_int y with Some 0%Z => Raise | _ => Unmod end   (* a float *)
          | _ => Unmod                                               (* negative power: a float *)
          end
      end
  | _, _ => Unmod
  end.

Definition fold_cmp (op : cmpop) (c d : cst) : res exp :=
  match val_of_cst c, val_of_cst d with
  | Some x, Some y =>
      match cmp_val op x y with
      | Some r => k <- cst_of_val r ;; Ok (EConst k)
      | None => Unmod                                               (* is / in *)
      end
  | _, _ => Unmod
  end.

(* the Python argument arg_tr hands to the builtin: a scalar constant or a list of constants *)
Inductive carg := CaScalar (c : cst) | CaList (l : list cst).

Definition cst_of_exp (e : exp) : option cst := match e with EConst c => Some c | _ => None end.

Definition arg_tr (e : exp) : option (res carg) :=      (* None: not a Constant after arg_tr *)
  match e with
  | EConst c => Some (Ok (CaScalar c))
  | EConstNode _ => Some Unmod
  | ETuple l | EList l =>
      if forallb is_constant l then
        match all_some (map cst_of_exp l) with
        | Some cs => Some (Ok (CaList cs))
        | None => Some Unmod
        end
      else None
  | _ => None
  end.

Definition vals_of_csts (l : list cst) : option (list val) := all_some (map val_of_cst l).

Definition builtin_funcs : list string := ["abs"; "len"; "min"; "max"; "sum"; "any"; "all"; "chr"; "ord"].

(* func( *args ) on constant arguments *)
Definition fold_call (f : string) (args : list carg) : res exp :=
  let scal v := k <- cst_of_val v ;; Ok (EConst k) in
  let of_opt (o : option val) := match o with Some v => scal v | None => Raise end in
  if String.eqb f "chr" || String.eqb f "ord" then Unmod else
  match args with
  | [CaList cs] =>
      match vals_of_csts cs with
      | None => Unmod
      | Some vs =>
          if String.eqb f "abs" then Raise                            (* abs of a list: TypeError *)
          else of_opt (builtin_val f [VTup vs])                       (* min / max of []: ValueError *)
      end
  | [CaScalar c] =>
      match val_of_cst c with
      | None => Unmod
      | Some v => if String.eqb f "abs" then of_opt (builtin_val f [v]) else Raise   (* len(3), min(3): TypeError *)
      end
  | _ =>
      if String.eqb f "min" || String.eqb f "max" then
        match all_some (map (fun a => match a with CaScalar c => val_of_cst c | CaList _ => None end) args) with
        | Some vs => match vs with [] => Raise | _ => of_opt (builtin_val f vs) end
        | None => Unmod
        end
      else match args with [] => Raise | _ => Unmod end                (* sum(l, start), wrong arities *)
  end.

Definition as_list (e : exp) : option (list exp) := match e with EList l => Some l | _ => None end.

(* node.value.elts[node.slice.value] on a list of constants; IndexError: the node is kept *)
Definition fold_index (elts : list exp) (s' dflt : exp) : res exp :=
  match cst_of_exp s' with
  | Some c =>
      match val_of_cst c with
      | Some i => match as_int i with
                  | Some z => match index_list elts z with
                              | Some x => Ok x
                              | None => Ok dflt
                              end
                  | None => Unmod
                  end
      | None => Unmod                                              (* list[str]: TypeError *)
      end
  | None => Unmod
  end.

Fixpoint fold_exp (e : exp) {struct e} : res exp :=
  match e with
  | EName _ | EConst _ => Ok e
  | EConstNode e' => r <- fold_exp e' ;; Ok (EConstNode r)
  | EBoolOp op l => l' <- mapM fold_exp l ;; Ok (EBoolOp op l')
  | EUnOp op a =>
      a' <- fold_exp a ;;
      match cst_of_exp a' with
      | Some c => fold_unop op c
      | None => if is_constant a' then Unmod else Ok (EUnOp op a')
      end
  | EBinOp op a b =>
      a' <- fold_exp a ;; b' <- fold_exp b ;;
      match cst_of_exp a', cst_of_exp b' with
      | Some c, Some d => fold_binop op c d
      | _, _ => if is_constant a' && is_constant b' then Unmod else Ok (EBinOp op a' b')
      end
  | ECompare op a b =>
      a' <- fold_exp a ;; b' <- fold_exp b ;;
      match cst_of_exp a', cst_of_exp b' with
      | Some c, Some d => fold_cmp op c d
      | _, _ => if is_constant a' && is_constant b' then Unmod else Ok (ECompare op a' b')
      end
  | EIfExp c t f =>
      c' <- fold_exp c ;; t' <- fold_exp t ;; f' <- fold_exp f ;;
      if is_constant c' then (b <- ifexp_truthy c' ;; Ok (if b then t' else f'))
      else Ok (EIfExp c' t' f')
  | ETuple l => l' <- mapM fold_exp l ;; Ok (ETuple l')
  | EList l => l' <- mapM fold_exp l ;; Ok (EList l')
  | ESubscript v s =>
      v' <- fold_exp v ;; s' <- fold_exp s ;;
      match as_list v' with
      | Some elts =>
          if is_constant s' && forallb is_constant elts then fold_index elts s' (ESubscript v' s')
          else Ok (ESubscript v' s')
      | None => Ok (ESubscript v' s')
      end
  | ECall f args =>
      args' <- mapM fold_exp args ;;
      if existsb (String.eqb f) builtin_funcs then
        match all_some (map arg_tr args') with
        | Some rs => cas <- mapM (fun r => r) rs ;; fold_call f cas
        | None => Ok (ECall f args')
        end
      else Ok (ECall f args')
  end.

Section FlatMapM.
  Context {A B : Type} (f : A -> res (list B)).
  Fixpoint flat_mapM (l : list A) : res (list B) :=
    match l with
    | [] => Ok []
    | x :: r => y <- f x ;; ys <- flat_mapM r ;; Ok (y ++ ys)
    end.
End FlatMapM.

Definition fold_target (t : target) : res target :=
  match t with
  | TName _ => Ok t
  | TTuple l => l' <- mapM fold_exp l ;; Ok (TTuple l')
  end.

Fixpoint fold_stmt (s : stmt) {struct s} : res (list stmt) :=
  match s with
  | SAssign t e => t' <- fold_target t ;; e' <- fold_exp e ;; Ok [SAssign t' e']
  | SAugAssign x op e => e' <- fold_exp e ;; Ok [SAugAssign x op e']
  | SIf c b o =>
      c' <- fold_exp c ;; b' <- flat_mapM fold_stmt b ;; o' <- flat_mapM fold_stmt o ;;
      if is_constant c' then (t <- cst_truthy c' ;; Ok (if t then b' else o'))
      else Ok [SIf c' b' o']
  | SFor x it b o =>
      it' <- fold_exp it ;; b' <- flat_mapM fold_stmt b ;; o' <- flat_mapM fold_stmt o ;; Ok [SFor x it' b' o']
  | SReturn e => e' <- fold_exp e ;; Ok [SReturn e']
  | SExpr None => Ok [s]
  | SExpr (Some e) => e' <- fold_exp e ;; Ok [SExpr (Some e')]
  end.

Definition fold_list (l : list stmt) : res (list stmt) := flat_mapM fold_stmt l.

(* ================================================================== *)
(* replacemultitargetassign.py                                         *)
(* ================================================================== *)
Definition name_of (e : exp) : res string :=
  match e with EName x => Ok x | _ => Raise end.          (* .id : AttributeError *)

Definition temptup : string := "_temptup".

Fixpoint singles (v : exp) (names : list string) (i : Z) : list stmt :=
  match names with
  | [] => []
  | x :: r => SAssign (TName x) (ESubscript v (EConst (CInt i))) :: singles v r (i + 1)%Z
  end.

Fixpoint multi_stmt (s : stmt) {struct s} : res (list stmt) :=
  match s with
  | SAssign (TTuple elts) e =>
      names <- mapM name_of elts ;;
      let general := Ok (SAssign (TName temptup) e :: singles (EName temptup) names 0%Z) in
      match e with
      | EName t =>
          (* a value that is also one of the targets needs the temporary: t, a = t *)
          if existsb (String.eqb t) names then general else Ok (singles (EName t) names 0%Z)
      | _ => general
      end
  | SIf c b o => b' <- flat_mapM multi_stmt b ;; o' <- flat_mapM multi_stmt o ;; Ok [SIf c b' o']
  | SFor x it b o => b' <- flat_mapM multi_stmt b ;; o' <- flat_mapM multi_stmt o ;; Ok [SFor x it b' o']
  | _ => Ok [s]
  end.

Definition multi_list (l : list stmt) : res (list stmt) := flat_mapM multi_stmt l.

(* ================================================================== *)
(* env.py + astrewriter.py                                             *)
(* ================================================================== *)
(* what Environment.types / .constants hold: an ast node, or a raw Python value
   (a constant's value, the string "Unknown", None) *)
Inductive tyv := TyNode (e : exp) | TyRaw.
Inductive cv := CvNode (e : exp) | CvRaw (c : cst).

Record rstate := mkst { tys : list (string * tyv); cns : list (string * cv); uq : N }.

Fixpoint assoc {A} (l : list (string * A)) (x : string) : option A :=
  match l with
  | [] => None
  | (y, a) :: r => if String.eqb y x then Some a else assoc r x
  end.
Definition has_key {A} (l : list (string * A)) (x : string) : bool :=
  match assoc l x with Some _ => true | None => false end.

Definition in_env (st : rstate) (x : string) : bool := has_key (tys st) x || has_key (cns st) x.
Definition set_type (st : rstate) (x : string) (t : tyv) : rstate :=
  mkst ((x, t) :: tys st) (cns st) (uq st).
(* set_constant(name, value): a Constant is unwrapped once *)
Definition set_constant (st : rstate) (x : string) (value : exp) : rstate :=
  let '(c, t) := match value with
                 | EConst k => (CvRaw k, TyRaw)
                 | EConstNode e => (CvNode e, TyNode e)
                 | e => (CvNode e, TyNode e)
                 end in
  mkst (if has_key (tys st) x then tys st else (x, t) :: tys st) ((x, c) :: cns st) (uq st).

(* hexadecimal, lower case, as f"{n:x}" (the standard library's printer) *)
Definition hex_of_N (n : N) : string := NilEmpty.string_of_uint (N.to_hex_uint n).

Definition dunder (x : string) : bool := prefix "__" x.
Definition drop2 (x : string) : string := substring 2 (String.length x - 2) x.
Definition iftarg_prefix : string := "_iftarg".
Definition is_iftarg (x : string) : bool := prefix iftarg_prefix x.

(* IsNamePresent *)
Fixpoint name_in (x : string) (e : exp) {struct e} : bool :=
  match e with
  | EName y => String.eqb y x
  | EConst _ => false
  | EConstNode e' => name_in x e'
  | EBoolOp _ l | ETuple l | EList l => existsb (name_in x) l
  | EBinOp _ a b | ECompare _ a b | ESubscript a b => name_in x a || name_in x b
  | EUnOp _ a => name_in x a
  | EIfExp c t f => name_in x c || name_in x t || name_in x f
  | ECall f args => String.eqb f x || existsb (name_in x) args
  end.

(* NameValReplacer on an expression; the callee's name of a Call is a Name node too *)
Fixpoint subst_exp (x : string) (v : exp) (e : exp) {struct e} : res exp :=
  match e with
  | EName y => Ok (if String.eqb y x then v else e)
  | EConst _ => Ok e
  | EConstNode e' => r <- subst_exp x v e' ;; Ok (EConstNode r)
  | EBoolOp op l => l' <- mapM (subst_exp x v) l ;; Ok (EBoolOp op l')
  | EBinOp op a b => a' <- subst_exp x v a ;; b' <- subst_exp x v b ;; Ok (EBinOp op a' b')
  | EUnOp op a => a' <- subst_exp x v a ;; Ok (EUnOp op a')
  | ECompare op a b => a' <- subst_exp x v a ;; b' <- subst_exp x v b ;; Ok (ECompare op a' b')
  | EIfExp c t f =>
      c' <- subst_exp x v c ;; t' <- subst_exp x v t ;; f' <- subst_exp x v f ;; Ok (EIfExp c' t' f')
  | ETuple l => l' <- mapM (subst_exp x v) l ;; Ok (ETuple l')
  | EList l => l' <- mapM (subst_exp x v) l ;; Ok (EList l')
  | ESubscript a b => a' <- subst_exp x v a ;; b' <- subst_exp x v b ;; Ok (ESubscript a' b')
  | ECall f args =>
      if String.eqb f x then Unmod else (args' <- mapM (subst_exp x v) args ;; Ok (ECall f args'))
  end.

(* NameValReplacer on a statement.  A binding occurrence of the loop variable is
   replaced as well; the visit that follows then fails on `.id` (Raise).  Inside a
   nested loop that visit may never happen: Unmod. *)
Fixpoint subst_stmt (inner : bool) (x : string) (v : exp) (s : stmt) {struct s} : res stmt :=
  let hit := if inner then @Unmod stmt else @Raise stmt in
  match s with
  | SAssign (TName y) e =>
      if String.eqb y x then hit else (e' <- subst_exp x v e ;; Ok (SAssign (TName y) e'))
  | SAssign (TTuple l) e =>
      l' <- mapM (subst_exp x v) l ;; e' <- subst_exp x v e ;; Ok (SAssign (TTuple l') e')
  | SAugAssign y op e =>
      if String.eqb y x then hit else (e' <- subst_exp x v e ;; Ok (SAugAssign y op e'))
  | SIf c b o =>
      c' <- subst_exp x v c ;; b' <- mapM (subst_stmt inner x v) b ;; o' <- mapM (subst_stmt inner x v) o ;;
      Ok (SIf c' b' o')
  | SFor y it b o =>
      if String.eqb y x then hit
      else (it' <- subst_exp x v it ;; b' <- mapM (subst_stmt true x v) b ;;
            o' <- mapM (subst_stmt inner x v) o ;; Ok (SFor y it' b' o'))
  | SReturn e => e' <- subst_exp x v e ;; Ok (SReturn e')
  | SExpr None => Ok s
  | SExpr (Some e) => e' <- subst_exp x v e ;; Ok (SExpr (Some e'))
  end.

(* create_if_exp(nname, iname, max_i): L[0] if i == 0 else L[1] if i == 1 ... else L[max_i] *)
Definition access1 (nname : string) (i : nat) : exp :=
  ESubscript (EName nname) (EConst (CInt (Z.of_nat i))).
Definition access2 (nname : string) (i j : nat) : exp :=
  ESubscript (access1 nname i) (EConst (CInt (Z.of_nat j))).
Definition eq_const (iname : string) (i : nat) : exp :=
  ECompare Eq (EName iname) (EConst (CInt (Z.of_nat i))).

Fixpoint if_exp1 (nname iname : string) (i : nat) (todo : nat) : exp :=
  match todo with
  | O => access1 nname i
  | S t => EIfExp (eq_const iname i) (access1 nname i) (if_exp1 nname iname (S i) t)
  end.
(* the 2-d version walks (i, j) in row-major order; every row has its own last column
   (an empty row still contributes its column 0; an empty LAST row: IndexError) *)
Definition entries2 (rows : list nat) : list (nat * nat) :=
  List.concat (map (fun p => map (fun j => (fst p, j)) (seq 0 (Nat.max 1 (snd p))))
                   (combine (seq 0 (List.length rows)) rows)).
Fixpoint chain2 (nname iname jname : string) (l : list (nat * nat)) : res exp :=
  match l with
  | [] => Raise
  | [(i, j)] => Ok (access2 nname i j)
  | (i, j) :: r =>
      y <- chain2 nname iname jname r ;;
      Ok (EIfExp (EBoolOp And [eq_const iname i; eq_const jname j]) (access2 nname i j) y)
  end.
Definition if_exp_rows (nname iname jname : string) (rows : list nat) : res exp :=
  match rev rows with
  | [] | O :: _ => Raise                                     (* max_j[i]: IndexError *)
  | _ => chain2 nname iname jname (entries2 rows)
  end.

(* len(gtype.elts) or len(gtype.slice.elts) *)
Definition tuple_len_of_type (t : option tyv) : res nat :=
  match t with
  | Some (TyNode (ETuple l)) => Ok (List.length l)
  | Some (TyNode (ESubscript _ (ETuple l))) => Ok (List.length l)
  | Some (TyNode (ESubscript _ (EList l))) => Unmod
  | _ => Raise                                           (* AttributeError *)
  end.

(* _row_elts(row, default): the element types of a row of a matrix annotation *)
Definition row_elts (row : exp) (default : list exp) : list exp :=
  match row with
  | ETuple l => l
  | ESubscript _ (ETuple l) => l
  | _ => default
  end.

Definition rw_subscript (st : rstate) (v s : exp) : res exp :=
  let keep := Ok (ESubscript v s) in
  (* "Unroll L[a] ... when L is constant": the if-chain over the elements of a tuple node *)
  let unroll_const :=
      let tup := match v with
                 | EName n => if String.eqb n "Tuple" then None
                              else Some (match assoc (cns st) n with
                                         | Some (CvNode e) => Some e
                                         | _ => None                       (* raw value / missing *)
                                         end)
                 | _ => Some (Some v)
                 end in
      match tup with
      | None => keep
      | Some None => Raise
      | Some (Some t) =>
          let t' := match t with EConstNode e => e | e => e end in
          match t' with
          | ETuple elts0 =>
              (* the elements of a NAMED tuple are read from the name *)
              let elts := match v with
                          | EName n => map (access1 n) (seq 0 (List.length elts0))
                          | _ => elts0
                          end in
              match elts with
              | e0 :: rest =>
                  Ok (snd (fold_left (fun (acc : Z * exp) x =>
                                        (fst acc + 1, EIfExp (ECompare Eq s (EConst (CInt (fst acc)))) x (snd acc))%Z)
                                     rest (1%Z, e0)))
              | [] => Raise                                  (* elts[0]: IndexError *)
              end
          | _ => Raise
          end
      end in
  match s with
  | EName i =>
      if has_key (cns st) i then Unmod                       (* node.slice = <raw Python value> *)
      else match v with
           | EName nname =>
               n <- tuple_len_of_type (assoc (tys st) nname) ;;
               match n with
               | O => Raise                                  (* unbounded recursion *)
               | S m => Ok (if_exp1 nname i 0 m)
               end
           | ESubscript (EName nname) (EName iname) =>
               match assoc (tys st) nname with
               | Some (TyNode (ETuple (ETuple l0 :: l))) =>
                   let elts := ETuple l0 :: l in
                   if_exp_rows nname iname i (map (fun r => List.length (row_elts r elts)) elts)
               | Some (TyNode (ETuple [])) => Raise          (* gtype.elts[0]: IndexError *)
               | Some (TyNode (ESubscript _ (ETuple outer))) =>
                   if_exp_rows nname iname i (map (fun r => List.length (row_elts r outer)) outer)
               | Some (TyNode (ESubscript _ (EList _))) => Unmod
               | _ => Raise                                  (* AttributeError *)
               end
           | _ => unroll_const
           end
  | ESubscript _ _ => unroll_const
  | _ => keep
  end.

(* __unroll_arg *)
Definition unroll_arg (st : rstate) (arg : exp) : res (list exp) :=
  match arg with
  | ETuple l => Ok l
  | EConstNode (ETuple l) => Ok l
  | ESubscript (EName n) s =>
      match assoc (tys st) n, s with
      | Some (TyNode (ESubscript _ (ETuple l))), EConst c =>
          (* _sval.slice.elts[arg.slice.value]: the selected row *)
          match val_of_cst c with
          | Some i => match as_int i with
                      | Some z => match index_list l z with
                                  | Some row =>
                                      Ok (map (fun i => ESubscript (ESubscript (EName n) (EConst c))
                                                                   (EConst (CInt (Z.of_nat i))))
                                              (seq 0 (List.length (row_elts row l))))
                                  | None => Raise                 (* IndexError *)
                                  end
                      | None => Raise
                      end
          | None => Raise                                         (* TypeError *)
          end
      | Some (TyNode (ESubscript _ (ETuple l))), EConstNode _ => Unmod
      | _, _ => Ok [arg]
      end
  | EName n =>
      match assoc (tys st) n with
      | Some (TyNode (ESubscript (EName tn) sl)) =>
          if String.eqb tn "Tuple" then
            match sl with
            | ETuple l => Ok (map (access1 n) (seq 0 (List.length l)))
            | EList _ => Unmod
            | _ => Raise                                     (* .elts: AttributeError *)
            end
          else Ok [arg]
      | Some (TyNode (ESubscript _ _)) => Raise              (* .value.id: AttributeError *)
      | Some (TyNode (ETuple _)) =>
          if has_key (cns st) n then
            match assoc (cns st) n with
            | Some (CvNode (ETuple l)) => Ok l
            | Some (CvNode (EList _)) => Unmod
            | _ => Raise                                     (* .elts: AttributeError *)
            end
          else Ok [arg]
      | _ => Ok [arg]
      end
  | _ => Ok [arg]
  end.

Fixpoint pow_chain (a : exp) (n : nat) : exp :=
  match n with
  | O => a
  | S m => EBinOp Mult (pow_chain a m) a
  end.

Fixpoint sum_chain (l : list exp) : res exp :=
  match l with
  | [] => Raise                                              (* arg_l[0]: IndexError *)
  | [x] => Ok x
  | x :: r => y <- sum_chain r ;; Ok (EBinOp Add x y)
  end.

Fixpoint minmax_chain (op : cmpop) (l : list exp) : res exp :=
  match l with
  | [] => Raise
  | [x] => Ok x
  | x :: r => y <- minmax_chain op r ;;
              Ok (EIfExp (EBoolOp And (map (fun z => ECompare op x z) r)) x y)
  end.

(* __call_range after the arguments have been visited: ConstantFolder, then range( *args ) *)
Definition range_consts (args' : list exp) : res (list exp) :=
  args'' <- mapM fold_exp args' ;;
  if forallb is_constant args'' then
    match all_some (map (fun a => match a with
                                  | EConst c => match val_of_cst c with Some v => as_int v | None => None end
                                  | _ => None end) args'') with
    | Some zs => match range_of zs with
                 | Some l => if (2000 <? List.length l)%nat then Unmod
                             else Ok (map (fun z => EConst (CInt z)) l)
                 | None => Raise
                 end
    | None => Unmod                                      (* float / str arguments *)
    end
  else Raise.                                            (* "Range call on not constant arguments" *)

Definition is_seqfun (f : string) : bool :=
  existsb (String.eqb f) ["len"; "sum"; "any"; "all"; "min"; "max"].

(* len / sum / any / all / min / max of an unrolled argument *)
Definition call_on_list (f : string) (l : list exp) : res exp :=
  if String.eqb f "len" then Ok (EConst (CInt (Z.of_nat (List.length l))))
  else if String.eqb f "sum" then sum_chain l
  else if String.eqb f "any" then Ok (EBoolOp Or l)
  else if String.eqb f "all" then Ok (EBoolOp And l)
  else if String.eqb f "max" then minmax_chain Gt l
  else if String.eqb f "min" then minmax_chain LtE l
  else Unmod.

Fixpoint rw_exp (st : rstate) (e : exp) {struct e} : res exp :=
  match e with
  | EName x => if dunder x then Raise else Ok e
  | EConst _ => Ok e
  | EConstNode e' => r <- rw_exp st e' ;; Ok (EConstNode r)
  | EBoolOp op l => l' <- mapM (rw_exp st) l ;; Ok (EBoolOp op l')
  | EUnOp op a => a' <- rw_exp st a ;; Ok (EUnOp op a')
  | ECompare op a b => a' <- rw_exp st a ;; b' <- rw_exp st b ;; Ok (ECompare op a' b')
  | EIfExp c t f => c' <- rw_exp st c ;; t' <- rw_exp st t ;; f' <- rw_exp st f ;; Ok (EIfExp c' t' f')
  | ETuple l => l' <- mapM (rw_exp st) l ;; Ok (ETuple l')
  | EList l => l' <- mapM (rw_exp st) l ;; Ok (ETuple l')
  | EBinOp op a b =>
      let generic := a' <- rw_exp st a ;; b' <- rw_exp st b ;; Ok (EBinOp op a' b') in
      match op, b with
      | Pow, EConst (CInt z) =>
          if (0 <? z)%Z then (if (z <? 200)%Z then Ok (pow_chain a (Z.to_nat z - 1)) else Unmod)
          else if Z.eqb z 0 then Ok (EConst (CInt 1))
          else generic
      | Pow, EConst (CBool true) => Ok a
      | Pow, EConst (CBool false) => Ok (EConst (CInt 1))
      | _, _ => generic
      end
  | ESubscript v s => rw_subscript st v s
  | ECall f args =>
      let generic :=
      args' <- mapM (rw_exp st) args ;;
      if String.eqb f "print" || String.eqb f "range" then Unmod     (* only as a statement / an iterator *)
      else if String.eqb f "len" then
        match args' with
        | [a] => l <- unroll_arg st a ;; Ok (EConst (CInt (Z.of_nat (List.length l))))
        | _ => Raise
        end
      else if String.eqb f "sum" then
        match args' with [a] => l <- unroll_arg st a ;; sum_chain l | _ => Raise end
      else if String.eqb f "ord" || String.eqb f "chr" then
        match args' with [a] => Ok a | _ => Raise end
      else if String.eqb f "any" || String.eqb f "all" then
        match args' with
        | [a] => l <- unroll_arg st a ;; Ok (EBoolOp (if String.eqb f "any" then Or else And) l)
        | _ => Raise
        end
      else if String.eqb f "min" || String.eqb f "max" then
        l <- match args' with [a] => unroll_arg st a | _ => Ok args' end ;;
        minmax_chain (if String.eqb f "max" then Gt else LtE) l
      else Ok (ECall f args') in
      (* the only argument is a range(...): the visit expands it to a list of values, which
         __unroll_arg turns into constants *)
      match args with
      | [ECall g rargs] =>
          if String.eqb g "range" && is_seqfun f then
            rargs' <- mapM (rw_exp st) rargs ;; l <- range_consts rargs' ;; call_on_list f l
          else generic
      | _ => generic
      end
  end.

Definition wrap_body (st : rstate) (test : string) (b : stmt) : res stmt :=
  match b with
  | SAssign (TName y) e =>
      let o := if dunder y && negb (in_env st y) then drop2 y else y in
      Ok (SAssign (TName y) (EIfExp (EName test) e (EName o)))
  | _ => Raise
  end.
Definition wrap_else (st : rstate) (test : string) (b : stmt) : res stmt :=
  match b with
  | SAssign (TName y) e =>
      if dunder y && negb (in_env st y) then Ok (SAssign (TName y) (EIfExp (EName test) (EName (drop2 y)) e))
      else if is_iftarg y then Ok b
      else Ok (SAssign (TName y) (EIfExp (EName test) (EName y) e))
  | _ => Raise
  end.

Section RwList.
  Variable rw : rstate -> stmt -> res (list stmt * rstate).
  Fixpoint rw_list_with (st : rstate) (l : list stmt) : res (list stmt * rstate) :=
    match l with
    | [] => Ok ([], st)
    | s :: r =>
        ' (l1, st1) <- rw st s ;;
        ' (l2, st2) <- rw_list_with st1 r ;;
        Ok (l1 ++ l2, st2)
    end.
End RwList.

(* visit_Assign of `x = e`, first half: the environment is updated BEFORE the value is
   visited; a tuple value is visited here already, in place *)
Definition assign_env (st : rstate) (x : string) (e : exp) : res (rstate * exp) :=
  match e with
  | EConst _ | EConstNode _ => Ok (set_constant st x e, e)
  | EName y =>
      if in_env st y then
        match assoc (tys st) y with
        | Some t => Ok (set_type st x t, e)
        | None => Raise                                   (* KeyError *)
        end
      else Ok (set_type st x TyRaw, e)
  | ETuple _ | EList _ =>
      r1 <- rw_exp st e ;;
      if Bool.eqb (name_in x e) (name_in x r1) then Ok (set_constant st x r1, r1) else Unmod
  | _ => Ok (set_type st x TyRaw, e)
  end.

Definition is_seq_lit (e : exp) : bool := match e with ETuple _ | EList _ => true | _ => false end.

Definition rw_assign (st : rstate) (x : string) (e : exp) : res (list stmt * rstate) :=
  let was_known := in_env st x in
  ' (st1, e1) <- assign_env st x e ;;
  v <- rw_exp st1 e1 ;;
  (* second visit of a tuple value: must change nothing, else the in-place mutation is visible *)
  if is_seq_lit e && negb (exp_eqb v e1) then Unmod else
  if name_in x e1 && was_known && negb (is_constant e) then
    Ok ([SAssign (TName (String.append "__" x)) v; SAssign (TName x) (EName (String.append "__" x))], st1)
  else Ok ([SAssign (TName x) v], st1).

(* the loop value NameValReplacer substitutes: a Constant or Subscript element itself, anything
   else wrapped in a Constant *)
Definition loop_val (i : exp) : exp :=
  match i with EConst _ | EConstNode _ | ESubscript _ _ => i | _ => EConstNode i end.

Section Rolls.
  Variable rw : rstate -> stmt -> res (list stmt * rstate).
  Fixpoint rolls_with (x : string) (b : list stmt) (l : list exp) (st : rstate) : res (list stmt * rstate) :=
    match l with
    | [] => Ok ([], st)
    | i :: r =>
        let v := loop_val i in
        let st1 := set_constant st x v in
        ' (l0, st2) <- rw st1 (SAssign (TName x) v) ;;
        b' <- mapM (subst_stmt false x v) b ;;
        ' (l1, st3) <- rw_list_with rw st2 b' ;;
        ' (l2, st4) <- rolls_with x b r st3 ;;
        Ok (l0 ++ l1 ++ l2, st4)
    end.
End Rolls.

Definition iftarg_name (u : N) : string := String.append iftarg_prefix (hex_of_N u).
Definition forit_prefix : string := "_forit".
Definition is_forit (x : string) : bool := prefix forit_prefix x.
Definition forit_name (u : N) : string := String.append forit_prefix (hex_of_N u).

(* does an Assign / AugAssign anywhere inside the statements target the plain name [a] ? *)
Fixpoint assigns_name (a : string) (s : stmt) {struct s} : bool :=
  match s with
  | SAssign (TName y) _ => String.eqb y a
  | SAssign (TTuple _) _ => false
  | SAugAssign y _ _ => String.eqb y a
  | SIf _ b o => existsb (assigns_name a) b || existsb (assigns_name a) o
  | SFor _ _ b o => existsb (assigns_name a) b || existsb (assigns_name a) o
  | SReturn _ | SExpr _ => false
  end.

(* visit_For, before the unrolling: the statements emitted first (the `_foritN = name` copy of
   an iterated name the body re-assigns), the elements, the state *)
Definition for_iter (st : rstate) (it : exp) (b : list stmt) : res (list stmt * list exp * rstate) :=
  match is_call "range" it with
  | Some args => args' <- mapM (rw_exp st) args ;; l <- range_consts args' ;; Ok ([], l, st)
  | None =>
      it' <- rw_exp st it ;;
      match it' with
      | EName a =>
          if existsb (assigns_name a) b then
            let u := (uq st + 1)%N in
            let snap := forit_name u in
            ' (l0, st1) <- rw_assign (mkst (tys st) (cns st) u) snap (EName a) ;;
            l <- unroll_arg st1 (EName snap) ;;
            Ok (l0, l, st1)
          else (l <- unroll_arg st it' ;; Ok ([], l, st))
      | _ => l <- unroll_arg st it' ;; Ok ([], l, st)
      end
  end.

Fixpoint rw_stmt (fuel : nat) (st : rstate) (s : stmt) {struct fuel} : res (list stmt * rstate) :=
  match fuel with
  | O => Unmod
  | S n =>
      match s with
      | SAssign (TName x) e => rw_assign st x e
      | SAssign (TTuple _) _ => Raise                        (* targets[0].id: AttributeError *)
      | SAugAssign x op e =>
          v <- rw_exp st (EBinOp op (EName x) e) ;;
          Ok ([SAssign (TName (String.append "__" x)) v; SAssign (TName x) (EName (String.append "__" x))], st)
      | SIf c b o =>
          ' (b', st1) <- rw_list_with (rw_stmt n) st b ;;
          ' (o', st2) <- rw_list_with (rw_stmt n) st1 o ;;
          let u := (uq st2 + 1)%N in
          let test := iftarg_name u in
          let st3 := mkst (tys st2) (cns st2) u in
          c' <- rw_exp st3 c ;;
          bl <- mapM (wrap_body st3 test) b' ;;
          ol <- mapM (wrap_else st3 test) o' ;;
          Ok (SAssign (TName test) c' :: bl ++ ol, st3)
      | SFor x it b o =>
          ' (pre, elems, st0) <- for_iter st it b ;;
          ' (l1, st1) <- rolls_with (rw_stmt n) x b elems st0 ;;
          (* the loop is fully unrolled (there is no break): its else branch always runs *)
          ' (o', st2) <- rw_list_with (rw_stmt n) st1 o ;;
          Ok (pre ++ l1 ++ o', st2)
      | SReturn e => e' <- rw_exp st e ;; Ok ([SReturn e'], st)
      | SExpr None => Ok ([s], st)
      | SExpr (Some e) =>
          match is_call "print" e with
          | Some args => _ <- mapM (rw_exp st) args ;; Ok ([SExpr None], st)
          | None => e' <- rw_exp st e ;; Ok ([SExpr (Some e')], st)
          end
      end
  end.

Definition rw_list (fuel : nat) := rw_list_with (rw_stmt fuel).

Definition init_state (args : list (string * option exp)) : rstate :=
  mkst (rev (map (fun p => (fst p, match snd p with Some a => TyNode a | None => TyRaw end)) args)) [] 1%N.

Definition rw_fuel : nat := 40.

(* ASTRewriter().visit(FunctionDef): the argument annotations are visited before the
   body and the return annotation after it (only a raise is observable) *)
Definition rw_fun (f : fundef) (body : list stmt) : res (list stmt) :=
  let st0 := init_state (f_args f) in
  _ <- mapM (fun p => match snd p with Some a => rw_exp st0 a | None => Ok (EConst CNone) end) (f_args f) ;;
  ' (b, st) <- rw_list rw_fuel st0 body ;;
  _ <- match f_ret f with Some a => rw_exp st a | None => Ok (EConst CNone) end ;;
  Ok b.

(* the names of the temporaries the rewriting introduces are reserved: any ast.Name / argument
   of the ORIGINAL tree starting with one of them raises, before any pass *)
Definition reserved (x : string) : bool :=
  prefix "_temptup" x || prefix "_iftarg" x || prefix "_forit" x.

Fixpoint exp_reserved (e : exp) {struct e} : bool :=
  match e with
  | EName x => reserved x
  | EConst _ => false
  | EConstNode e' => exp_reserved e'
  | EBoolOp _ l | ETuple l | EList l => existsb exp_reserved l
  | EBinOp _ a b | ECompare _ a b | ESubscript a b => exp_reserved a || exp_reserved b
  | EUnOp _ a => exp_reserved a
  | EIfExp c t f => exp_reserved c || exp_reserved t || exp_reserved f
  | ECall f args => reserved f || existsb exp_reserved args
  end.
Fixpoint stmt_reserved (s : stmt) {struct s} : bool :=
  match s with
  | SAssign (TName x) e => reserved x || exp_reserved e
  | SAssign (TTuple l) e => existsb exp_reserved l || exp_reserved e
  | SAugAssign x _ e => reserved x || exp_reserved e
  | SIf c b o => exp_reserved c || existsb stmt_reserved b || existsb stmt_reserved o
  | SFor x it b o => reserved x || exp_reserved it || existsb stmt_reserved b || existsb stmt_reserved o
  | SReturn e => exp_reserved e
  | SExpr None => false
  | SExpr (Some e) => exp_reserved e
  end.
Definition fun_reserved (f : fundef) : bool :=
  existsb (fun p => reserved (fst p) || match snd p with Some a => exp_reserved a | None => false end) (f_args f)
  || match f_ret f with Some a => exp_reserved a | None => false end
  || existsb stmt_reserved (f_body f).

(* ast2ast.py: ConstantFolder, (ReplaceTypeAnn), ReplaceMultiTargetAssign, ASTRewriter, ConstantFolder *)
Definition a2a (f : fundef) : res (list stmt) :=
  if fun_reserved f then Raise else
  b1 <- fold_list (f_body f) ;;
  b2 <- multi_list b1 ;;
  b3 <- rw_fun f b2 ;;
  fold_list b3.

(* the normal form the translator model works on *)
Definition normal_stmt (s : stmt) : bool :=
  match s with
  | SAssign (TName _) _ | SReturn _ | SExpr _ => true
  | _ => false
  end.
Definition normal_form (l : list stmt) : bool := forallb normal_stmt l.

(* ================================================================== *)
(* the decidable guards of the theorems of P_A2A.v                     *)
(* ================================================================== *)
Definition valued (c : cst) : bool := match c with CBool _ | CInt _ => true | _ => false end.
Definition valued_const (e : exp) : bool := match e with EConst c => valued c | _ => false end.

(* the calls the two transformers give a special meaning to *)
Definition special_calls : list string :=
  ["len"; "sum"; "all"; "any"; "min"; "max"; "abs"; "print"; "range"; "ord"; "chr"].

Definition tuple_lit_len (e : exp) : option nat :=
  match e with ETuple l | EList l => Some (List.length l) | _ => None end.
(* a literal tuple / list of bool / int constants *)
Definition const_iter (it : exp) : bool :=
  match it with ETuple l | EList l => forallb valued_const l | _ => false end.

Section Guard.
  Variable okn : string -> bool.          (* the names that may occur *)
  (* the typed tuple arguments (annotation Tuple[...]) with their length: they may be iterated
     over and unpacked, and are never re-bound *)
  Variable plen : string -> option nat.
  Definition prot (a : string) : bool := match plen a with Some _ => true | None => false end.
  (* ... those whose elements are all annotated bool *)
  Variable pbool : string -> bool.
  (* ... those whose elements are all annotated Qint[...] *)
  Variable pint : string -> bool.

  (* [lv]: the enclosing loop variables (they are replaced by constants before the rewriter
     sees the expression): the only names that may index a subscript *)
  (* len(a) / sum(a) / all(a) / any(a) of a typed tuple argument (sum: of at least two elements;
     all / any: of at least one element, all annotated bool) *)
  Definition typed_call (f : string) (args : list exp) : bool :=
    match args with
    | [EName a] =>
        okn a && match plen a with
                 | Some n => String.eqb f "len" || (String.eqb f "sum" && Nat.leb 2 n)
                             || ((String.eqb f "all" || String.eqb f "any") && Nat.leb 1 n && pbool a)
                             || ((String.eqb f "min" || String.eqb f "max") && Nat.leb 1 n && (pbool a || pint a))
                 | None => false
                 end
    | _ => false
    end.

  Fixpoint gexp (lv : list string) (e : exp) {struct e} : bool :=
    match e with
    | EName x => okn x
    | EConst c => valued c
    | EConstNode _ => false
    | EBoolOp _ l => forallb (gexp lv) l
    | EBinOp op a b => negb (binop_eqb op Pow) && gexp lv a && gexp lv b
    | EUnOp _ a => gexp lv a
    | ECompare _ a b => gexp lv a && gexp lv b
    | EIfExp c t f => gexp lv c && gexp lv t && gexp lv f
    | ETuple l | EList l => forallb (gexp lv) l
    | ESubscript v s =>
        gexp lv v && match s with
                     | EConst c => valued c
                     | EName i => okn i && existsb (String.eqb i) lv
                     | _ => false
                     end
    | ECall f args =>
        (negb (existsb (String.eqb f) special_calls) && forallb (gexp lv) args) || typed_call f args
    end.

  (* the names that may be bound *)
  Definition okt (x : string) : bool := okn x && negb (prot x).
  Definition gname (e : exp) : bool := match e with EName x => okt x | _ => false end.

  (* the typed tuple argument a loop iterates over *)
  Definition name_iter (it : exp) : option string :=
    match it with EName a => if prot a then Some a else None | _ => None end.
  Definition giter (lv : list string) (it : exp) : bool :=
    match is_call "range" it with
    | Some args => forallb (gexp lv) args
    | None => const_iter it || match name_iter it with Some a => okn a | None => false end
    end.
  (* the variable of a loop over range / constants is replaced by a constant and may index a
     subscript inside the body; the variable of a loop over a typed argument may not *)
  Definition body_lv (x : string) (lv : list string) (it : exp) : list string :=
    match name_iter it with Some _ => lv | None => x :: lv end.

  Fixpoint gstmt (lv : list string) (s : stmt) {struct s} : bool :=
    match s with
    | SAssign (TName x) e => okt x && gexp lv e
    | SAssign (TTuple l) e =>
        forallb gname l && gexp lv e &&
        match tuple_lit_len e with
        | Some n => Nat.eqb n (List.length l)
        | None => match e with
                  | EName a => match plen a with Some n => Nat.eqb n (List.length l) | None => false end
                  | _ => false
                  end
        end
    | SAugAssign x op e => okt x && negb (binop_eqb op Pow) && gexp lv e
    | SIf c b o => gexp lv c && forallb (gstmt lv) b && forallb (gstmt lv) o
    | SFor x it b o =>
        okt x && giter lv it &&
        (match name_iter it with Some _ => negb (existsb (String.eqb x) lv) | None => true end) &&
        forallb (gstmt (body_lv x lv it)) b && forallb (gstmt lv) o
    | SReturn e => gexp lv e
    | SExpr None => true
    | SExpr (Some e) => gexp lv e
    end.
End Guard.

(* source programs: no name starts with `__` (visit_Name raises on a read, a binding is silently
   confused with a temporary) or with a reserved prefix (ast2ast raises) *)
Definition user_name (x : string) : bool := negb (dunder x) && negb (reserved x).
(* after ReplaceMultiTargetAssign: `_temptup` may occur; the rewriter's own names may not *)
Definition visible (x : string) : bool := negb (dunder x) && negb (is_iftarg x) && negb (is_forit x).

(* THE GUARD of the preservation theorem.  Inside: names not starting with `__`, `_temptup`,
   `_iftarg`, `_forit`; bool / int
   constants only; no `**`; subscripts indexed by a constant or by an enclosing loop variable;
   no call of len / sum / all / any / min / max / abs / print / ord / chr, range only as a loop
   iterator; tuple targets only with a literal tuple / list of the same length, or an argument
   annotated Tuple[...] of that length, on the right;
   loops over range(...), over a literal tuple / list of bool / int constants, or over an argument
   annotated Tuple[...] (Qlist / Qmatrix after ReplaceTypeAnn) that is never re-bound. *)
(* the typed tuple arguments of a function, with their length: what Environment.types holds for
   them when the rewriter starts *)
Definition plen_of (f : fundef) (a : string) : option nat :=
  match assoc (tys (init_state (f_args f))) a with
  | Some (TyNode (ESubscript (EName tn) (ETuple l))) =>
      if String.eqb tn "Tuple" && user_name a then Some (List.length l) else None
  | _ => None
  end.
Definition is_bool_ann (e : exp) : bool := match e with EName t => String.eqb t "bool" | _ => false end.
Definition pbool_of (f : fundef) (a : string) : bool :=
  match assoc (tys (init_state (f_args f))) a with
  | Some (TyNode (ESubscript (EName tn) (ETuple l))) =>
      String.eqb tn "Tuple" && user_name a && forallb is_bool_ann l
  | _ => false
  end.
Definition is_int_ann (e : exp) : bool :=
  match e with ESubscript (EName t) _ => String.eqb t "Qint" | _ => false end.
Definition pint_of (f : fundef) (a : string) : bool :=
  match assoc (tys (init_state (f_args f))) a with
  | Some (TyNode (ESubscript (EName tn) (ETuple l))) =>
      String.eqb tn "Tuple" && user_name a && forallb is_int_ann l
  | _ => false
  end.
Definition a2a_guard (f : fundef) : bool :=
  forallb (gstmt user_name (plen_of f) (pbool_of f) (pint_of f) []) (f_body f).
Definition is_vint (v : val) : bool := match v with VInt _ => true | _ => false end.

Definition is_vbool (v : val) : bool := match v with VBool _ => true | _ => false end.
(* the environment gives every typed tuple argument a tuple of the annotated length, of
   booleans when every element is annotated bool, of integers when every element is annotated
   Qint[...] *)
Definition conforms (f : fundef) (rho : env) : Prop :=
  (forall a n, plen_of f a = Some n -> exists vs, rho a = Some (VTup vs) /\ List.length vs = n) /\
  (forall a, pbool_of f a = true -> exists vs, rho a = Some (VTup vs) /\ forallb is_vbool vs = true) /\
  (forall a, pint_of f a = true -> exists vs, rho a = Some (VTup vs) /\ forallb is_vint vs = true).

(* decidable form of [conforms] (sufficient: P_A2A.conforms_check) *)
Definition conforms_b (f : fundef) (rho : env) : bool :=
  forallb (fun x => match plen_of f x with
                    | Some n => match rho x with
                                | Some (VTup vs) => Nat.eqb (List.length vs) n &&
                                                    (negb (pbool_of f x) || forallb is_vbool vs) &&
                                                    (negb (pint_of f x) || forallb is_vint vs)
                                | _ => false
                                end
                    | None => true
                    end) (map fst (f_args f)).
