(* Chk_QCircuit.v — functions evaluated (vm_compute) by harness/c14.py on the
   observations it collected from the implementation: one operation of
   qcircuit.py / qcircuitenhanced.py on serialised operands, and what the
   implementation returned (gate list with the identities of the gate objects,
   or the exception).  Object ids are compared up to renaming: the operands'
   gates followed by the result's gates are renumbered by first occurrence on
   both sides, so that sharing of gate objects inside the result and between
   result and operands is compared exactly. *)
From Coq Require Import List Bool NArith ZArith Arith.
From QV Require Import Circ M_QCircuit.
Import ListNotations.

Inductive obs := OErr (code : N) | OOk (n : nat) (gl : list qgate).

Definition err_code (e : err) : N :=
  match e with ERange => 1 | EDup => 2 | EArity => 3 | ETooMany => 4 | ELen => 5 | EIndex => 6 end%N.

Definition base_eqb (a b : base) : bool :=
  match a, b with
  | BI, BI | BX, BX | BY, BY | BZ, BZ | BH, BH | BS, BS | BT, BT | BP, BP | BSwap, BSwap => true
  | _, _ => false
  end.
Definition gk_eqb (a b : gk) : bool :=
  match a, b with
  | K1 x, K1 y => base_eqb x y
  | KCX, KCX | KCZ, KCZ | KCP, KCP | KCCX, KCCX | KBarrier, KBarrier | KNop, KNop => true
  | KMCX n, KMCX m => n =? m
  | KMCtrl x n, KMCtrl y m => base_eqb x y && (n =? m)
  | _, _ => false
  end.
Definition entry_eqb (a b : qgate) : bool := gk_eqb (qkind a) (qkind b) && qgate_eqb a b.
Fixpoint entries_eqb (a b : list qgate) : bool :=
  match a, b with
  | [], [] => true
  | x :: a', y :: b' => entry_eqb x y && entries_eqb a' b'
  | _, _ => false
  end.

Fixpoint lookup (k : nat) (m : list (nat * nat)) : option nat :=
  match m with
  | [] => None
  | (a, b) :: r => if a =? k then Some b else lookup k r
  end.
Fixpoint canon_go (m : list (nat * nat)) (next : nat) (l : list qgate) : list qgate :=
  match l with
  | [] => []
  | g :: r =>
    match lookup (qobj g) m with
    | Some i => mkq i (qkind g) (qqs g) (qpar g) :: canon_go m next r
    | None => mkq next (qkind g) (qqs g) (qpar g) :: canon_go ((qobj g, next) :: m) (S next) r
    end
  end.
Definition canon (l : list qgate) : list qgate := canon_go [] 0 l.

Inductive op :=
| OpAppend (c : qcirc) (g : qgate)
| OpAppendCircuit (c o : qcirc) (qs : list nat)
| OpIadd (c o : qcirc)
| OpAdd (c o : qcirc)
| OpCopy (c : qcirc)
| OpRepeat (n : nat) (c : qcirc)
| OpRemoveId (c : qcirc)
| OpQft (c : qcirc) (wl : list nat)
| OpIqft (c : qcirc) (wl : list nat)
| OpQftIqft (c : qcirc) (wl : list nat).

Definition operands (o : op) : list qgate :=
  match o with
  | OpAppend c g => cgates c ++ [g]
  | OpAppendCircuit c o qs => cgates c ++ cgates o
  | OpIadd c o | OpAdd c o => cgates c ++ cgates o
  | OpCopy c | OpRepeat _ c | OpRemoveId c | OpQft c _ | OpIqft c _ | OpQftIqft c _ => cgates c
  end.

Record flags := mkf { f_strict : bool; f_zero : bool; f_selfinv : bool; f_guard : bool }.

Definition run (f : flags) (o : op) : res qcirc :=
  let fresh := id_bound (operands o) in
  match o with
  | OpAppend c g => qc_append (f_strict f) c g
  | OpAppendCircuit c o qs => qc_append_circuit c o qs
  | OpIadd c o => qc_iadd c o
  | OpAdd c o => qc_add fresh c o
  | OpCopy c => Ok (qc_copy fresh c)
  | OpRepeat n c => qc_repeat (f_zero f) n c
  | OpRemoveId c => remove_identities (f_selfinv f) (f_guard f) c
  | OpQft c wl => qc_qft (f_strict f) c fresh wl
  | OpIqft c wl => qc_iqft (f_strict f) c fresh wl
  | OpQftIqft c wl =>
      bind (qc_qft (f_strict f) c fresh wl)
           (fun c1 => qc_iqft (f_strict f) c1 (fresh + length (qft_gates wl)) wl)
  end.

Definition agree (ops : list qgate) (m : res qcirc) (ob : obs) : bool :=
  match m, ob with
  | Ok c, OOk n gl => (cn c =? n) && entries_eqb (canon (ops ++ cgates c)) (canon (ops ++ gl))
  | Err e, OErr k => N.eqb (err_code e) k
  | _, _ => false
  end.

(* 0: the implementation agrees with the model of the patched code;
   1..4: it agrees with the model in which exactly that patch is missing
         (1 strict append, 2 repeat(0), 3 self-inverse test, 4 result[-1] guard);
   5: it agrees with today's code (no patch) only;  99: with none of them *)
Definition verdict (o : op) (ob : obs) : N :=
  let ops := operands o in
  let a f := agree ops (run f o) ob in
  (if a (mkf true true true true) then 0
   else if a (mkf false true true true) then 1
   else if a (mkf true false true true) then 2
   else if a (mkf true true false true) then 3
   else if a (mkf true true true false) then 4
   else if a (mkf false false false false) then 5
   else 99)%N.

Definition chk_cases (cases : list (N * (op * obs))) : list N :=
  flat_map (fun x => match verdict (fst (snd x)) (snd (snd x)) with
                     | 0%N => []
                     | v => [(fst x * 100 + v)%N]
                     end) cases.

(* the model's own result, for reports *)
Definition model_sig (o : op) : option (nat * list (gk * list nat * phase)) :=
  match run (mkf true true true true) o with
  | Ok c => Some (cn c, map (fun g => (qkind g, qqs g, qpar g)) (cgates c))
  | Err _ => None
  end.
