(* Chk_Codec.v — functions the correspondence harness evaluates (vm_compute)
   on the observations it collected from the implementation (C09, C05). *)
From Coq Require Import List Bool NArith Arith.
From QV Require Import Bits M_Codec.
Import ListNotations.
Local Open Scope N_scope.

Fixpoint list_N_eqb (a b : list N) : bool :=
  match a, b with
  | [], [] => true
  | x :: a', y :: b' => (x =? y) && list_N_eqb a' b'
  | _, _ => false
  end.

(* one observation row per bit pattern p:
   [value; to_bool(from_bool p); const(value) bits; len const; amp length; amp hot index;
    from_bin(to_bin) re-encoded] *)
Definition qint_row (w : nat) (p : N) : list N :=
  let v := qint_from_bool w (nbits w p) in
  let c := qint_const w v in
  let a := qint_amp w v in
  [v; bits_val (qint_to_bool w v); bits_val c; N.of_nat (length c); fst a; snd a].

Definition qchar_row (p : N) : list N :=
  let v := qchar_from_bool (nbits 8 p) in
  let c := qchar_const v in
  let a := qchar_amp v in
  [v; bits_val (qchar_to_bool v); bits_val c; N.of_nat (length c); fst a; snd a].

(* Qfixed: the implementation's value is a float, sent as (num, k) = num / 2^k *)
Definition qfixed_row_ok (i f : nat) (p : N) (obs : list N) : bool :=
  let v := qfixed_from_bool i f (nbits (i + f) p) in
  let c := qfixed_const i f v in
  let a := qfixed_amp i f v in
  match obs with
  | [num; k; rt; cb; cl; al; ai] =>
      dy_eqb v (mkdy num (N.to_nat k)) &&
      list_N_eqb [bits_val (qfixed_to_bool i f v); bits_val c; N.of_nat (length c); fst a; snd a]
                 [rt; cb; cl; al; ai]
  | _ => false
  end.

Definition failing {A} (ok : A -> bool) (l : list (N * A)) : list N :=
  map fst (filter (fun x => negb (ok (snd x))) l).

Definition chk_qint (w : nat) (obs : list (N * list N)) : list N :=
  map fst (filter (fun x => negb (list_N_eqb (qint_row w (fst x)) (snd x))) obs).
Definition chk_qchar (obs : list (N * list N)) : list N :=
  map fst (filter (fun x => negb (list_N_eqb (qchar_row (fst x)) (snd x))) obs).
Definition chk_qfixed (i f : nat) (obs : list (N * list N)) : list N :=
  map fst (filter (fun x => negb (qfixed_row_ok i f (fst x) (snd x))) obs).

(* float constants: value num/2^k, observed encoding (as a number) and its length *)
Definition chk_qfixed_const (i f : nat) (obs : list (N * (N * N * N * N))) : list N :=
  map fst (filter (fun x =>
     match snd x with (num, k, cb, cl) =>
       let c := qfixed_const i f (mkdy num (N.to_nat k)) in
       negb ((bits_val c =? cb) && (N.of_nat (length c) =? cl))
     end) obs).

(* const_to_qtype on ints: observed (width, encoding) or failure (width 0) *)
Definition chk_const_int (obs : list (N * (N * N))) : list N :=
  map fst (filter (fun x =>
     match snd x, const_to_qtype_int (fst x) with
     | (w, b), Some (w', bits) => negb ((N.of_nat w' =? w) && (bits_val bits =? b))
     | (w, _), None => negb (w =? 0)
     end) obs).

(* structural equality on values, Qfixed compared as rationals *)
Fixpoint val_eqb (a b : val) : bool :=
  match a, b with
  | VBool x, VBool y => Bool.eqb x y
  | VInt x, VInt y => x =? y
  | VFix x, VFix y => dy_eqb x y
  | VChar x, VChar y => x =? y
  | VTuple l, VTuple m =>
      (fix go (l m : list val) : bool :=
         match l, m with
         | [], [] => true
         | x :: l', y :: m' => val_eqb x y && go l' m'
         | _, _ => false
         end) l m
  | _, _ => false
  end.

Definition opt_val_eqb (a b : option val) : bool :=
  match a, b with Some x, Some y => val_eqb x y | None, None => true | _, _ => false end.

Fixpoint list_bool_eqb (a b : list bool) : bool :=
  match a, b with
  | [], [] => true
  | x :: a', y :: b' => Bool.eqb x y && list_bool_eqb a' b'
  | _, _ => false
  end.

(* nested decoding: type, measured string (as the implementation built it),
   declared length, and the value the implementation decoded (None = raised) *)
Definition chk_interpret (cases : list (N * (ty * list bool * nat * option val))) : list N :=
  map fst (filter (fun x =>
     match snd x with (t, s, n, ov) =>
       negb (opt_val_eqb (interpret_as_qtype s t (Some n)) ov)
     end) cases).

(* encode_input: argument types, values, observed string (None = raised) *)
Definition chk_encode (cases : list (N * (list ty * list val * option (list bool)))) : list N :=
  map fst (filter (fun x =>
     match snd x with (ts, vs, os) =>
       negb match encode_input ts vs, os with
            | Some a, Some b => list_bool_eqb a b
            | None, None => true
            | _, _ => false
            end
     end) cases).

(* decode_output: return type, reading, observed value *)
Definition chk_decode (cases : list (N * (ty * list bool * option val))) : list N :=
  map fst (filter (fun x =>
     match snd x with (t, s, ov) => negb (opt_val_eqb (decode_output t s) ov) end) cases).

Definition chk_qint_n (k : nat) (w : nat) (obs : list (N * list N)) : list N :=
  map fst (filter (fun x => negb (list_N_eqb (firstn k (qint_row w (fst x))) (firstn k (snd x)))) obs).

(* const_to_qtype on floats: value num/2^k; observed (i, f, encoding) or (0,0,0) when it raised *)
Definition chk_const_float (types : list (nat * nat)) (obs : list (N * (N * N * (N * N * N)))) : list N :=
  map fst (filter (fun x =>
     match snd x with (num, k, (oi, of, ob)) =>
       match const_float_search types (mkdy num (N.to_nat k)) with
       | Some (i, f, bits) => negb ((N.of_nat i =? oi) && (N.of_nat f =? of) && (bits_val bits =? ob))
       | None => negb ((oi =? 0) && (of =? 0))
       end
     end) obs).
