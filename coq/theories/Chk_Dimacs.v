(* Chk_Dimacs.v — functions harness/c17.py evaluates (vm_compute) on what it
   observed from py2bexp.main(): printed expressions, printed DIMACS, the
   results of the sympy oracles, and the function selected.  Every function
   returns the list of failing case ids. *)
From Coq Require Import List Bool NArith ZArith Arith String.
From QV Require Import Bexp BexpTT M_Dimacs.
Import ListNotations.
Local Open Scope N_scope.

Definition failing_ids {A} (ok : A -> bool) (l : list (N * A)) : list N :=
  map fst (filter (fun x => negb (ok (snd x))) l).

(* truth table (all 2^n argument assignments) of "every return bit is true" *)
Definition rets_tt (n : nat) (exprs : defs) (rets : list nat) : N :=
  let m := tt_mask n in
  let tbl := run_defs_tt m (input_tables n) exprs in
  fold_right (fun r acc => N.land (tenv tbl r) acc) m rets.

Definition expr_tt (n : nat) (e : bexp) : N :=
  tt_eval (tt_mask n) (tenv (input_tables n)) e.

(* 1. sympy format: the printed expression is over the n argument bits and has the
      truth table of the conjunction of the return bits *)
Definition expr_ok (c : nat * bexp * defs * list nat) : bool :=
  match c with (n, printed, exprs, rets) =>
    syms_below n printed && (tt_diff (tt_mask n) (expr_tt n printed) (rets_tt n exprs rets) =? 0)
  end.
Definition chk_expr := failing_ids expr_ok.

(* 2. DIMACS format, judged from the printed text alone plus a numbering
      (k-th entry: the argument bit carrying number k+1) *)
Fixpoint nodupb (l : list nat) : bool :=
  match l with [] => true | x :: r => negb (existsb (Nat.eqb x) r) && nodupb r end.

Definition lit_bexp (numbering : list nat) (z : Z) : bexp :=
  if (0 <? z)%Z then BSym (nth (Z.to_nat z - 1) numbering O)
  else BNot (BSym (nth (Z.to_nat (- z) - 1) numbering O)).
Definition clauses_bexp (numbering : list nat) (cls : list (list Z)) : bexp :=
  BAnd (map (fun c => BOr (map (lit_bexp numbering) c)) cls).

Definition dimacs_ok (c : nat * (nat * nat * list (list Z)) * list nat * defs * list nat) : bool :=
  match c with (n, (nv, nc, cls), numbering, exprs, rets) =>
    Nat.eqb nc (List.length cls) && Nat.eqb nv (List.length numbering) &&
    nodupb numbering && forallb (fun i => Nat.ltb i n) numbering &&
    well_numbered nv cls &&
    (tt_diff (tt_mask n) (expr_tt n (clauses_bexp numbering cls)) (rets_tt n exprs rets) =? 0)
  end.
Definition chk_dimacs := failing_ids dimacs_ok.

(* 3. the model of the (fixed) clause extraction prints what the tool printed,
      given the oracle's CNF and the enumeration order the tool used *)
Fixpoint list_eqb {A} (eqb : A -> A -> bool) (a b : list A) : bool :=
  match a, b with
  | [], [] => true
  | x :: a', y :: b' => eqb x y && list_eqb eqb a' b'
  | _, _ => false
  end.
Definition dimacs_eqb (a b : dimacs) : bool :=
  match a, b with (nv, nc, c), (nv', nc', c') =>
    Nat.eqb nv nv' && Nat.eqb nc nc' && list_eqb (list_eqb Z.eqb) c c' end.
Definition opt_dimacs_eqb (a b : option dimacs) : bool :=
  match a, b with Some x, Some y => dimacs_eqb x y | None, None => true | _, _ => false end.

Definition model_dimacs_ok (c : bexp * list nat * option dimacs) : bool :=
  match c with (cnf, order, obs) => opt_dimacs_eqb (to_dimacs_fixed cnf order) obs end.
Definition chk_model_dimacs := failing_ids model_dimacs_ok.
(* the same against the model of the code as found (used for the report only) *)
Definition model_dimacs_today_ok (c : bexp * list nat * option dimacs) : bool :=
  match c with (cnf, order, obs) => opt_dimacs_eqb (to_dimacs_today cnf order) obs end.
Definition chk_model_dimacs_today := failing_ids model_dimacs_today_ok.

(* 4. oracle contracts, per recorded call: the output is equivalent to the input,
      mentions no new symbol, and (for to_cnf) is in CNF shape *)
Definition oracle_ok (c : nat * bexp * bexp * bool) : bool :=
  match c with (n, inp, out, need_cnf) =>
    syms_below n inp && bexp_equiv_tt n inp out &&
    forallb (fun i => existsb (Nat.eqb i) (bsyms inp)) (bsyms out) &&
    (negb need_cnf || cnf_shape out)
  end.
Definition chk_oracle := failing_ids oracle_ok.

(* 5. which expressions are conjoined: merge_expressions kept its contract and the
      expression built by convert_to_bool_expression (no normal form) is the
      conjunction of the merged return expressions *)
Definition conj_ok (c : nat * defs * defs * list nat * bexp) : bool :=
  match c with (n, exprs, merged, rets, result) =>
    let m := tt_mask n in
    let tbl := run_defs_tt m (input_tables n) exprs in
    list_eqb Nat.eqb (map fst merged) rets &&
    forallb (fun se => syms_below n (snd se) &&
                       (tt_diff m (expr_tt n (snd se)) (tenv tbl (fst se)) =? 0)) merged &&
    syms_below n result &&
    (tt_diff m (expr_tt n result) (expr_tt n (conj_fixed merged)) =? 0)
  end.
Definition chk_conj := failing_ids conj_ok.
(* the code as found: the conjunction of every right-hand side (report only) *)
Definition conj_today_ok (c : nat * nat * defs * bexp) : bool :=
  match c with (n, nall, exprs, result) =>
    bexp_equiv_tt nall result (conj_today exprs) end.
Definition chk_conj_today := failing_ids conj_today_ok.

(* 6. entry-point selection: option, names in definition order, name observed *)
Definition opt_string_eqb (a b : option string) : bool :=
  match a, b with Some x, Some y => String.eqb x y | None, None => true | _, _ => false end.
Definition select_ok (c : option string * list string * option string) : bool :=
  match c with (entry, names, obs) =>
    opt_string_eqb (select entry (map (fun n => (n, n)) names)) obs end.
Definition chk_select := failing_ids select_ok.
