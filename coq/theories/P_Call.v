(* P_Call.v — substitution lemma and "a call is function composition". *)
From Coq Require Import List Bool NArith Arith Lia.
From QV Require Import Bexp BexpTT M_Call.
Import ListNotations.

Definition senv (rho : nat -> bool) (s : nat -> option bexp) : nat -> bool :=
  fun i => match s i with Some e => beval rho e | None => rho i end.

Lemma bsubst_spec rho s e : beval rho (bsubst s e) = beval (senv rho s) e.
Proof.
  unfold beval.
  induction e as [b|i|e IH|l IH|l IH|l IH|c t e IHc IHt IHe|a b IHa IHb] using bexp_ind2;
    cbn [bsubst geval].
  - reflexivity.
  - unfold senv, beval. destruct (s i); reflexivity.
  - now rewrite IH.
  - induction IH as [|x r Hx _ IHr]; cbn [map fold_right]; [reflexivity|]. now rewrite Hx, IHr.
  - induction IH as [|x r Hx _ IHr]; cbn [map fold_right]; [reflexivity|]. now rewrite Hx, IHr.
  - induction IH as [|x r Hx _ IHr]; cbn [map fold_right]; [reflexivity|]. now rewrite Hx, IHr.
  - now rewrite IHc, IHt, IHe.
  - now rewrite IHa, IHb.
Qed.

Lemma brename_spec rho r e : beval rho (brename r e) = beval (fun i => rho (r i)) e.
Proof. unfold brename. rewrite bsubst_spec. reflexivity. Qed.

(* environment described by an association list of already-compressed definitions *)
Definition denv (rho : nat -> bool) (d : list (nat * bexp)) : nat -> bool := senv rho (assoc d).

Lemma denv_cons rho s e d j :
  denv rho ((s, e) :: d) j = if Nat.eqb j s then beval rho e else denv rho d j.
Proof.
  unfold denv, senv. cbn [assoc]. rewrite Nat.eqb_sym. destruct (Nat.eqb j s); reflexivity.
Qed.

(* compressing = running the definitions: each compressed expression, evaluated
   on the formals only, is the value the sequential run assigns to its symbol *)
Lemma compress_go_spec rho ds : forall d,
  (forall s e, In (s, e) (compress_go d ds) ->
     exists pre post e0, ds = pre ++ (s, e0) :: post /\
       beval rho e = run_defs (denv rho d) (pre ++ [(s, e0)]) s) /\
  (forall j, run_defs (denv rho d) ds j = denv rho (rev (compress_go d ds) ++ d) j).
Proof.
  induction ds as [|[s0 e0] ds IH]; intros d.
  - split; [intros s e []|]. intros j. reflexivity.
  - cbn [compress_go]. set (e' := bsubst (assoc d) e0).
    destruct (IH ((s0, e') :: d)) as [IH1 IH2].
    assert (Hstep : forall j, (if Nat.eqb j s0 then beval (denv rho d) e0 else denv rho d j) = denv rho ((s0, e') :: d) j).
    { intros j. rewrite denv_cons. unfold e'. now rewrite bsubst_spec. }
    split.
    + intros s e [Heq|Hin].
      * injection Heq as <- <-. exists [], ds, e0. split; [reflexivity|].
        cbn [app]. rewrite run_defs_cons. unfold run_defs; cbn [fold_left].
        rewrite Nat.eqb_refl. unfold e'. now rewrite bsubst_spec.
      * destruct (IH1 s e Hin) as (pre & post & e1 & Hds & Hev).
        exists ((s0, e0) :: pre), post, e1. split; [now rewrite Hds|].
        rewrite Hev. cbn [app]. rewrite run_defs_cons. apply run_defs_ext. intros j. symmetry. apply Hstep.
    + intros j. rewrite run_defs_cons.
      rewrite (run_defs_ext ds _ _ Hstep j), IH2. cbn [rev]. now rewrite <- app_assoc.
Qed.

(* the value a definition list gives to symbol s when run from rho *)
Theorem compress_run rho ds s e :
  In (s, e) (compress_go [] ds) ->
  exists pre post e0, ds = pre ++ (s, e0) :: post /\ beval rho e = run_defs rho (pre ++ [(s, e0)]) s.
Proof.
  intros Hin. destruct (compress_go_spec rho ds []) as [H _].
  destruct (H s e Hin) as (pre & post & e0 & Hds & Hev). exists pre, post, e0. split; [exact Hds|].
  rewrite Hev. apply run_defs_ext. intros j. reflexivity.
Qed.

(* call site: the caller's bit = the callee's compressed return expression
   evaluated with each formal bit bound to the VALUE of the actual bit expression *)
Definition bind_formals (rho : nat -> bool) (formals : list nat) (actuals : list bexp) : nat -> bool :=
  senv rho (assoc (combine formals actuals)).

Theorem call_is_composition rho formals actuals rets :
  map (beval rho) (call_site formals actuals rets) =
  map (fun se => beval (bind_formals rho formals actuals) (snd se)) rets.
Proof.
  unfold call_site. rewrite map_map. apply map_ext. intros [s e]. cbn [snd]. apply bsubst_spec.
Qed.

Lemma assoc_combine_nth formals actuals k f :
  NoDup formals -> length formals = length actuals -> nth_error formals k = Some f ->
  assoc (combine formals actuals) f = nth_error actuals k.
Proof.
  revert actuals k. induction formals as [|f0 fs IH]; intros actuals k Hnd Hlen Hk.
  - destruct k; discriminate.
  - destruct actuals as [|a0 as_]; [discriminate|]. cbn [combine assoc].
    inversion Hnd as [|? ? Hnin Hnd']; subst. destruct k as [|k].
    + injection Hk as <-. now rewrite Nat.eqb_refl.
    + cbn [nth_error] in Hk |- *. destruct (Nat.eqb_spec f0 f) as [->|Hne].
      * exfalso. apply Hnin. eapply nth_error_In; eauto.
      * apply IH; [exact Hnd'|now injection Hlen|exact Hk].
Qed.

(* with distinct formals, formal number k is bound to the value of actual number k,
   whatever the actuals mention (simultaneous substitution): repeated or swapped
   arguments and actuals named like a formal are all covered *)
Theorem bind_formals_positional rho formals actuals k f a :
  NoDup formals -> length formals = length actuals ->
  nth_error formals k = Some f -> nth_error actuals k = Some a ->
  bind_formals rho formals actuals f = beval rho a.
Proof.
  intros Hnd Hlen Hf Ha. unfold bind_formals, senv.
  rewrite (assoc_combine_nth formals actuals k f Hnd Hlen Hf), Ha. reflexivity.
Qed.

Lemma assoc_not_in l i : ~ In i (map fst l) -> assoc l i = None.
Proof.
  induction l as [|[k e] r IH]; intros H; [reflexivity|]. cbn [assoc].
  destruct (Nat.eqb_spec k i) as [->|Hne]; [exfalso; apply H; now left|].
  apply IH. intros Hc. apply H. now right.
Qed.

(* symbols of the callee expression that are not formals keep the caller's value *)
Theorem bind_formals_other rho formals actuals i :
  length formals = length actuals -> ~ In i formals -> bind_formals rho formals actuals i = rho i.
Proof.
  intros Hlen Hnin. unfold bind_formals, senv. rewrite assoc_not_in; [reflexivity|].
  intros Hc. apply Hnin. apply in_map_iff in Hc as ([a b] & Heq & Hin). cbn [fst] in Heq. subst a.
  eapply in_combine_l; eauto.
Qed.
