(* Chk_Algo.v — what the harness evaluates for each algorithm object (C15, C16):
   (a) the implementation's gate list against the construction model of M_Algo,
   (b) the black box with the verified checkers of Compiled.v,
   (c) the whole circuit with the verified amplitude evaluator of Amp.v, and the
       property decided on the exact integer amplitudes.
   Every function returns a flat `list N`; the layouts are documented below. *)
From Coq Require Import List Bool NArith ZArith Arith.
From QV Require Import Bexp BexpTT Circ Compiled Chk_Compiled Amp M_Algo.
Import ListNotations.
Local Open Scope N_scope.

Definition b2N (b : bool) : N := if b then 1 else 0.

(* the predicate denoted by a definition list, on all 2^n inputs *)
Definition fbits (n : nat) (ds : defs) (rs : nat) : list bool :=
  map (fun x => run_defs (asg (N.of_nat x)) ds rs) (seq 0 (2 ^ n)).
Definition count_true (l : list bool) : N := N.of_nat (length (filter (fun b => b) l)).

(* exact evaluation of a circuit on |0...0>: (ok, k, marginal numerators over the
   first n qubits as a dense list of 2^n numbers).  ok = evaluator defined, final list
   strictly sorted (no duplicate keys) and all keys below 2^nq: the hypotheses of
   P_Algo.marginal_is_reference.  The black box is handed to the verified checkers only if
   it is xonly (X-family gates on distinct qubits below nq: hypothesis of the theorems of
   Prop_C15 / Prop_C16); otherwise status 2 *)
Definition eval_marg (nq n : nat) (c : circuit) : bool * nat * list Z :=
  match run_amp nq c with
  | Some (l, k) =>
      let m := marginal (N.ones (N.of_nat n)) l in
      (strictly_sorted l && keys_below nq l, k, map (fun y => amp_of m (N.of_nat y)) (seq 0 (2 ^ n)))
  | None => (false, 0%nat, [])
  end.
Definition zN (l : list Z) : list N := map Z.to_N l.
Definition pow2z (k : nat) : Z := (2 ^ Z.of_nat k)%Z.

(* ---------------- Deutsch-Jozsa ----------------
   result: [id; corr; c06 status; c06 witness; amp ok; k; #true of f; verdict; p_0 .. p_(2^n-1)]
   verdict: 0 holds, 1 fails, 2 f is neither constant nor balanced *)
Definition chk_dj (id : N) (n nq : nat) (orc : circuit) (ds : defs) (rs ret : nat) (impl : circuit) : list N :=
  let '(ok, k, ps) := eval_marg nq n impl in
  let cnt := count_true (fbits n ds rs) in
  let p0 := nth 0 ps 0%Z in
  let v := if (cnt =? 0) || (cnt =? 2 ^ N.of_nat n) then b2N (negb (Z.eqb p0 (pow2z k)))
           else if cnt * 2 =? 2 ^ N.of_nat n then b2N (negb (Z.eqb p0 0))
           else 2 in
  [id; b2N (circ_eqb impl (dj_circuit n ret orc))] ++ verdict (if xonly nq orc then c06_check n nq orc ds rs ret else None) ++
  [b2N ok; N.of_nat k; cnt; v] ++ zN ps.

(* ---------------- Bernstein-Vazirani ----------------
   the black box is checked (c06) against the MODEL expression x |-> s.x, and the
   implementation's own expression list is compared with it on every input.
   result: [id; corr; c06 status; c06 witness; amp ok; k; expr agrees; verdict; p_0 ..] *)
Definition chk_bv (id : N) (n nq : nat) (orc : circuit) (ds : defs) (rs ret : nat) (s : N) (impl : circuit) : list N :=
  let '(ok, k, ps) := eval_marg nq n impl in
  let mds := [(rs, secret_expr n s)] in
  let same := forallb (fun bb => Bool.eqb (fst bb) (snd bb)) (combine (fbits n ds rs) (fbits n mds rs)) in
  let v := b2N (negb (Z.eqb (nth (N.to_nat s) ps 0%Z) (pow2z k))) in
  [id; b2N (circ_eqb impl (bv_circuit n ret orc))] ++ verdict (if xonly nq orc then c06_check n nq orc mds rs ret else None) ++
  [b2N ok; N.of_nat k; b2N same; v] ++ zN ps.

(* ---------------- Simon ----------------
   rets = (return symbol, qubit) pairs; the black box is checked with c02 (outputs
   hold the return expressions) and c03 (inputs preserved, scratch zero).
   result: [id; corr; c02 status; c02 wit; c03 status; c03 wit; amp ok; k;
            return qubits in n..nq-1 and f two-to-one with period s; verdict; p_0 ..] *)
Definition dotb (n : nat) (a b : N) : bool :=
  fold_right (fun i acc => xorb (N.testbit a (N.of_nat i) && N.testbit b (N.of_nat i)) acc) false (seq 0 n).
Definition fval (ds : defs) (syms : list nat) (x : N) : list bool :=
  let env := run_defs (asg x) ds in map env syms.
Fixpoint bools_eqb (a b : list bool) : bool :=
  match a, b with
  | [], [] => true
  | x :: a', y :: b' => Bool.eqb x y && bools_eqb a' b'
  | _, _ => false
  end.
Definition two_to_one (n : nat) (ds : defs) (syms : list nat) (s : N) : bool :=
  let xs := map N.of_nat (seq 0 (2 ^ n)) in
  let xv := map (fun x => (x, fval ds syms x)) xs in
  forallb (fun a => forallb (fun b =>
     Bool.eqb (bools_eqb (snd a) (snd b)) ((fst b =? fst a) || (fst b =? N.lxor (fst a) s))) xv) xv.
Definition chk_simon (id : N) (n nq : nat) (orc : circuit) (ds : defs) (rets : list (nat * nat)) (s : N) (impl : circuit) : list N :=
  let '(ok, k, ps) := eval_marg nq n impl in
  let ys := seq 0 (2 ^ n) in
  let nz := filter (fun y => negb (Z.eqb (nth y ps 0%Z) 0)) ys in
  let orth := forallb (fun y => negb (dotb n (N.of_nat y) s)) nz in
  let ref := nth (hd 0%nat nz) ps 0%Z in
  let equal := forallb (fun y => Z.eqb (nth y ps 0%Z) ref) nz in
  (* every y with y.s = 0 must appear: 2^(n-1) outcomes *)
  let full := N.of_nat (length nz) * 2 =? 2 ^ N.of_nat n in
  [id; b2N (circ_eqb impl (simon_circuit n orc))] ++
  verdict (if xonly nq orc then c02_check n nq orc ds rets else None) ++
  verdict (if xonly nq orc then c03_check n nq orc (map snd rets) else None) ++
  let rets_ok := forallb (fun sq => Nat.leb n (snd sq) && Nat.ltb (snd sq) nq) rets in
  [b2N ok; N.of_nat k; b2N (rets_ok && two_to_one n ds (map fst rets) s); b2N (negb (orth && equal && full))] ++ zN ps.

(* ---------------- Grover ----------------
   nqo = qubits of the oracle circuit; the Grover circuit has nqo + 1.
   result: [id; corr; c06 status; c06 witness; amp ok; k; #solutions of f;
            iteration count agrees with ceil(pi/4 sqrt(N/M)) for M = declared n_matching;
            (ii) every solution strictly more likely than every non-solution (0 = holds);
            (iii) total solution probability > 1/2 (0 = holds);
            p_0 .. p_(2^n-1)] *)
Definition zmin (l : list Z) (d : Z) : Z := fold_right Z.min d l.
Definition zmax (l : list Z) (d : Z) : Z := fold_right Z.max d l.
Definition chk_grover (id : N) (n nqo : nat) (orc : circuit) (ds : defs) (rs ret : nat)
           (iters : nat) (m_decl : N) (impl : circuit) : list N :=
  let '(ok, k, ps) := eval_marg (S nqo) n impl in
  let fb := fbits n ds rs in
  let cnt := count_true fb in
  let pf := combine ps fb in
  let sol := map fst (filter (fun pb => snd pb) pf) in
  let non := map fst (filter (fun pb => negb (snd pb)) pf) in
  let it_ok := match grover_iters (2 ^ N.of_nat n) m_decl with Some i => Nat.eqb i iters | None => false end in
  let more := match sol, non with
              | [], _ => false
              | _, [] => true
              | s0 :: _, n0 :: _ => Z.ltb (zmax non n0) (zmin sol s0)
              end in
  let half := Z.ltb (pow2z k) (2 * fold_right Z.add 0%Z sol)%Z in
  [id; b2N (circ_eqb impl (grover_circuit n nqo ret orc iters))] ++ verdict (if xonly nqo orc then c06_check n nqo orc ds rs ret else None) ++
  [b2N ok; N.of_nat k; cnt; b2N it_ok; b2N (negb more); b2N (negb half)] ++ zN ps.
